"""Reference model of the built-in fields (DESIGN §2.3): which values a field spec accepts and
what their normal form is.  Written from the field documentation, independent of the library's
code.  Three-valued: ok is True / False / None (status left open by the documentation - such
values are never used for a verdict)."""
import base64
import binascii
import hashlib
import math
import os
import posixpath
import re

from .jsonx import DigestSpec, Opaque  # noqa: F401

UNKNOWN = None
ASCII_WS = " \t\n\r\x0b\x0c"
INT_RE = re.compile(r"^[ \t\n\r\x0b\x0c]*[+-]?[0-9]+[ \t\n\r\x0b\x0c]*\Z")
FLOAT_RE = re.compile(r"^[ \t\n\r\x0b\x0c]*[+-]?(([0-9]+(\.[0-9]*)?|\.[0-9]+)([eE][+-]?[0-9]+)?|inf|infinity|nan)"
                      r"[ \t\n\r\x0b\x0c]*\Z", re.I)
QUAD_RE = re.compile(r"^(0|[1-9][0-9]{0,2})\.(0|[1-9][0-9]{0,2})\.(0|[1-9][0-9]{0,2})\.(0|[1-9][0-9]{0,2})\Z")
DNS_RE = re.compile(r"^[a-zA-Z0-9][a-zA-Z0-9.\-]+\Z")
NETBIOS_RE = re.compile(r"^[A-Za-z0-9_!@#$%^()\-'{}.~]{1,15}\Z")
SCHEME_RE = re.compile(r"^[a-zA-Z][a-zA-Z0-9+.\-]*:")
TRUE = ("t", "true", "1", "on", "yes", "y")
FALSE = ("f", "false", "0", "off", "no", "n")
ALGS = {"md5": 16, "sha1": 20, "sha224": 28, "sha256": 32, "sha384": 48, "sha512": 64}
LOGLEVELS = ["debug", "info", "warning", "error", "critical"]
APPMODES = ["development", "production"]


class Hashed:
    """Normal form of a challenge value: 'a digest value that verifies exactly this secret'."""

    def __init__(self, secret, salt=None):
        self.secret = secret.encode() if isinstance(secret, str) else bytes(secret)
        self.salt = None if salt is None else bytes(salt)  # an imported digest keeps exactly this salt

    def __repr__(self):
        return "Hashed(%r)" % (self.secret[:20],)

    def __eq__(self, other):
        return isinstance(other, Hashed) and other.secret == self.secret

    def __hash__(self):
        return hash(self.secret)


# ------------------------------------------------------------------------------------------------


def accepts(f, v, env=None):
    """(ok, normal_form) of assigning python value v to a field spec f (the in-memory route)."""
    p = f.get("params", {})
    if v is None:
        return (False, None) if p.get("required") else (True, None)
    return _FAMILY[f["family"]](f, p, v, env or {})


def _quad(s):
    m = QUAD_RE.match(s)
    if not m:
        return None
    parts = [int(x) for x in m.groups()]
    if any(x > 255 for x in parts):
        return None
    return parts


def _str_params(f):
    """Effective string parameters (log-level / app-mode fields are string fields with presets)."""
    p = dict(f.get("params", {}))
    fam = f["family"]
    if fam == "loglevel":
        p.setdefault("transform_case", "lower")
        p.setdefault("transform_strip", True)
        p["choices"] = p.get("levels") or LOGLEVELS
    elif fam == "appmode":
        p.setdefault("transform_case", "lower")
        p.setdefault("transform_strip", True)
        p["choices"] = p.get("modes") or APPMODES
    return p


def _str_base(f, v):
    p = _str_params(f)
    if not isinstance(v, str):
        return False, None
    strip = p.get("transform_strip")
    if strip:
        v = v.strip(strip) if isinstance(strip, str) else v.strip()
    case = p.get("transform_case")
    if case:
        v = v.lower() if case.lower() == "lower" else v.upper()
    if p.get("required") and not v:
        return False, None
    if p.get("min_len") is not None and len(v) < p["min_len"]:
        return False, None
    if p.get("max_len") is not None and len(v) > p["max_len"]:
        return False, None
    if p.get("regex") and not re.match(p["regex"], v):
        return False, None
    if p.get("choices") and v not in p["choices"]:
        return False, None
    return True, v


def _str(f, p, v, env):
    return _str_base(f, v)


def _num(kind):
    def fn(f, p, v, env):
        lo, hi = p.get("min"), p.get("max")
        if f["family"] == "port":
            lo = 1 if lo is None and "min" not in p else lo
            hi = 65535 if hi is None and "max" not in p else hi
        if isinstance(v, bool):
            return False, None
        if isinstance(v, int):
            if kind is int:
                num = v
            else:
                try:
                    num = float(v)
                except OverflowError:
                    return False, None
        elif isinstance(v, float):
            if kind is int:
                if math.isnan(v) or math.isinf(v):
                    return False, None
                num = int(v)
            else:
                num = v
        elif isinstance(v, str):
            if not v.isascii() or "_" in v:
                return UNKNOWN, None
            rx = INT_RE if kind is int else FLOAT_RE
            if not rx.match(v):
                return False, None
            if len(v) > 400:
                return UNKNOWN, None
            num = kind(v)
        else:
            return False, None
        if isinstance(num, float) and math.isnan(num) and (lo is not None or hi is not None):
            return False, None  # NaN is neither >= the lower nor <= the upper bound
        if lo is not None and num < lo:
            return False, None
        if hi is not None and num > hi:
            return False, None
        return True, num

    return fn


def _bool(f, p, v, env):
    if isinstance(v, bool):
        return True, v
    if isinstance(v, (int, float)):
        return True, bool(v)
    if isinstance(v, str):
        low = v.lower()
        if low in TRUE:
            return True, True
        if low in FALSE:
            return True, False
        return False, None
    return False, None


def _ipv4(f, p, v, env):
    ok, s = _str_base(f, v)
    if not ok:
        return ok, None
    if _quad(s) is not None:
        return True, s
    if s.isascii() and not re.search(r"[^0-9.]", s) and s.count(".") == 3 and re.search(r"(^|\.)0[0-9]", s):
        return UNKNOWN, None  # leading zeros: rejected by recent Pythons only
    return False, None


def _net(f, p, v, env):
    ok, s = _str_base(f, v)
    if not ok:
        return ok, None
    addr, sep, suffix = s.partition("/")
    q = _quad(addr)
    if q is None:
        return (UNKNOWN if re.search(r"(^|\.)0[0-9]", addr) else False), None
    if not sep:
        plen = 32
    elif re.match(r"^(0|[1-9][0-9]?)\Z", suffix):
        plen = int(suffix)
        if plen > 32:
            return False, None
    elif _quad(suffix) is not None:
        m = 0
        for x in _quad(suffix):
            m = (m << 8) | x
        inv = m ^ 0xFFFFFFFF
        if (inv & (inv + 1)) == 0:  # contiguous ones from the top: a netmask
            plen = 32 - inv.bit_length()
            if m == 0:
                return UNKNOWN, None  # 0.0.0.0 is both a netmask and a hostmask
        else:
            return UNKNOWN, None  # hostmask or garbage
    else:
        return (UNKNOWN if suffix.isascii() and suffix.isdigit() else False), None
    a = 0
    for x in q:
        a = (a << 8) | x
    if plen < 32 and a & ((1 << (32 - plen)) - 1):
        return False, None  # host bits set
    if p.get("min_prefix_len") is not None and plen < p["min_prefix_len"]:
        return False, None
    if p.get("max_prefix_len") is not None and plen > p["max_prefix_len"]:
        return False, None
    return True, "%s/%d" % (addr, plen)


def _host(f, p, v, env):
    ok, s = _str_base(f, v)
    if not ok:
        return ok, None
    if p.get("resolve"):
        return UNKNOWN, None
    if _quad(s) is not None:
        return (True, s) if p.get("allow_ipv4", True) else (False, None)
    if not s.isascii():
        # a DNS name is ASCII; only the (at most 15 character) NetBIOS form admits other word characters
        return (False, None) if len(s) > 15 else (UNKNOWN, None)
    if s and not re.search(r"[^0-9.]", s):
        return UNKNOWN, None  # digits and dots only but not a dotted quad: is that a host name?
    if DNS_RE.match(s) or NETBIOS_RE.match(s):
        return True, s
    return False, None


def _url(f, p, v, env):
    ok, s = _str_base(f, v)
    if not ok:
        return ok, None
    if any(ord(c) <= 0x20 for c in s) or not s.isascii():
        return UNKNOWN, None
    m = SCHEME_RE.match(s)
    if "[" in s or "]" in s:
        # the one bracket rule every URL splitter has: inside the authority a '[' needs its ']' and vice versa
        if m and s[m.end():].startswith("//"):
            rest = s[m.end() + 2:]
            cut = min([rest.find(c) for c in "/?#" if c in rest] or [len(rest)])
            netloc = rest[:cut]
            if ("[" in netloc) != ("]" in netloc):
                return False, None
        return UNKNOWN, None
    if m:
        return True, s
    return False, None


def _file(f, p, v, env):
    ok, s = _str_base(f, v)
    if not ok:
        return ok, None
    exists = p.get("exists")
    if f["family"] == "include":
        exists = "file"
    if s == "":
        return True, s
    if s.startswith("~") or "\\" in s:
        return UNKNOWN, None
    startdir = p.get("startdir")
    isabs = posixpath.isabs(s) or s.startswith("$")  # "$FX/..." placeholders stand for absolute paths
    if not isabs and startdir:
        s = posixpath.normpath(posixpath.join(startdir, s))
        if not (posixpath.isabs(s) or s.startswith("$")):
            # a relative start directory is resolved against the working directory: the result is absolute
            s = posixpath.normpath(posixpath.join(env.get("cwd", "/nonexistent-cwd"), s))
        look = s
    elif isabs:
        look = posixpath.normpath(s)
    else:
        look = posixpath.normpath(posixpath.join(env.get("cwd", "/nonexistent-cwd"), s))
    if exists is None:
        return True, s
    kind = env.get("paths", {}).get(look, UNKNOWN if not look.startswith(env.get("root", "\0")) else "missing")
    if kind is UNKNOWN:
        return UNKNOWN, None
    if exists is True:
        return (True, s) if kind in ("file", "dir") else (False, None)
    if exists is False:
        return (True, s) if kind == "missing" else (False, None)
    if exists == "dir":
        return (True, s) if kind == "dir" else (False, None)
    if exists == "file":
        return (True, s) if kind == "file" else (False, None)
    return UNKNOWN, None


def _bytes(f, p, v, env):
    if isinstance(v, bytes):
        return True, v
    if isinstance(v, str):
        try:
            return True, v.encode("utf-8")
        except UnicodeEncodeError:
            return UNKNOWN, None
    return False, None


def _secure(f, p, v, env):
    return True, v


def _challenge(f, p, v, env):
    if isinstance(v, (str, bytes)):
        if isinstance(v, str):
            try:
                v.encode()
            except UnicodeEncodeError:
                return UNKNOWN, None
        return True, Hashed(v)
    if isinstance(v, DigestSpec):
        return True, Hashed(v.secret, v.salt if getattr(v, "raw", False) else None)
    return False, None


def _any(f, p, v, env):
    return True, v


def _list(f, p, v, env):
    if not isinstance(v, (list, tuple)):
        return False, None
    if p.get("required") and not v:
        return False, None
    item = f.get("item")
    if item is None or (item.get("kind") == "field" and item["family"] == "any"):
        return True, v
    out, unknown = [], False
    for x in v:
        if item["kind"] in ("schema", "ctype"):
            if not isinstance(x, dict):
                return False, None
            ok, n = accepts_tree(item, x, env)
        else:
            ok, n = accepts(item, x, env)
        if ok is False:
            return False, None
        if ok is None:
            unknown = True
        out.append(n)
    if unknown:
        return UNKNOWN, None
    return True, out


def _dict(f, p, v, env):
    if not isinstance(v, dict):
        return False, None
    if p.get("required") and not v:
        return False, None
    kf, vf = f.get("keyf"), f.get("valf")
    if kf is None and vf is None:
        return True, v
    out, unknown = {}, False
    for k, x in v.items():
        ok1, nk = accepts(kf, k, env) if kf else (True, k)
        ok2, nv = accepts(vf, x, env) if vf else (True, x)
        if ok1 is False or ok2 is False:
            return False, None
        if ok1 is None or ok2 is None:
            unknown = True
            continue
        try:
            if nk in out:
                unknown = True  # two keys with one normal form: the winner depends on the order of arrival
            out[nk] = nv
        except TypeError:
            return UNKNOWN, None
    if unknown:
        return UNKNOWN, None
    return True, out


_FAMILY = {
    "str": _str, "loglevel": _str, "appmode": _str, "int": _num(int), "port": _num(int), "float": _num(float),
    "bool": _bool, "flag": _bool, "ipv4": _ipv4, "net": _net, "host": _host, "url": _url, "file": _file,
    "include": _file, "bytes": _bytes, "secure": _secure, "challenge": _challenge, "any": _any, "list": _list,
    "dict": _dict,
}
PERSISTENT = set(_FAMILY) - {"include"}


# ------------------------------------------------------------------------------------------------
# on-disk route


def to_python(f, v, env=None):
    """(ok, python_value) of decoding the on-disk form v for field f."""
    fam = f["family"]
    p = f.get("params", {})
    if v is None:
        return True, None
    if fam == "bytes":
        if not isinstance(v, str):
            return False, None
        try:
            if p.get("encoding", "base64") == "hex":
                return True, bytes.fromhex(v)
            if not re.match(r"^[A-Za-z0-9+/]*={0,2}\Z", v):
                return UNKNOWN, None  # characters outside the alphabet are ignored by lenient decoders
            return True, base64.b64decode(v)
        except (ValueError, binascii.Error):
            return False, None
    if fam == "challenge":
        if isinstance(v, str):
            return True, v
        if isinstance(v, dict):
            if "salt" not in v or "digest" not in v:
                return False, None  # half of a salt / digest pair
            for part in (v["salt"], v["digest"]):
                if isinstance(part, str) and re.match(r"^[A-Za-z0-9+/]*\Z", part) and len(part) % 4 == 1:
                    return False, None  # no base64 text has 4n+1 characters
            return UNKNOWN, None  # literal digests are compared structurally by the callers
        return False, None
    if fam == "secure":
        if isinstance(v, str):
            return True, v
        return UNKNOWN, None
    if fam == "list":
        item = f.get("item")
        if item is None or (item.get("kind") == "field" and item["family"] == "any"):
            return True, v
        if not isinstance(v, (list, tuple)):
            return False, None
        if item["kind"] != "field":
            return True, v
        out = []
        for x in v:
            ok, y = to_python(item, x, env)
            if ok is not True:
                return ok, None
            out.append(y)
        return True, out
    if fam == "dict":
        kf, vf = f.get("keyf"), f.get("valf")
        if kf is None and vf is None:
            return True, v
        if not isinstance(v, dict):
            return False, None
        out = {}
        for k, x in v.items():
            ok1, nk = to_python(kf, k, env) if kf else (True, k)
            ok2, nv = to_python(vf, x, env) if vf else (True, x)
            if ok1 is not True or ok2 is not True:
                return (False if (ok1 is False or ok2 is False) else UNKNOWN), None
            out[nk] = nv
        return True, out
    return True, v


class _NoneOrEmpty:
    """Normal form of an unset typed list/dict that went through the on-disk route: it may come back empty."""

    def __repr__(self):
        return "<None or empty>"


NoneOrEmpty = _NoneOrEmpty()


def accepts_disk(f, v, env=None):
    if v is None and not f.get("params", {}).get("required"):
        if (f["family"] == "list" and f.get("item") is not None and not (
                f["item"].get("kind") == "field" and f["item"]["family"] == "any")) or (
                f["family"] == "dict" and (f.get("keyf") or f.get("valf"))):
            return True, NoneOrEmpty
    ok, pv = to_python(f, v, env)
    if ok is not True:
        return ok, None
    return accepts(f, pv, env)


def to_basic(f, n):
    """On-disk form of a normal-form value (None when the model cannot state it: secrets,
    digests)."""
    fam = f["family"]
    p = f.get("params", {})
    if n is None:
        return True, None
    if fam == "bytes":
        return True, (n.hex() if p.get("encoding", "base64") == "hex" else base64.b64encode(n).decode())
    if fam in ("secure", "challenge"):
        return UNKNOWN, None
    if fam == "list":
        item = f.get("item")
        if item is None or item.get("kind") != "field" or item["family"] == "any":
            return (True, list(n)) if (item is None or item.get("kind") == "field") else (UNKNOWN, None)
        out = []
        for x in n:
            ok, y = to_basic(item, x)
            if ok is not True:
                return ok, None
            out.append(y)
        return True, out
    if fam == "dict":
        kf, vf = f.get("keyf"), f.get("valf")
        if kf is None and vf is None:
            return True, dict(n)
        out = {}
        for k, x in n.items():
            ok1, nk = to_basic(kf, k) if kf else (True, k)
            ok2, nv = to_basic(vf, x) if vf else (True, x)
            if ok1 is not True or ok2 is not True:
                return UNKNOWN, None
            out[nk] = nv
        return True, out
    return True, n


# ------------------------------------------------------------------------------------------------
# trees against schemas


def fields_of(node):
    """Schema node of a schema / config-type node."""
    return node["schema"] if node["kind"] == "ctype" else node


def stored_children(schema_node):
    """Child nodes that hold a value in a configuration (virtual and method fields do not)."""
    out = []
    for ch in fields_of(schema_node)["fields"]:
        if ch["kind"] == "field" and ch["family"] in ("virtual", "method"):
            continue
        out.append(ch)
    return out


def default_of(node, env=None):
    """(known, value) - the normal form a fresh configuration exposes for this child."""
    if node["kind"] in ("schema", "ctype"):
        return True, defaults_tree(node, env)
    p = node.get("params", {})
    if "default" not in p or p["default"] is None:
        return True, None
    d = p["default"]
    fam = node["family"]
    if fam == "challenge":
        if isinstance(d, str):
            return True, Hashed(d)
        if isinstance(d, DigestSpec):
            return True, Hashed(d.secret)
        return UNKNOWN, None
    if fam == "list":
        if isinstance(d, tuple):
            d = list(d)  # a tuple is a list to a list field, in a declared default as in an assignment
        if isinstance(d, list):
            if node.get("item") is None:
                return True, list(d)
            ok, n = accepts(node, d, env)
            return (True, n) if ok else (UNKNOWN, None)
        return True, d
    if fam == "dict":
        if isinstance(d, (list, tuple)) and all(isinstance(x, (list, tuple)) and len(x) == 2 for x in d):
            try:
                d = dict(d)  # a default written as a sequence of pairs is that dict
            except TypeError:
                return UNKNOWN, None
        if isinstance(d, dict):
            if node.get("keyf") is None and node.get("valf") is None:
                return True, dict(d)
            ok, n = accepts(node, d, env)
            return (True, n) if ok else (UNKNOWN, None)
        return True, d
    return True, d


def defaults_tree(schema_node, env=None):
    out = {}
    for ch in stored_children(schema_node):
        known, val = default_of(ch, env)
        out[ch["key"]] = val if known else Unknown
    return out


class _UnknownType:
    def __repr__(self):
        return "<unknown>"


Unknown = _UnknownType()


def is_enabled(schema_node, values):
    """A (sub)configuration is enabled iff all its feature-flag fields are truthy."""
    for ch in fields_of(schema_node)["fields"]:
        if ch["kind"] == "field" and ch["family"] == "flag":
            if not values.get(ch["key"]):
                return False
    return True


def empty_required(node, value):
    """Is `value` an unmet requirement for a required field (unset, or empty for str/list/dict)?"""
    if value is None:
        return True
    fam = node["family"]
    if fam in ("str", "loglevel", "appmode", "ipv4", "net", "host", "url", "file") and value == "":
        return True
    if fam in ("list", "dict") and hasattr(value, "__len__") and len(value) == 0:
        return True
    return False


def accepts_tree(schema_node, tree, env=None, base=None):
    """Loading `tree` (on-disk forms) over the defaults (or over `base` normal forms) of a schema
    node, then validating: (ok, normal-form dict).  Unknown keys make it fail unless the schema is
    dynamic."""
    sch = fields_of(schema_node)
    values = dict(base) if base is not None else defaults_tree(schema_node, env)
    kids = {ch["key"]: ch for ch in sch["fields"]}
    unknown = False
    if not isinstance(tree, dict):
        return False, None
    for k, v in tree.items():
        ch = kids.get(k)
        if ch is None:
            if sch.get("dynamic"):
                values[k] = v
                continue
            return False, None
        if ch["kind"] in ("schema", "ctype"):
            if not isinstance(v, dict):
                return False, None
            ok, n = accepts_tree(ch, v, env)
        elif ch["family"] in ("virtual", "method"):
            return UNKNOWN, None
        else:
            ok, n = accepts_disk(ch, v, env)
        if ok is False:
            return False, None
        if ok is None:
            unknown = True
            continue
        values[k] = n
    if unknown:
        return UNKNOWN, None
    ok = validate_values(schema_node, values)
    if ok is not True:
        return ok, None
    return True, values


def validate_values(schema_node, values):
    """Whole-configuration validation: required fields of enabled (sub)configurations."""
    if not is_enabled(schema_node, values):
        return True
    for ch in stored_children(schema_node):
        v = values.get(ch["key"])
        if v is Unknown:
            return UNKNOWN
        if ch["kind"] in ("schema", "ctype"):
            if isinstance(v, dict):
                ok = validate_values(ch, v)
                if ok is not True:
                    return ok
            continue
        if ch["family"] == "include":
            continue
        if ch.get("params", {}).get("required") and empty_required(ch, v):
            return False
        if ch["family"] == "list" and ch.get("item") and ch["item"]["kind"] in ("schema", "ctype") and isinstance(v, (list, tuple)):
            for it in v:
                if isinstance(it, dict):
                    ok = validate_values(ch["item"], it)
                    if ok is not True:
                        return ok
    return True


# ------------------------------------------------------------------------------------------------
# comparing a normal form with what the library holds


def digest_ok(actual, secret, alg):
    """actual: common.Digest (salt, digest, algname)"""
    from .common import Digest

    if not isinstance(actual, Digest):
        return False
    salt, digest, name = actual
    if alg and name != alg:
        return False
    if name not in ALGS:
        return False
    return hashlib.new(name, salt + secret).digest() == digest and len(salt) == ALGS[name]


def match(norm, actual, path=""):
    """None when the plain image `actual` equals the model's normal form, else a description."""
    from .common import Digest, eqstar

    if norm is Unknown:
        return None
    if norm is NoneOrEmpty:
        if actual is None or (isinstance(actual, (list, dict)) and len(actual) == 0):
            return None
        return "%s: expected unset or empty, found %r" % (path or "value", actual)
    if isinstance(norm, Hashed):
        if isinstance(actual, Digest) and norm.salt is not None:
            salt, digest, name = actual
            if bytes(salt) == norm.salt and name in ALGS and hashlib.new(name, norm.salt + norm.secret).digest() == bytes(digest):
                return None
            return "%s: expected the imported digest with its %d-byte salt, found salt of %d bytes (%r)" % (path or "value", len(norm.salt), len(salt), actual)
        if isinstance(actual, Digest) and digest_ok(actual, norm.secret, None):
            return None
        return "%s: expected a digest verifying %r, found %r" % (path or "value", norm.secret[:16], actual)
    if isinstance(norm, dict) and isinstance(actual, dict):
        if len(norm) != len(actual):
            return "%s: keys %r vs %r" % (path or "value", sorted(map(repr, norm)), sorted(map(repr, actual)))
        for k, v in norm.items():
            hit = [kk for kk in actual if (type(kk) is type(k) or (isinstance(kk, str) and isinstance(k, str))) and kk == k]
            if not hit:
                return "%s: key %r missing (has %r)" % (path or "value", k, list(actual)[:6])
            d = match(v, actual[hit[0]], "%s[%r]" % (path, k) if path else repr(k))
            if d:
                return d
        return None
    if isinstance(norm, (list, tuple)) and isinstance(actual, (list, tuple)) and not isinstance(actual, Digest):
        if len(norm) != len(actual):
            return "%s: length %d vs %d" % (path or "value", len(norm), len(actual))
        if isinstance(norm, tuple) != isinstance(actual, tuple):
            return "%s: %s vs %s" % (path or "value", type(norm).__name__, type(actual).__name__)
        for i, (a, b) in enumerate(zip(norm, actual)):
            d = match(a, b, "%s[%d]" % (path, i))
            if d:
                return d
        return None
    if isinstance(norm, Opaque):
        return None
    if eqstar(norm, actual, zero_sign=False):
        return None
    return "%s: expected %r, found %r" % (path or "value", _sh(norm), _sh(actual))


def _sh(v):
    r = repr(v)
    return r if len(r) <= 100 else r[:97] + "..."
