"""Helpers shared by the save/load properties (C02, C03, C10, C19): schemas restricted to what a
document can carry, valid states in a format's domain, and state comparison with the two
normalisations the properties allow (unset typed list/dict <-> empty, '' secret -> unset)."""
from . import gen, model, trees
from .common import Digest, eqstar

STR_KEY_FAMS = ("str", "loglevel", "host")


def persistable(node, rng):
    """In-place: make a schema spec persistable - typed dict keys are string-like (non-string keys
    are known finding K6), no filename fields (they depend on the file system), no required
    flags on secrets."""
    for ch in model.fields_of(node)["fields"]:
        if ch["kind"] in ("schema", "ctype"):
            persistable(ch, rng)
            continue
        _fix_field(ch, rng)
    return node


def _fix_field(f, rng):
    if f["family"] == "file":
        f["family"] = "str"
        f["params"] = {k: v for k, v in f["params"].items() if k in ("required", "default", "sensitive", "name")}
        f["params"].pop("default", None)
    if f["family"] == "dict":
        kf = f.get("keyf")
        if kf is not None and kf["family"] not in STR_KEY_FAMS:
            f["keyf"] = {"kind": "field", "family": "str", "params": {}}
            f["params"].pop("default", None)
        for sub in ("keyf", "valf"):
            if f.get(sub):
                _fix_field(f[sub], rng)
        if f.get("keyf") is None and f.get("valf") is not None:
            f["keyf"] = {"kind": "field", "family": "str", "params": {}}
            f["params"].pop("default", None)
    if f["family"] == "list" and f.get("item"):
        if f["item"]["kind"] == "field":
            _fix_field(f["item"], rng)
        else:
            persistable(f["item"], rng)
    if f["family"] == "any":
        f["params"].pop("default", None)
    if "default" in f["params"] and ((f["family"] == "list" and (f.get("item") is None or untyped(f.get("item")))) or (
            f["family"] == "dict" and (f.get("valf") is None or untyped(f.get("valf"))))):
        if _has_bytes(f["params"]["default"]) or not _no_nan(f["params"]["default"]):
            f["params"].pop("default", None)
    if f["family"] == "secure":
        f["params"].pop("required", None)  # '' is accepted by a required secret but stored as unset (open status)
    if f["family"] in ("list", "dict") and "default" in f["params"] and (
            not _plain(f["params"]["default"]) or _holds(f, "secure") or _holds(f, "any")):
        f["params"].pop("default", None)


def _has_bytes(v):
    if isinstance(v, bytes):
        return True
    if isinstance(v, list):
        return any(_has_bytes(x) for x in v)
    if isinstance(v, dict):
        return any(_has_bytes(x) for x in v.values())
    return False


def _holds(f, fam):
    for sub in ("item", "keyf", "valf"):
        node = f.get(sub)
        if node and node.get("kind") == "field" and (node["family"] == fam or _holds(node, fam)):
            return True
    return False


def _plain(v):
    if v is None or isinstance(v, (bool, int, str)):
        return True
    if isinstance(v, float):
        return v == v
    if isinstance(v, bytes):
        return True
    if isinstance(v, list):
        return all(_plain(x) for x in v)
    if isinstance(v, dict):
        return all(isinstance(k, str) and _plain(x) for k, x in v.items())
    return False


def untyped(node):
    if node is None:
        return True
    if node.get("kind") != "field":
        return False
    return node["family"] == "any"


def plain_value(rng, fmt, depth=2):
    for _ in range(30):
        v = trees.gen_value(rng, depth, [6])
        if trees.in_domain(fmt, v) and _no_nan(v):
            return v
    return 1


def _no_nan(v):
    if isinstance(v, float):
        return v == v
    if isinstance(v, list):
        return all(_no_nan(x) for x in v)
    if isinstance(v, dict):
        return all(_no_nan(x) for x in v.values())
    return True


def state_tree(rng, node, fmt, env=None, partial=0.3):
    """A valid on-disk tree for a schema node whose values are representable in `fmt`: untyped
    positions get plain data of the format's domain, strings are filtered by the domain."""
    out = {}
    for ch in model.stored_children(node):
        req = ch.get("params", {}).get("required") if ch["kind"] == "field" else False
        if not req and rng.random() < partial:
            continue
        if ch["kind"] in ("schema", "ctype"):
            out[ch["key"]] = state_tree(rng, ch, fmt, env, partial)
            continue
        if ch["family"] == "include":
            continue
        v = _value_for(rng, ch, fmt, env)
        if v is not _SKIP:
            out[ch["key"]] = v
    return out


_SKIP = object()


def _value_for(rng, f, fmt, env, tries=15):
    fam = f["family"]
    if fam == "any":
        return plain_value(rng, fmt)
    if fam == "list":
        item = f.get("item")
        n = rng.choice([0, 1, 2, 3])
        if f.get("params", {}).get("required"):
            n = max(n, 1)
        if item is None or untyped(item):
            return [plain_value(rng, fmt, 1) for _ in range(n)]
        if item["kind"] != "field":
            return [state_tree(rng, item, fmt, env, 0.3) for _ in range(n)]
        vals = []
        for _ in range(n):
            v = _value_for(rng, item, fmt, env)
            if v is _SKIP:
                continue
            vals.append(v)
        if f.get("params", {}).get("required") and not vals:
            return _SKIP
        return vals
    if fam == "dict":
        kf, vf = f.get("keyf"), f.get("valf")
        n = rng.choice([0, 1, 2, 3])
        if f.get("params", {}).get("required"):
            n = max(n, 1)
        if kf is None and vf is None:
            t = {}
            for _ in range(n):
                t["k%d" % rng.randrange(50)] = plain_value(rng, fmt, 1)
            return t if trees.in_domain(fmt, t) else {}
        out, seen = {}, set()
        for _ in range(n):
            k = _value_for(rng, kf, fmt, env) if kf else "k%d" % rng.randrange(50)
            v = _value_for(rng, vf, fmt, env) if vf else plain_value(rng, fmt, 1)
            if k is _SKIP or v is _SKIP or not isinstance(k, str):
                continue
            ok, nk = model.accepts(kf, k, env) if kf else (True, k)
            if ok is not True or nk in seen or not trees.in_domain(fmt, {nk: 1}) or not trees.in_domain(fmt, {k: 1}):
                continue
            seen.add(nk)
            out[k] = v
        if f.get("params", {}).get("required") and not out:
            return _SKIP
        return out
    for _ in range(tries):
        v = gen.one_value(rng, f, "valid", env)
        if v is None:
            if f.get("params", {}).get("required"):
                continue
            return _SKIP
        ok, disk = gen.disk_form(f, v, env)
        if not ok:
            continue
        if fam == "secure" and not isinstance(disk, str):
            continue  # secrets are text; other python values in an (untyped) SecureField are out of scope
        if isinstance(disk, float) and disk != disk:
            continue
        if not trees.in_domain(fmt, disk):
            continue
        ok2, norm = model.accepts_disk(f, disk, env)
        if ok2 is not True:
            continue
        if fam not in ("bytes", "challenge") and not isinstance(norm, model.Hashed) and not trees.in_domain(fmt, _basic_image(norm)):
            continue
        return disk
    return _SKIP


def _basic_image(v):
    if isinstance(v, bytes):
        return "x"
    if isinstance(v, (list, tuple)):
        return [_basic_image(x) for x in v]
    if isinstance(v, dict):
        return {(k if isinstance(k, str) else str(k)): _basic_image(x) for k, x in v.items()}
    return v


# ------------------------------------------------------------------------------------------------
# comparing two states of one schema


def diff_states(node, want, got, path="", out=None):
    """Differences between two plain images (common.plain) of configurations of schema `node`,
    modulo: unset typed list/dict <-> empty; '' secret <-> unset."""
    out = out if out is not None else []
    kids = {ch["key"]: ch for ch in model.fields_of(node)["fields"]}
    for key in list(want) + [k for k in got if k not in want]:
        p = (path + "." if path else "") + str(key)
        if key not in want:
            out.append("%s: appeared (%r)" % (p, got[key]))
            continue
        if key not in got:
            out.append("%s: vanished (was %r)" % (p, want[key]))
            continue
        ch = kids.get(key)
        a, b = want[key], got[key]
        if ch is None:
            if not eqstar(a, b):
                out.append("%s: %r -> %r" % (p, a, b))
            continue
        if ch["kind"] in ("schema", "ctype"):
            if isinstance(a, dict) and isinstance(b, dict):
                diff_states(ch, a, b, p, out)
            elif not eqstar(a, b):
                out.append("%s: %r -> %r" % (p, a, b))
            continue
        d = diff_value(ch, a, b, p)
        if d:
            out.append(d)
    return out


def diff_value(f, a, b, p):
    fam = f["family"]
    if fam == "secure":
        if a in ("", None):
            return None if b in ("", None) else "%s: empty secret came back as %r" % (p, b)
        return None if eqstar(a, b) else "%s: %r -> %r" % (p, a, b)
    item = f.get("item")
    if fam == "list" and item is not None and not untyped(item):
        if a is None or (isinstance(a, list) and not a):
            return None if (b is None or (isinstance(b, list) and not b)) else "%s: %r -> %r" % (p, a, b)
        if not isinstance(b, list) or len(a) != len(b):
            return "%s: %r -> %r" % (p, a, b)
        for i, (x, y) in enumerate(zip(a, b)):
            if item["kind"] == "field":
                d = diff_value(item, x, y, "%s[%d]" % (p, i))
            else:
                sub = []
                if isinstance(x, dict) and isinstance(y, dict):
                    diff_states(item, x, y, "%s[%d]" % (p, i), sub)
                elif not eqstar(x, y):
                    sub.append("%s[%d]: %r -> %r" % (p, i, x, y))
                d = sub[0] if sub else None
            if d:
                return d
        return None
    if fam == "dict" and (f.get("keyf") or f.get("valf")):
        if a is None or (isinstance(a, dict) and not a):
            return None if (b is None or (isinstance(b, dict) and not b)) else "%s: %r -> %r" % (p, a, b)
        if not isinstance(b, dict) or len(a) != len(b):
            return "%s: %r -> %r" % (p, a, b)
        for k, x in a.items():
            hit = [kk for kk in b if (type(kk) is type(k) or (isinstance(kk, str) and isinstance(k, str))) and kk == k]
            if not hit:
                return "%s: key %r lost (%r)" % (p, k, list(b))
            d = diff_value(f["valf"], x, b[hit[0]], "%s[%r]" % (p, k)) if f.get("valf") else (
                None if eqstar(x, b[hit[0]]) else "%s[%r]: %r -> %r" % (p, k, x, b[hit[0]]))
            if d:
                return d
        return None
    if isinstance(a, Digest) or isinstance(b, Digest):
        return None if (isinstance(a, Digest) and isinstance(b, Digest) and tuple(a) == tuple(b)) else "%s: %r -> %r" % (p, a, b)
    return None if eqstar(a, b) else "%s: %r -> %r" % (p, a, b)


def tree_plain_problems(tree, path="", out=None):
    """Non-plain values, non-string keys in a serialised tree."""
    out = out if out is not None else []
    if tree is None or isinstance(tree, (bool, int, float, str)):
        return out
    if type(tree) is list:
        for i, v in enumerate(tree):
            tree_plain_problems(v, "%s[%d]" % (path, i), out)
        return out
    if isinstance(tree, dict) and type(tree) is dict:
        for k, v in tree.items():
            if not isinstance(k, str):
                out.append(("non-string-key", "%s: map key %r is a %s" % (path or "<root>", k, type(k).__name__)))
            tree_plain_problems(v, "%s.%s" % (path, k), out)
        return out
    out.append(("non-plain-value", "%s: %s %r is not plain data" % (path or "<root>", type(tree).__name__, tree)))
    return out
