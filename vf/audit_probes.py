"""Directed probes for the findings of the audit round (DESIGN 8.2): each reproduces one recorded behaviour of the
library on the tree under test and reports it under a fixed (monitor, feature) pair, which known_findings.txt lists.
A probe that no longer reproduces reports nothing (the check then prints a NOTE for the listed finding)."""
import ast
import json
import os


def run(key, ctx, res):
    fn = PROBES[key]
    res.count("audit_probe:" + key)
    fn(ctx.cc, ctx, res)


def k9(cc, ctx, res):
    schema = cc.Schema()
    schema.db.port = cc.IntField(default=5432)
    item = cc.Schema()
    item.port = cc.IntField(default=80)
    schema.servers = cc.ListField(item, default=lambda: [])
    a, b = schema(), schema()
    a.servers = [{"port": 8080}]
    b.db = a.db
    b.db.port = 1
    b.servers = a.servers
    b.servers[0].port = 2
    if a.db.port == 1 or a.servers[0].port == 2:
        res.viol("M-twin", "configuration-object-taken-over-is-shared", "b.db = a.db; b.db.port = 1 -> a.db.port == %r; b.servers = a.servers; "
                 "b.servers[0].port = 2 -> a.servers[0].port == %r (a configuration object that is assigned to a second configuration is "
                 "adopted, not copied: both hold the same object)" % (a.db.port, a.servers[0].port))


def k10(cc, ctx, res):
    if "VFK10_PORT" in os.environ:
        return
    schema = cc.Schema(env="VFK10")
    schema.port = cc.IntField(default=1)
    os.environ["VFK10_PORT"] = "8080"
    cfg = schema()
    del os.environ["VFK10_PORT"]
    cfg.load_tree({"port": 99})
    first = cfg.port
    cfg2 = schema()
    os.environ["VFK10_PORT"] = "8080"
    cfg2.load_tree({"port": 99})
    del os.environ["VFK10_PORT"]
    if first == 99 or cfg2.port == 1:
        res.viol("M-env", "variable-looked-up-when-the-document-is-loaded", "VFK10_PORT=8080 when the configuration is built and unset before "
                 "load_tree({'port': 99}): port == %r (the document wins); unset when built and set before the load: port == %r (the document's "
                 "value is dropped): load_tree asks the environment again instead of remembering what happened at construction" % (first, cfg2.port))


def k11(cc, ctx, res):
    if "VFK11_DB_HOST" in os.environ:
        return
    schema = cc.Schema(env="VFK11")
    schema.db.host = cc.StringField(default="h")
    schema.db.port = cc.IntField(default=1)
    os.environ["VFK11_DB_HOST"] = "envhost"
    try:
        cfg = schema()
        cfg.db = {"host": "assigned", "port": 5}
        got = (cfg.db.host, cfg.db.port)
    finally:
        del os.environ["VFK11_DB_HOST"]
    if got == ("envhost", 5):
        res.viol("M-env", "mapping-assigned-to-section-does-not-override", "VFK11_DB_HOST=envhost; cfg.db = {'host': 'assigned', 'port': 5} leaves "
                 "db.host == 'envhost' (port becomes 5): a map assigned to a section goes through load_tree, which skips bound fields")


def k12(cc, ctx, res):
    schema = cc.Schema()
    schema.net = cc.IPv4NetworkField(max_len=8)
    cfg = schema()
    try:
        cfg.net = "10.0.0.0"
        stored = cfg.net
        schema.net.validate(cfg, stored)
        again = None
    except Exception as exc:
        stored, again = getattr(cfg, "net", None), exc
    if stored == "10.0.0.0/32" and again is not None:
        res.viol("M-idempotent", "not-idempotent:normalised-after-string-checks", "IPv4NetworkField(max_len=8): validate('10.0.0.0') gives "
                 "'10.0.0.0/32', which the same field rejects (%s): the inherited string checks (max_len, regex, choices, case) run before the "
                 "network / start-directory normalisation (FilenameField(startdir=..., max_len=...) alike)" % again)


def k13(cc, ctx, res):
    schema = cc.Schema()
    schema.ssl.enabled = cc.FeatureFlagField(default=False)
    schema.ssl.cert = cc.StringField(required=True)
    cfg = schema()
    try:
        cfg.validate()
        schema().loads(cfg.dumps("json"), "json")
    except Exception as exc:
        res.viol("M-roundtrip", "disabled-section-with-unset-required-field", "a section whose feature flag is off and whose required field was "
                 "never set passes validate(), but its own document does not load: %s (the load path applies the required check without "
                 "consulting the flag)" % exc)


def k14(cc, ctx, res):
    account = cc.Schema()
    account.token = cc.StringField(sensitive=True)
    schema = cc.Schema()
    schema.groups = cc.ListField(cc.ListField(account))
    schema.by_team = cc.DictField(cc.StringField(), cc.ListField(account))
    cfg = schema()
    cfg.groups = [[{"token": "TOKEN-IN-LIST-OF-LISTS"}]]
    cfg.by_team = {"t": [{"token": "TOKEN-IN-DICT-OF-LISTS"}]}
    text = json.dumps(cfg.to_tree(sensitive_mask="*"), default=str)
    if "TOKEN-IN-LIST-OF-LISTS" in text or "TOKEN-IN-DICT-OF-LISTS" in text:
        res.viol("M-leak", "unmasked:configuration-in-nested-container", "ListField(ListField(account)) / DictField(StringField(), "
                 "ListField(account)) with account.token sensitive: to_tree(sensitive_mask='*') shows the tokens (the mask reaches "
                 "configurations in a list that is the direct value of a field, not lists inside other containers)")


def k15(cc, ctx, res):
    schema = cc.Schema()
    schema.api_keys = cc.ListField(cc.StringField(sensitive=True))
    schema.passwords = cc.DictField(cc.StringField(), cc.StringField(sensitive=True))
    cfg = schema()
    cfg.api_keys = ["KEY-ONE-PLAINTEXT"]
    cfg.passwords = {"alice": "ALICE-PASSWORD"}
    text = json.dumps(cfg.to_tree(sensitive_mask="<hidden>"))
    if "KEY-ONE-PLAINTEXT" in text or "ALICE-PASSWORD" in text:
        res.viol("M-leak", "unmasked:sensitive-item-field-of-a-container", "ListField(StringField(sensitive=True)) and DictField(StringField(), "
                 "StringField(sensitive=True)): the masked tree equals the unmasked one (only the flag of the field registered under the key "
                 "is looked at, not the item / value field's)")


def k16(cc, ctx, res):
    schema = cc.Schema()
    schema.top_b = cc.IntField(default=2)
    schema.sub.a = cc.IntField(default=10)
    schema.sub.b = cc.IntField(default=20)
    cfg = schema()
    cfg.top_b = 22
    cfg.sub.b = 99
    cfg.load_tree({"sub": {"a": 11}})
    if cfg.top_b == 22 and cfg.sub.b == 20 and not cc.is_value_defined(cfg, "sub.b"):
        res.viol("M-state", "load-rebuilds-section:unmentioned-fields-reset", "cfg.sub.b = 99; cfg.load_tree({'sub': {'a': 11}}): sub.b is back at "
                 "its default 20 and not user-defined although nobody reset it (top-level fields the tree does not mention keep value and "
                 "status): loading a nested map replaces the whole section by a fresh configuration")


def k17(cc, ctx, res):
    schema = cc.Schema()
    schema.server.http.port = cc.IntField(default=80)
    paths = [p for p, _o, _f in cc.get_all_fields(schema.server.http)]
    if paths == ["http.port"]:
        res.viol("M-names", "enumeration-of-a-nested-schema", "get_all_fields(schema.server.http) reports %r: neither the path relative to that "
                 "schema ('port') nor the reference path ('server.http.port'); it resolves on neither the section nor the root" % (paths,))


def k18(cc, ctx, res):
    out = []
    for label, build in (("a field named help", lambda s: setattr(s, "help", cc.StringField())),
                         ("a boolean verify next to a field no_verify", lambda s: (setattr(s, "verify", cc.BoolField()), setattr(s, "no_verify", cc.StringField()))),
                         ("db.URL next to db.url", lambda s: (s.__setitem__("db.URL", cc.StringField()), s.__setitem__("db.url", cc.StringField())))):
        s = cc.Schema()
        build(s)
        try:
            cc.generate_argparse_parser(s)
        except Exception as exc:
            out.append("%s: %s" % (label, type(exc).__name__))
    if out:
        res.viol("M-parser", "option-strings-collide-for-distinct-paths", "generate_argparse_parser fails for schemas whose paths are distinct "
                 "after the '.'/'_' mapping: %s (argparse's own --help, the generated --no-<x> switch, lower-casing of option strings)" % "; ".join(out))


def k19(cc, ctx, res):
    f = cc.ConfigFormat.get("xml")
    tree = {"labels": {"xml:lang": "en"}}
    try:
        back = f.loads(None, f.dumps(None, tree))
    except Exception as exc:
        back = exc
    try:
        f.dumps(None, {"labels": {"db:primary": 1}})
        second = None
    except Exception as exc:
        second = type(exc).__name__
    if back != tree or second:
        res.viol("M-roundtrip", "xml:key-with-colon", "XML: the key 'xml:lang' (an XML name) decodes as %r, the key 'db:primary' makes dumps fail "
                 "with %s: element tags with a colon are taken for namespace prefixes" % (back if not isinstance(back, Exception) else type(back).__name__, second))


def k20(cc, ctx, res):
    d = ctx.dir
    schema = cc.Schema()
    schema.port = cc.IntField(default=80)
    schema.mode = cc.StringField(default="dev")
    schema.include = cc.IncludeField()
    cfg = schema()
    part = os.path.join(d, "k20-part.json")
    with open(part, "w") as fp:
        json.dump({"mode": "prod", "include": os.path.join(d, "k20-missing.json")}, fp)
    main = os.path.join(d, "k20-main.json")
    with open(main, "w") as fp:
        json.dump({"port": 9000, "include": part}, fp)
    try:
        cfg.load(main, "json")
        return
    except Exception:
        pass
    if cfg.port == 9000:
        res.viol("M-same", "loads-include:missing-file-named-by-an-included-file", "main.json includes part.json, which names a missing include "
                 "file: the load raises, but port is already 9000 (the second file name is only looked at by field validation, half way "
                 "through load_tree)")


def k21(cc, ctx, res):
    item = cc.Schema()
    item.name = cc.StringField(required=True)
    schema = cc.Schema()
    schema.items = cc.ListField(item, default=lambda: [])
    a, b = schema(), schema()
    a.items = [{"name": "x"}]
    it = a.items[0]
    try:
        b.items = [it, {"name": None}]
        return
    except Exception:
        pass
    if it._parent is b:
        res.viol("M-same", "list-assignment:earlier-items-adopted-before-a-later-one-is-refused", "b.items = [a.items[0], {'name': None}] raises "
                 "for the second element, but a.items[0] already names b as its parent (items of a multi-element assignment / extend are taken "
                 "over one by one; only the refused one is given back)")


def k22(cc, ctx, res):
    schema = cc.Schema(dynamic=True)
    schema.ports = cc.ListField(cc.IntField())
    cfg = schema()
    cfg.ports = [80, 443]
    cfg.old_ports = cfg.ports
    tree = cfg.to_tree()
    if type(tree.get("old_ports")) is not list:
        res.viol("M-tree", "typed-container-held-by-an-untyped-field", "cfg.old_ports = cfg.ports on a dynamic configuration: to_tree() emits the "
                 "%s object itself (it refers to the whole configuration; YAML cannot encode it, pickle embeds the configuration)" % type(tree.get("old_ports")).__name__)


def k23(cc, ctx, res):
    import typing

    def build():
        class Local(cc.ConfigType):
            __schema__ = cc.Schema()

        return Local

    schema = cc.Schema()

    @cc.instance_method(schema, "m")
    def m(cfg, items: typing.List[build()]):  # noqa: B008
        return None

    try:
        ast.parse(cc.generate_stub(schema, "Thing"))
    except SyntaxError as exc:
        res.viol("M-stub", "syntax-error:local-class-inside-a-typing-generic", "a parameter annotated typing.List[<class defined in a function>] "
                 "is rendered by str(): %r is not Python" % ((exc.text or "").strip()[:120],))
    except Exception:
        pass


def k24(cc, ctx, res):
    d = ctx.dir
    item_schema = cc.Schema()
    item_schema.pw = cc.SecureField(method="xor")
    item_t = cc.make_type(item_schema, "KeyedItem", module="vf_types", key_filename=os.path.join(d, "k24-type.key"))
    schema = cc.Schema()
    schema.one = item_t
    cfg = cc.Config(schema, key_filename=os.path.join(d, "k24-root.key"))
    try:
        cfg.one = item_schema(pw="secret")
        doc = cfg.dumps("json")
        fresh = cc.Config(schema, key_filename=os.path.join(d, "k24-root.key"))
        fresh.loads(doc, "json")
        ok = fresh.one.pw == "secret"
    except Exception:
        ok = False
    if not ok:
        res.viol("M-reload", "plain-configuration-in-a-slot-of-a-keyed-type", "a plain configuration of the type's schema assigned to a slot declared "
                 "as a configuration type that names its own key file is saved with the root's key file; loading rebuilds the slot as the type and "
                 "decrypts with the type's key file: the document does not load back")


def k25(cc, ctx, res):
    schema = cc.Schema()
    schema.host = cc.StringField(default="localhost")
    schema.port = cc.IntField(default=80)

    def setter(cfg, value):
        cfg.host, port = value.split(":")
        cfg.port = int(port)

    schema.address = cc.VirtualField(lambda cfg: "%s:%s" % (cfg.host, cfg.port), setter)
    cfg = schema(address="example.com:8080")
    if (cfg.host, cfg.port) == ("localhost", 80):
        res.viol("M-state", "constructor-keyword-through-a-setter-is-overwritten-by-defaults", "schema(address='example.com:8080') with a computed "
                 "field whose setter assigns host and port: both read their defaults afterwards and are not user-defined (constructor keywords "
                 "are applied before the defaults of the remaining fields are written)")


PROBES = {"K9": k9, "K10": k10, "K11": k11, "K12": k12, "K13": k13, "K14": k14, "K15": k15, "K16": k16, "K17": k17, "K18": k18, "K19": k19,
          "K20": k20, "K21": k21, "K22": k22, "K23": k23, "K24": k24, "K25": k25}
BY_PROPERTY = {"C13": ["K9"], "C14": ["K10", "K11"], "C05": ["K12"], "C02": ["K13", "K22"], "C10": ["K14", "K15"], "C12": ["K16", "K25"],
               "C16": ["K17", "K18"], "C04": ["K19"], "C06": ["K20", "K21"], "C20": ["K23"], "C03": ["K24"]}
