"""Directed probes for the findings of the audit round (DESIGN 8.2): each reproduces one recorded behaviour of the
library on the tree under test and reports it under a fixed (monitor, feature) pair, which known_findings.txt lists.
A probe that no longer reproduces reports nothing (the check then prints a NOTE for the listed finding)."""
import ast
import hashlib
import json
import os
import socket
import types


def run(key, ctx, res):
    fn = PROBES[key]
    res.count("audit_probe:" + key)
    fn(ctx.cc, ctx, res)


def k9(cc, ctx, res):
    schema = cc.Schema()
    schema.db.port = cc.IntField(default=5432)
    item = cc.Schema()
    item.port = cc.IntField(default=80)
    schema.servers = cc.ListField(item, default=lambda: [])
    a, b = schema(), schema()
    a.servers = [{"port": 8080}]
    b.db = a.db
    b.db.port = 1
    b.servers = a.servers
    b.servers[0].port = 2
    if a.db.port == 1 or a.servers[0].port == 2:
        res.viol("M-twin", "configuration-object-taken-over-is-shared", "b.db = a.db; b.db.port = 1 -> a.db.port == %r; b.servers = a.servers; "
                 "b.servers[0].port = 2 -> a.servers[0].port == %r (a configuration object that is assigned to a second configuration is "
                 "adopted, not copied: both hold the same object)" % (a.db.port, a.servers[0].port))


def k10(cc, ctx, res):
    if "VFK10_PORT" in os.environ:
        return
    schema = cc.Schema(env="VFK10")
    schema.port = cc.IntField(default=1)
    os.environ["VFK10_PORT"] = "8080"
    cfg = schema()
    del os.environ["VFK10_PORT"]
    cfg.load_tree({"port": 99})
    first = cfg.port
    cfg2 = schema()
    os.environ["VFK10_PORT"] = "8080"
    cfg2.load_tree({"port": 99})
    del os.environ["VFK10_PORT"]
    if first == 99 or cfg2.port == 1:
        res.viol("M-env", "variable-looked-up-when-the-document-is-loaded", "VFK10_PORT=8080 when the configuration is built and unset before "
                 "load_tree({'port': 99}): port == %r (the document wins); unset when built and set before the load: port == %r (the document's "
                 "value is dropped): load_tree asks the environment again instead of remembering what happened at construction" % (first, cfg2.port))


def k11(cc, ctx, res):
    if "VFK11_DB_HOST" in os.environ:
        return
    schema = cc.Schema(env="VFK11")
    schema.db.host = cc.StringField(default="h")
    schema.db.port = cc.IntField(default=1)
    os.environ["VFK11_DB_HOST"] = "envhost"
    try:
        cfg = schema()
        cfg.db = {"host": "assigned", "port": 5}
        got = (cfg.db.host, cfg.db.port)
    finally:
        del os.environ["VFK11_DB_HOST"]
    if got == ("envhost", 5):
        res.viol("M-env", "mapping-assigned-to-section-does-not-override", "VFK11_DB_HOST=envhost; cfg.db = {'host': 'assigned', 'port': 5} leaves "
                 "db.host == 'envhost' (port becomes 5): a map assigned to a section goes through load_tree, which skips bound fields")


def k12(cc, ctx, res):
    schema = cc.Schema()
    schema.net = cc.IPv4NetworkField(max_len=8)
    cfg = schema()
    try:
        cfg.net = "10.0.0.0"
        stored = cfg.net
        schema.net.validate(cfg, stored)
        again = None
    except Exception as exc:
        stored, again = getattr(cfg, "net", None), exc
    if stored == "10.0.0.0/32" and again is not None:
        res.viol("M-idempotent", "not-idempotent:normalised-after-string-checks", "IPv4NetworkField(max_len=8): validate('10.0.0.0') gives "
                 "'10.0.0.0/32', which the same field rejects (%s): the inherited string checks (max_len, regex, choices, case) run before the "
                 "network / start-directory normalisation (FilenameField(startdir=..., max_len=...) alike)" % again)


def k13(cc, ctx, res):
    schema = cc.Schema()
    schema.ssl.enabled = cc.FeatureFlagField(default=False)
    schema.ssl.cert = cc.StringField(required=True)
    cfg = schema()
    try:
        cfg.validate()
        schema().loads(cfg.dumps("json"), "json")
    except Exception as exc:
        res.viol("M-roundtrip", "disabled-section-with-unset-required-field", "a section whose feature flag is off and whose required field was "
                 "never set passes validate(), but its own document does not load: %s (the load path applies the required check without "
                 "consulting the flag)" % exc)


def k14(cc, ctx, res):
    account = cc.Schema()
    account.token = cc.StringField(sensitive=True)
    schema = cc.Schema()
    schema.groups = cc.ListField(cc.ListField(account))
    schema.by_team = cc.DictField(cc.StringField(), cc.ListField(account))
    cfg = schema()
    cfg.groups = [[{"token": "TOKEN-IN-LIST-OF-LISTS"}]]
    cfg.by_team = {"t": [{"token": "TOKEN-IN-DICT-OF-LISTS"}]}
    text = json.dumps(cfg.to_tree(sensitive_mask="*"), default=str)
    if "TOKEN-IN-LIST-OF-LISTS" in text or "TOKEN-IN-DICT-OF-LISTS" in text:
        res.viol("M-leak", "unmasked:configuration-in-nested-container", "ListField(ListField(account)) / DictField(StringField(), "
                 "ListField(account)) with account.token sensitive: to_tree(sensitive_mask='*') shows the tokens (the mask reaches "
                 "configurations in a list that is the direct value of a field, not lists inside other containers)")


def k15(cc, ctx, res):
    schema = cc.Schema()
    schema.api_keys = cc.ListField(cc.StringField(sensitive=True))
    schema.passwords = cc.DictField(cc.StringField(), cc.StringField(sensitive=True))
    cfg = schema()
    cfg.api_keys = ["KEY-ONE-PLAINTEXT"]
    cfg.passwords = {"alice": "ALICE-PASSWORD"}
    text = json.dumps(cfg.to_tree(sensitive_mask="<hidden>"))
    if "KEY-ONE-PLAINTEXT" in text or "ALICE-PASSWORD" in text:
        res.viol("M-leak", "unmasked:sensitive-item-field-of-a-container", "ListField(StringField(sensitive=True)) and DictField(StringField(), "
                 "StringField(sensitive=True)): the masked tree equals the unmasked one (only the flag of the field registered under the key "
                 "is looked at, not the item / value field's)")


def k16(cc, ctx, res):
    schema = cc.Schema()
    schema.top_b = cc.IntField(default=2)
    schema.sub.a = cc.IntField(default=10)
    schema.sub.b = cc.IntField(default=20)
    cfg = schema()
    cfg.top_b = 22
    cfg.sub.b = 99
    cfg.load_tree({"sub": {"a": 11}})
    if cfg.top_b == 22 and cfg.sub.b == 20 and not cc.is_value_defined(cfg, "sub.b"):
        res.viol("M-state", "load-rebuilds-section:unmentioned-fields-reset", "cfg.sub.b = 99; cfg.load_tree({'sub': {'a': 11}}): sub.b is back at "
                 "its default 20 and not user-defined although nobody reset it (top-level fields the tree does not mention keep value and "
                 "status): loading a nested map replaces the whole section by a fresh configuration")


def k17(cc, ctx, res):
    schema = cc.Schema()
    schema.server.http.port = cc.IntField(default=80)
    paths = [p for p, _o, _f in cc.get_all_fields(schema.server.http)]
    if paths == ["http.port"]:
        res.viol("M-names", "enumeration-of-a-nested-schema", "get_all_fields(schema.server.http) reports %r: neither the path relative to that "
                 "schema ('port') nor the reference path ('server.http.port'); it resolves on neither the section nor the root" % (paths,))


def k18(cc, ctx, res):
    out = []
    for label, build in (("a field named help", lambda s: setattr(s, "help", cc.StringField())),
                         ("a boolean verify next to a field no_verify", lambda s: (setattr(s, "verify", cc.BoolField()), setattr(s, "no_verify", cc.StringField()))),
                         ("db.URL next to db.url", lambda s: (s.__setitem__("db.URL", cc.StringField()), s.__setitem__("db.url", cc.StringField())))):
        s = cc.Schema()
        build(s)
        try:
            cc.generate_argparse_parser(s)
        except Exception as exc:
            out.append("%s: %s" % (label, type(exc).__name__))
    if out:
        res.viol("M-parser", "option-strings-collide-for-distinct-paths", "generate_argparse_parser fails for schemas whose paths are distinct "
                 "after the '.'/'_' mapping: %s (argparse's own --help, the generated --no-<x> switch, lower-casing of option strings)" % "; ".join(out))


def k19(cc, ctx, res):
    f = cc.ConfigFormat.get("xml")
    tree = {"labels": {"xml:lang": "en"}}
    try:
        back = f.loads(None, f.dumps(None, tree))
    except Exception as exc:
        back = exc
    try:
        f.dumps(None, {"labels": {"db:primary": 1}})
        second = None
    except Exception as exc:
        second = type(exc).__name__
    if back != tree or second:
        res.viol("M-roundtrip", "xml:key-with-colon", "XML: the key 'xml:lang' (an XML name) decodes as %r, the key 'db:primary' makes dumps fail "
                 "with %s: element tags with a colon are taken for namespace prefixes" % (back if not isinstance(back, Exception) else type(back).__name__, second))


def k20(cc, ctx, res):
    d = ctx.dir
    schema = cc.Schema()
    schema.port = cc.IntField(default=80)
    schema.mode = cc.StringField(default="dev")
    schema.include = cc.IncludeField()
    cfg = schema()
    part = os.path.join(d, "k20-part.json")
    with open(part, "w") as fp:
        json.dump({"mode": "prod", "include": os.path.join(d, "k20-missing.json")}, fp)
    main = os.path.join(d, "k20-main.json")
    with open(main, "w") as fp:
        json.dump({"port": 9000, "include": part}, fp)
    try:
        cfg.load(main, "json")
        return
    except Exception:
        pass
    if cfg.port == 9000:
        res.viol("M-same", "loads-include:missing-file-named-by-an-included-file", "main.json includes part.json, which names a missing include "
                 "file: the load raises, but port is already 9000 (the second file name is only looked at by field validation, half way "
                 "through load_tree)")


def k21(cc, ctx, res):
    item = cc.Schema()
    item.name = cc.StringField(required=True)
    schema = cc.Schema()
    schema.items = cc.ListField(item, default=lambda: [])
    a, b = schema(), schema()
    a.items = [{"name": "x"}]
    it = a.items[0]
    try:
        b.items = [it, {"name": None}]
        return
    except Exception:
        pass
    if it._parent is b:
        res.viol("M-same", "list-assignment:earlier-items-adopted-before-a-later-one-is-refused", "b.items = [a.items[0], {'name': None}] raises "
                 "for the second element, but a.items[0] already names b as its parent (items of a multi-element assignment / extend are taken "
                 "over one by one; only the refused one is given back)")


def k22(cc, ctx, res):
    schema = cc.Schema(dynamic=True)
    schema.ports = cc.ListField(cc.IntField())
    cfg = schema()
    cfg.ports = [80, 443]
    cfg.old_ports = cfg.ports
    tree = cfg.to_tree()
    if type(tree.get("old_ports")) is not list:
        res.viol("M-tree", "typed-container-held-by-an-untyped-field", "cfg.old_ports = cfg.ports on a dynamic configuration: to_tree() emits the "
                 "%s object itself (it refers to the whole configuration; YAML cannot encode it, pickle embeds the configuration)" % type(tree.get("old_ports")).__name__)


def k23(cc, ctx, res):
    import typing

    def build():
        class Local(cc.ConfigType):
            __schema__ = cc.Schema()

        return Local

    schema = cc.Schema()

    @cc.instance_method(schema, "m")
    def m(cfg, items: typing.List[build()]):  # noqa: B008
        return None

    try:
        ast.parse(cc.generate_stub(schema, "Thing"))
    except SyntaxError as exc:
        res.viol("M-stub", "syntax-error:local-class-inside-a-typing-generic", "a parameter annotated typing.List[<class defined in a function>] "
                 "is rendered by str(): %r is not Python" % ((exc.text or "").strip()[:120],))
    except Exception:
        pass


def k24(cc, ctx, res):
    d = ctx.dir
    item_schema = cc.Schema()
    item_schema.pw = cc.SecureField(method="xor")
    item_t = cc.make_type(item_schema, "KeyedItem", module="vf_types", key_filename=os.path.join(d, "k24-type.key"))
    schema = cc.Schema()
    schema.one = item_t
    cfg = cc.Config(schema, key_filename=os.path.join(d, "k24-root.key"))
    try:
        cfg.one = item_schema(pw="secret")
        doc = cfg.dumps("json")
        fresh = cc.Config(schema, key_filename=os.path.join(d, "k24-root.key"))
        fresh.loads(doc, "json")
        ok = fresh.one.pw == "secret"
    except Exception:
        ok = False
    if not ok:
        res.viol("M-reload", "plain-configuration-in-a-slot-of-a-keyed-type", "a plain configuration of the type's schema assigned to a slot declared "
                 "as a configuration type that names its own key file is saved with the root's key file; loading rebuilds the slot as the type and "
                 "decrypts with the type's key file: the document does not load back")


def k25(cc, ctx, res):
    schema = cc.Schema()
    schema.host = cc.StringField(default="localhost")
    schema.port = cc.IntField(default=80)

    def setter(cfg, value):
        cfg.host, port = value.split(":")
        cfg.port = int(port)

    schema.address = cc.VirtualField(lambda cfg: "%s:%s" % (cfg.host, cfg.port), setter)
    cfg = schema(address="example.com:8080")
    if (cfg.host, cfg.port) == ("localhost", 80):
        res.viol("M-state", "constructor-keyword-through-a-setter-is-overwritten-by-defaults", "schema(address='example.com:8080') with a computed "
                 "field whose setter assigns host and port: both read their defaults afterwards and are not user-defined (constructor keywords "
                 "are applied before the defaults of the remaining fields are written)")


def k26(cc, ctx, res):
    schema = cc.Schema()
    schema.rows = cc.ListField(default=[[1, 2]])
    try:
        a = schema()
        a.rows[0].append(3)
        fresh = schema().rows
        cc.reset_value(a, "rows")
        restored = a.rows
    except Exception:
        return
    if fresh == [[1, 2, 3]] or restored == [[1, 2, 3]]:
        res.viol("M-state", "constant-default-copied-one-level-deep", "ListField(default=[[1, 2]]); a.rows[0].append(3) on one configuration: "
                 "schema().rows == %r and a.rows after reset_value == %r (the constant default is copied one level deep, the inner list is the "
                 "same object in the schema and in every configuration; DictField(default={'a': {'b': 1}}) alike)" % (fresh, restored))


def k27(cc, ctx, res):
    if "VFK27_PLUGINS" in os.environ:
        return
    schema = cc.Schema(env="VFK27")
    schema.plugins = cc.ListField(cc.StringField(), default=[])
    os.environ["VFK27_PLUGINS"] = "from-env"
    try:
        cfg = schema()
        fresh = list(cfg.plugins)
        cfg.load_tree({"plugins": ["x"]})
        got, defined = list(cfg.plugins), cc.is_value_defined(cfg, "plugins")
    except Exception:
        return
    finally:
        del os.environ["VFK27_PLUGINS"]
    if fresh == [] and got == [] and not defined:
        res.viol("M-state", "variable-the-field-ignores-blocks-the-load", "VFK27_PLUGINS=from-env; ListField(StringField(), default=[]) under "
                 "Schema(env='VFK27'): the fresh value is %r (the variable is not used), load_tree({'plugins': ['x']}) succeeds and plugins == %r, "
                 "user-defined == %r (load_tree skips every field whose variable is set, also the list / dict / challenge fields whose "
                 "__setdefault__ never reads it)" % (fresh, got, defined))


def k28(cc, ctx, res):
    schema = cc.Schema()
    schema.x = cc.IntField(default=1)
    schema.double = cc.VirtualField(lambda cfg: cfg.x * 2)
    schema.alias = cc.VirtualField(lambda cfg: cfg.x, lambda cfg, value: setattr(cfg, "x", value))
    try:
        cc.instance_method(schema, "hello")(lambda cfg: "hello")
        cfg = schema()
        fresh = [key for key in ("x", "double", "alias", "hello") if cc.is_value_defined(cfg, key)]
        cfg.alias = 5
        cc.reset_value(cfg, "alias")
        after_reset = cc.is_value_defined(cfg, "alias")
    except Exception:
        return
    if fresh or after_reset:
        res.viol("M-state", "computed-fields-read-user-defined-on-a-fresh-configuration", "on schema() with nothing assigned is_value_defined is "
                 "True for %r; cfg.alias = 5; reset_value(cfg, 'alias') leaves is_value_defined == %r (VirtualField.__setdefault__ and "
                 "InstanceMethodField.__setdefault__ never record their key as default)" % (fresh, after_reset))


def k29(cc, ctx, res):
    schema = cc.Schema()
    schema.port = cc.IntField(default=80)
    schema.sub.x = cc.IntField(default=1)
    schema.sub.inner.y = cc.IntField(default=2)
    a, b = schema(), schema()
    sub, inner = a.sub, a.sub.inner
    try:
        schema(sub=sub, port="not a number")
        return
    except Exception:
        pass
    try:
        b.sub = {"inner": inner, "x": "not a number"}
        return
    except Exception:
        pass
    if a.sub is sub and sub.inner is inner and (sub._parent is not a or inner._parent is not sub):
        res.viol("M-same", "section-taken-over-before-a-later-key-is-refused", "schema(sub=a.sub, port='not a number') and b.sub = {'inner': "
                 "a.sub.inner, 'x': 'not a number'} both raise for the later key, but afterwards a.sub._parent is a == %r and "
                 "a.sub.inner._parent is a.sub == %r (constructor keywords and the keys of a map assigned to a section are applied one by one; "
                 "a section handed over by an earlier key stays with the discarded configuration and looks for its key file there)"
                 % (sub._parent is a, inner._parent is sub))


def k30(cc, ctx, res):
    def at_most_two(cfg, value):
        if len(value) > 2 or any(item.port == 13 for item in value):
            raise ValueError("at most two servers, none on port 13")
        return value

    server = cc.Schema()
    server.port = cc.IntField(default=80)
    schema = cc.Schema()
    schema.servers = cc.ListField(server, validator=at_most_two)
    schema.others = cc.ListField(server)
    a, b = schema(), schema()
    try:
        a.servers = [{"port": 1}, {"port": 2}]
        a.others = [{"port": 13}]
        first, other = a.servers[0], a.others[0]
        before = cc.item_ref_path(first)
        derived = a.servers.copy()
        derived.insert(0, {"port": 0})
    except Exception:
        return
    try:
        a.servers = derived
        return
    except Exception:
        pass
    try:
        b.servers = [other]
        return
    except Exception:
        pass
    try:
        after = cc.item_ref_path(first)
    except Exception:
        return
    if a.servers[0] is first and a.others[0] is other and (after != before or other._parent is not a):
        res.viol("M-same", "list-items-taken-over-before-the-field-validator-refuses", "ListField(server, validator=at_most_two): a.servers = "
                 "<copy of a.servers with an item inserted in front> is refused by the validator, but item_ref_path(a.servers[0]) went from %r "
                 "to %r; b.servers = [a.others[0]] is refused by the validator, but a.others[0]._parent is a == %r (ListField._validate "
                 "re-points / takes over the items before Field.validate runs the field's validator; nothing gives them back)"
                 % (before, after, other._parent is a))


def k31(cc, ctx, res):
    d = ctx.dir
    schema = cc.Schema()
    schema.inc1 = cc.IncludeField(startdir=d)
    schema.inc2 = cc.IncludeField(startdir=d)
    schema.x = cc.IntField(default=0)
    schema.y = cc.IntField(default=0)
    for name, tree in (("k31-leaf.json", {"y": 5}), ("k31-names-inc2.json", {"x": 1, "inc2": "k31-leaf.json"}),
                       ("k31-names-inc1.json", {"x": 1, "inc1": "k31-leaf.json"})):
        with open(os.path.join(d, name), "w") as fp:
            json.dump(tree, fp)
    a, b = schema(), schema()
    try:
        a.loads(json.dumps({"inc1": "k31-names-inc2.json"}), "json")
        b.loads(json.dumps({"inc2": "k31-names-inc1.json"}), "json")
        got = (a.y, b.y, b.inc1)
    except Exception:
        return
    if got[0] != got[1]:
        res.viol("M-include", "chained-include-followed-depending-on-field-order", "inc1, inc2 declared in this order; document -> inc1 -> file naming "
                 "inc2 = leaf.json ({'y': 5}) gives y == %r, document -> inc2 -> file naming inc1 = leaf.json gives y == %r although inc1 == %r "
                 "afterwards (include fields are looked at once each, in declaration order, against the tree merged so far)" % got)


def k32(cc, ctx, res):
    home = os.environ.get("HOME")
    if not home or not os.path.isdir(home):
        return
    work = os.path.join(ctx.dir, "k32-work")
    in_home = os.path.join(home, "k32-inc.json")
    if os.path.exists(in_home):
        return
    os.makedirs(os.path.join(work, "~"))
    with open(os.path.join(work, "~", "k32-inc.json"), "w") as fp:
        json.dump({"x": 1}, fp)
    with open(in_home, "w") as fp:
        json.dump({"x": 666}, fp)
    schema = cc.Schema()
    schema.include = cc.IncludeField()
    schema.x = cc.IntField(default=0)
    cfg = schema()
    cwd = os.getcwd()
    try:
        os.chdir(work)
        cfg.loads(json.dumps({"include": "~/k32-inc.json"}), "json")
        got = (cfg.include, cfg.x)
    except Exception:
        return
    finally:
        os.chdir(cwd)
        os.remove(in_home)
    if got[1] == 666:
        res.viol("M-include", "tilde-name-checked-as-one-file-opened-as-another", "IncludeField() without a start directory, ./~/k32-inc.json = "
                 "{'x': 1}, $HOME/k32-inc.json = {'x': 666}: loading {'include': '~/k32-inc.json'} stores include == %r (checked to exist below "
                 "the current directory) but x == %r: the file under $HOME is the one opened (expanduser only at open time)" % got)


def k33(cc, ctx, res):
    from cincoconfig.fields import DigestValue

    schema = cc.Schema()
    schema.password = cc.ChallengeField("sha256")
    cfg = schema()
    try:
        cfg.password = DigestValue.create("hunter2", hashlib.md5, salt=b"0123456789abcdef")
        accepted = cfg.password
        accepted.challenge("hunter2")
        back = schema()
        back.loads(cfg.dumps("json"), "json")
        loaded = back.password
    except Exception:
        return
    try:
        loaded.challenge("hunter2")
        answers = True
    except Exception:
        answers = False
    if loaded != accepted or not answers:
        res.viol("M-accept", "digest-of-another-algorithm-accepted-and-relabelled", "ChallengeField('sha256') accepts DigestValue.create('hunter2', "
                 "hashlib.md5), which answers challenge('hunter2'); after dumps/loads (json) the digest is tagged %s, equal to the accepted value: %r, "
                 "answers challenge('hunter2'): %r (the on-disk form holds salt and digest only; the load relabels it with the field's algorithm)"
                 % (getattr(getattr(loaded, "algorithm", None), "__name__", "?"), loaded == accepted, answers))


def k34(cc, ctx, res):
    schema = cc.Schema()
    schema.ports = cc.ListField(cc.IntField(min=1, max=9))
    schema.blobs = cc.DictField(cc.IntField(), cc.BytesField())
    direct = []
    for key, value in (("ports", "123"), ("blobs", ["1a"])):
        try:
            schema()[key] = value
            direct.append(key)
        except Exception:
            pass
    if direct:
        return
    got = []
    for key, value in (("ports", "123"), ("blobs", ["1a"])):
        cfg = schema()
        try:
            cfg.load_tree({key: value})
            held = cfg[key]
            got.append("load_tree({%r: %r}) -> %r" % (key, value, dict(held) if isinstance(held, dict) else list(held)))
        except Exception:
            pass
    if got:
        res.viol("M-accept", "document-value-that-is-no-container-becomes-a-typed-container", "ListField(IntField(min=1, max=9)) / DictField(IntField(), "
                 "BytesField()) refuse the string '123' / the list ['1a'] on assignment, but a document is accepted: %s (to_python hands any value to "
                 "ListProxy / DictProxy, which iterate it)" % "; ".join(got))


def k35(cc, ctx, res):
    schema = cc.Schema()
    schema.host = cc.HostnameField(resolve=True, allow_ipv4=False)
    cfg = schema()
    real = socket.gethostbyname
    socket.gethostbyname = lambda name: "192.0.2.7"
    try:
        try:
            stored = schema.host.validate(cfg, "db.example.test")
        except Exception:
            return
        try:
            schema.host.validate(cfg, stored)
            again = None
        except Exception as exc:
            again = exc
    finally:
        socket.gethostbyname = real
    if again is not None:
        res.viol("M-idempotent", "not-idempotent:resolved-address-refused", "HostnameField(resolve=True, allow_ipv4=False): validate('db.example.test') "
                 "gives %r (the resolver's answer), which the same field rejects (%s): the resolve branch returns the address although "
                 "allow_ipv4=False refuses addresses" % (stored, again))


def k36(cc, ctx, res):
    secret = b"s3cr\xe9t-bytes"
    schema = cc.Schema()
    schema.password = cc.ChallengeField("sha256")
    cfg = schema()
    try:
        cfg.password = secret
        cfg.password.challenge(secret)
        text = schema()
        text.load_tree({"password": "hand-written"})
        text.password.challenge("hand-written")
    except Exception:
        return
    loaded = schema()
    try:
        loaded.load_tree({"password": secret})
        loaded.password.challenge(secret)
    except Exception as exc:
        res.viol("M-hand", "byte-string-plaintext-in-a-document-is-refused", "ChallengeField('sha256') hashes the assigned byte string %r and the string "
                 "'hand-written' of a document, but load_tree({'password': %r}) fails: %s (to_python knows dict and str only; YAML !!binary, BSON "
                 "binary and pickle carry byte strings)" % (secret, secret, exc))


def k37(cc, ctx, res):
    schema = cc.Schema()
    schema.net = cc.IPv4NetworkField(max_len=12)
    schema.zone = cc.IPv4NetworkField(choices=["10.0.0.0/255.0.0.0"])
    cfg = schema()
    try:
        cfg.net = "192.168.1.1"
        cfg.zone = "10.0.0.0/255.0.0.0"
        net, zone = cfg.net, cfg.zone
    except Exception:
        return
    if len(net) <= 12 and zone == "10.0.0.0/255.0.0.0":
        return
    try:
        cfg.validate()
        again = None
    except Exception as exc:
        again = exc
    if again is not None:
        res.viol("M-inv", "normalised-text-never-meets-the-string-constraints", "IPv4NetworkField(max_len=12) accepts '192.168.1.1' and holds %r "
                 "(%d characters), IPv4NetworkField(choices=['10.0.0.0/255.0.0.0']) accepts its only choice and holds %r; cfg.validate() on the "
                 "untouched configuration fails (%s): length, pattern and choices are checked on the text as typed, the normal form that is "
                 "stored is never checked (FilenameField(startdir=...) and HostnameField(resolve=True) alike)" % (net, len(net), zone, again))


def k38(cc, ctx, res):
    schema = cc.Schema()
    schema.url = cc.UrlField()
    held = []
    for how, text in (("assigned", "ht\ntp://example.com/"), ("loaded", "http://example.com/\r\nX-Injected: 1"), ("assigned", " \x00http://example.com/")):
        cfg = schema()
        try:
            if how == "assigned":
                cfg.url = text
            else:
                cfg.load_tree({"url": text})
            stored = cfg.url
        except Exception:
            continue
        if isinstance(stored, str) and any(ord(ch) <= 32 or ord(ch) == 127 for ch in stored):
            held.append("%s %r -> url == %r" % (how, text, stored))
    if held:
        res.viol("M-inv", "url-with-control-characters-or-blanks", "UrlField holds text that is not a URL: %s (the only check is "
                 "urlparse(value).scheme, and urlparse strips leading blanks / control characters and deletes TAB, CR and LF before it parses, "
                 "so the scheme it reports is not in the stored string)" % "; ".join(held))


def k39(cc, ctx, res):
    # never serialise a configuration whose secret is an int: the xor provider would allocate that many bytes
    schema = cc.Schema()
    schema.name = cc.SecureField(method="xor")
    keyfile = os.path.join(ctx.dir, "k39.key")
    cfg = cc.Config(schema, key_filename=keyfile)
    try:
        cfg.name = 12345
        stored = cfg.name
    except Exception:
        return
    if isinstance(stored, (str, bytes)) or stored is None:
        return
    other = cc.Config(schema, key_filename=keyfile)
    try:
        other.load_tree({"name": 12345})
        refused = None
    except Exception as exc:
        refused = exc
    res.viol("M-inv", "secret-field-holds-a-value-that-is-not-text", "SecureField (storage type str): cfg.name = 12345 is accepted and read back as "
             "%r (%s); load_tree({'name': 12345}) on the same schema %s: the field has no _validate, only to_python on the load path looks at the "
             "type" % (stored, type(stored).__name__, "is refused (%s)" % refused if refused is not None else "is accepted too"))


def k40(cc, ctx, res):
    item = cc.Schema()
    item.name = cc.StringField(required=True)
    schema = cc.Schema()
    schema.title = cc.StringField(default="t")
    schema.servers = cc.ListField(item)
    cfg = schema()
    try:
        cfg.load_tree({"servers": [{"name": "a"}]})
        cc.reset_value(cfg.servers[0], "name")
        if cfg.servers[0].name is not None:
            return
    except Exception:
        return
    try:
        cfg.servers[0].validate()
        return
    except Exception as exc:
        alone = exc
    try:
        errors = cfg.validate(collect_errors=True)
        cfg.validate()
        cfg.load_tree({"title": "x"})
    except Exception:
        return
    if not errors:
        res.viol("M-required", "items-of-a-stored-list-are-not-looked-at-again", "servers = ListField(item) with item.name required; after "
                 "reset_value(cfg.servers[0], 'name') the item's own validate() raises (%s) but cfg.validate() returns, "
                 "cfg.validate(collect_errors=True) == %r and cfg.load_tree({'title': 'x'}) returns: the stored list is handed back "
                 "without visiting its configurations" % (alone, errors))


def k41(cc, ctx, res):
    calls = []
    limits = cc.Schema()
    limits.lo = cc.IntField(default=0)
    limits.hi = cc.IntField(default=10)
    try:
        schema = cc.Schema()
        schema.limits = cc.make_type(limits, "K41Limits", module="vf_types")

        @cc.validator(schema.limits)
        def check(cfg):
            calls.append(1)
            if cfg.lo > cfg.hi:
                raise ValueError("lo must not be above hi")
    except Exception:
        return
    cfg = schema()
    try:
        cfg.load_tree({"limits": {"lo": 50, "hi": 2}})
        errors = cfg.validate(collect_errors=True)
        got = (cfg.limits.lo, cfg.limits.hi)
    except Exception:
        return
    if not calls and not errors:
        res.viol("M-validators", "validator-on-a-configuration-type-section-is-dropped", "schema.limits = make_type(limits, ...); "
                 "@validator(schema.limits) rejecting lo > hi is accepted, yet load_tree({'limits': {'lo': 50, 'hi': 2}}) returns with "
                 "lo, hi == %r, validate(collect_errors=True) == %r and the function ran %d times (validator() has no branch for the "
                 "field that wraps a configuration type and no else)" % (got, errors, len(calls)))


def k42(cc, ctx, res):
    schema = cc.Schema()
    schema.site = cc.IncludeField(required=True)
    schema.port = cc.IntField(default=80)
    cfg = schema()
    try:
        cfg.loads(b'{"port": 1}', "json")
        cfg.load_tree({"port": 2})
        errors = cfg.validate(collect_errors=True)
        cfg.validate()
        site = cfg.site
    except Exception:
        return
    if site is None and not errors:
        res.viol("M-required", "required-include-field-is-never-enforced", "schema.site = IncludeField(required=True): loads(b'{\"port\": 1}', "
                 "'json'), load_tree({'port': 2}) and validate() return, validate(collect_errors=True) == %r and site is %r (the final "
                 "validation skips include fields altogether, so the requirement is only seen when the key is given as null)" % (errors, site))


def k43(cc, ctx, res):
    schema = cc.Schema()
    schema.level = cc.LogLevelField(default="INFO")
    schema.workers = cc.IntField(default="5")
    blob = cc.Schema()
    blob.token = cc.BytesField(default="text")
    try:
        cfg, bcfg = schema(), blob()
        cfg.validate()
        bcfg.validate()
        before = (cfg.level, cfg.workers, bcfg.token)
        fresh = schema()
        fresh.loads(cfg.dumps("json"), "json")
        after = (fresh.level, fresh.workers)
    except Exception:
        return
    try:
        bcfg.dumps("json")
        failed = None
    except Exception as exc:
        failed = exc
    if repr(before[:2]) != repr(after) or failed is not None:
        res.viol("M-roundtrip", "default-is-stored-as-written-not-as-validated", "LogLevelField(default='INFO'), IntField(default='5'): the "
                 "configuration holds %r, passes validate(), and its JSON document loads back as %r; BytesField(default='text') holds %r, passes "
                 "validate() and dumps('json') gives %s: Field.__setdefault__ stores the default without the conversion every assigned or "
                 "environment-supplied value gets" % (before[:2], after, before[2], "an error (%s)" % failed if failed is not None else "a document"))


def k44(cc, ctx, res):
    schema = cc.Schema()
    schema.api_key = cc.SecureField(method="xor")
    keyfile = os.path.join(ctx.dir, "k44.key")
    out = []
    for secret in (b"\xff\xfe\x00\x80key", b"hunter2"):
        cfg = cc.Config(schema, key_filename=keyfile)
        try:
            cfg.api_key = secret
            stored = cfg.api_key
            cfg.validate()
            doc = cfg.dumps("json")
        except Exception:
            continue
        if not isinstance(stored, bytes):
            continue
        fresh = cc.Config(schema, key_filename=keyfile)
        try:
            fresh.loads(doc, "json")
        except Exception as exc:
            out.append("api_key = %r is held, passes validate() and is saved, the document does not load (%s)" % (stored, exc))
            continue
        if fresh.api_key != stored or type(fresh.api_key) is not type(stored):
            out.append("api_key = %r comes back as %r" % (stored, fresh.api_key))
    if out:
        res.viol("M-roundtrip", "secret-given-as-bytes-does-not-come-back", "SecureField(method='xor'): %s (no _validate, to_basic encrypts str "
                 "or bytes, to_python always ends in text.decode())" % "; ".join(out))


def k45(cc, ctx, res):
    schema = cc.Schema()
    try:
        schema.ident = cc.StringField(transform_strip="x", transform_case="lower")
        cfg = schema()
        cfg.ident = "Xabc"
        stored = cfg.ident
        cfg.validate()
        fresh = schema()
        fresh.loads(cfg.dumps("json"), "json")
        back = fresh.ident
    except Exception:
        return
    if back != stored:
        res.viol("M-roundtrip", "strip-then-case-value-changes-on-reload", "StringField(transform_strip='x', transform_case='lower'): 'Xabc' is stored as "
                 "%r, its own json document loads back as %r (the characters are stripped before the case is changed, so the stored value is "
                 "stripped again when the load validates it: validation is not idempotent)" % (stored, back))


def k46(cc, ctx, res):
    schema = cc.Schema()
    schema.labels = cc.DictField()
    cfg = schema()
    path = os.path.join(ctx.dir, "k46.xml")
    try:
        cfg.labels = {"a>": "v"}
        cfg.save(path, "xml")
    except Exception:
        return
    try:
        fresh = schema()
        fresh.load(path, "xml")
        back = dict(fresh.labels)
    except Exception as exc:
        back = "%s: %s" % (type(exc).__name__, exc)
    if back != {"a>": "v"}:
        res.viol("M-file", "xml:key-that-changes-the-meaning-of-the-document", "DictField() holding {'a>': 'v'}: save() as xml succeeds and the file "
                 "loads back as %r (the key is used as the element name unchecked: '<a> type=\"str\">v</a>' is well formed and means something "
                 "else; json keeps the entry)" % (back,))


def k47(cc, ctx, res):
    schema = cc.Schema()
    schema.ports = cc.ListField()
    cfg = schema()
    path = os.path.join(ctx.dir, "k47.json")
    try:
        cfg.ports = (80, 443)
        stored = cfg.ports
        cfg.save(path, "json")
        fresh = schema()
        fresh.load(path, "json")
        back = fresh.ports
    except Exception:
        return
    if back != stored:
        res.viol("M-file", "tuple-in-a-list-without-item-type-comes-back-as-a-list", "ListField() without item field: cfg.ports = (80, 443) keeps the "
                 "tuple %r; save() writes a list and load() of the file gives %r, which is not equal to the saved configuration's value "
                 "(a tuple default is converted to a list, an assigned tuple is not)" % (stored, back))


def k48(cc, ctx, res):
    schema = cc.Schema()
    schema.limits = cc.DictField(cc.StringField(), cc.IntField(), default=lambda: {})
    cfg = schema()
    try:
        cfg.limits.update({"cpu": "2"}, mem=4)
        builtin = dict(cfg.limits)
        other = types.MappingProxyType({"cpu": 2, "mem": 4})
        want = (builtin == other, builtin != other)
        got = (cfg.limits == other, cfg.limits != other)
    except Exception:
        return
    if builtin == {"cpu": 2, "mem": 4} and got != want:
        res.viol("M-differential", "equality-with-a-mapping-that-is-no-dict", "typed dict {'cpu': 2, 'mem': 4} against an equal types.MappingProxyType: "
                 "(==, !=) is %r, the built-in dict gives %r (DictProxy.__eq__ answers False for anything that is no dict instead of "
                 "NotImplemented, so the other operand is never asked; the inherited __ne__ still defers)" % (got, want))


def k49(cc, ctx, res):
    server = cc.Schema()
    server.port = cc.IntField(default=1)
    server_t = cc.make_type(server, "K49Server", module="vf_types")
    schema = cc.Schema()
    schema.primary = server_t
    schema.backups = cc.ListField(server_t)
    cfg = schema()
    try:
        cfg.backups = [{}, {}, {}]
        cfg.primary = cfg.backups.pop(1)
        cfg.primary.port = "x"
        return
    except cc.ValidationError as exc:
        path, text = exc.ref_path, str(exc)
    except Exception:
        return
    if isinstance(path, str) and path.startswith("primary["):
        res.viol("M-exc", "path:section-taken-out-of-a-list-keeps-an-index", "cfg.backups = [{}, {}, {}]; cfg.primary = cfg.backups.pop(1); "
                 "cfg.primary.port = 'x' is refused with ref_path %r (%r) instead of 'primary.port': a configuration that was a list item and "
                 "is assigned to a section gets a new parent and key but keeps its link to the list, which the path turns into an index"
                 % (path, text[:60]))


def k50(cc, ctx, res):
    user = cc.Schema()
    user.age = cc.IntField(default=1)
    user.address.zip = cc.IntField(default=2)
    schema = cc.Schema()
    schema.users = cc.ListField(user)
    cfg = schema()
    try:
        cfg.load_tree({"users": [{}, {}, {}, {}]})
        third, fourth = cfg.users[2], cfg.users[3]
    except Exception:
        return
    try:
        cfg.users = [fourth, third, {"age": "bad"}]
        return
    except Exception:
        pass
    paths = []
    for target, key in ((fourth, "age"), (third.address, "zip")):
        try:
            setattr(target, key, "x")
            return
        except cc.ValidationError as exc:
            paths.append(exc.ref_path)
        except Exception:
            return
    if len(cfg.users) == 4 and cfg.users[2] is third and cfg.users[3] is fourth and paths != ["users[3].age", "users[2].address.zip"]:
        res.viol("M-exc", "path:items-offered-to-a-refused-list-keep-its-indices", "cfg.users = [cfg.users[3], cfg.users[2], {'age': 'bad'}] is "
                 "refused and the four stored items stay in place, but afterwards cfg.users[3].age = 'x' and cfg.users[2].address.zip = 'x' are "
                 "refused with ref_path %r and %r: the items offered before the bad one keep pointing at the discarded list (only the refused "
                 "item is given back)" % (paths[0], paths[1]))


def k51(cc, ctx, res):
    schema = cc.Schema()
    schema.include = cc.IncludeField()
    schema.port = cc.IntField(default=1)
    schema.sub.include = cc.IncludeField()
    schema.sub.port = cc.IntField(default=2)
    part = os.path.join(ctx.dir, "k51-list.json")
    with open(part, "w") as fp:
        fp.write("[1, 2]")
    out = []
    for label, tree in (("{'include': ''}", {"include": ""}), ("{'sub': {'include': <file holding [1, 2]>}}", {"sub": {"include": part}})):
        try:
            schema().loads(json.dumps(tree), "json")
        except cc.ValidationError:
            pass
        except Exception as exc:
            out.append("%s -> %s(%s)" % (label, type(exc).__name__, str(exc)[:60]))
    if out:
        res.viol("M-exc", "type:include-name-empty-or-included-root-not-a-map", "loads of a json document with an include field: %s instead of a "
                 "ValidationError naming the include field (Config._process_includes only converts ValueError; the empty name skips the "
                 "existence check and reaches open(''), a root that is not a map reaches combine_trees)" % "; ".join(out))


def k52(cc, ctx, res):
    schema = cc.Schema()
    schema.plain = cc.ListField()
    schema.mapping = cc.DictField()
    try:
        a, b = schema(), schema()
        a.plain = [1, 2]
        a.mapping = {"k": 1}
        b.plain = a.plain
        b.mapping = a.mapping
        b.plain.append(99)
        b.mapping["new"] = 99
        seen = (list(a.plain), dict(a.mapping))
    except Exception:
        return
    if seen != ([1, 2], {"k": 1}):
        res.viol("M-twin", "untyped-container-stored-by-reference-between-configurations", "ListField() / DictField() without item type: "
                 "b.plain = a.plain; b.mapping = a.mapping; b.plain.append(99); b.mapping['new'] = 99 -> a.plain == %r, a.mapping == %r "
                 "(the untyped branches of ListField._validate / DictField._validate return the object they are given, so b holds a's "
                 "own container; ListField(AnyField()) alike)" % seen)


def k53(cc, ctx, res):
    schema = cc.Schema(dynamic=True)
    schema.rows = cc.ListField()
    try:
        a, b = schema(), schema()
        a.extra = {"k": [1]}
        a.rows = [[1], [2]]
        b.load_tree(a.to_tree())
        b.extra["z"] = 1
        b.rows[0].append(9)
        seen = (a.extra, a.rows)
    except Exception:
        return
    if seen != ({"k": [1]}, [[1], [2]]):
        res.viol("M-twin", "tree-of-one-configuration-loaded-into-another-shares-untyped-values", "dynamic schema with rows = ListField(): "
                 "a.extra = {'k': [1]}; a.rows = [[1], [2]]; b.load_tree(a.to_tree()); b.extra['z'] = 1; b.rows[0].append(9) -> a.extra == %r, "
                 "a.rows == %r (to_tree hands out the live value of an extra field and copies untyped lists / dicts one level deep, load_tree "
                 "stores them by reference)" % seen)


def k54(cc, ctx, res):
    schema = cc.Schema()
    schema.anys = cc.ListField(cc.AnyField(), default=lambda: [])
    cfg = schema()
    try:
        cfg.anys = (1, "2")
    except Exception:
        return
    kind = type(cfg.anys).__name__
    try:
        cfg.anys.append(3)
        got = list(cfg.anys)
    except Exception as exc:
        got = "%s: %s" % (type(exc).__name__, exc)
    if got != [1, "2", 3]:
        res.viol("M-differential", "tuple-for-a-list-of-any-items-is-kept-as-a-tuple", "ListField(AnyField()): after cfg.anys = (1, '2') the value is "
                 "a %s and anys.append(3) gives %r where the built-in list gives [1, '2', 3] (every other item field turns the tuple into a "
                 "typed list, and so does the default of this very field)" % (kind, got))


def k55(cc, ctx, res):
    schema = cc.Schema()
    path = os.path.join(ctx.dir, "k55.json")
    try:
        schema.ident = cc.StringField(transform_strip="0x", transform_case="lower")
        cfg = schema()
        cfg.ident = "0X1F0"
        stored = cfg.ident
        cfg.validate()
        cfg.save(path, "json")
        fresh = schema()
        fresh.load(path, "json")
        back = fresh.ident
    except Exception:
        return
    if back != stored:
        res.viol("M-file", "strip-then-case-value-changes-on-reload", "StringField(transform_strip='0x', transform_case='lower'): '0X1F0' is stored as "
                 "%r; save() to a json file succeeds and load() of that file into a fresh configuration gives %r (strip runs before the case "
                 "change, so the load strips the saved value once more)" % (stored, back))


PROBES = {"K9": k9, "K10": k10, "K11": k11, "K12": k12, "K13": k13, "K14": k14, "K15": k15, "K16": k16, "K17": k17, "K18": k18, "K19": k19, "K20":
    k20, "K21": k21, "K22": k22, "K23": k23, "K24": k24, "K25": k25, "K26": k26, "K27": k27, "K28": k28, "K29": k29, "K30": k30, "K31": k31, "K32":
    k32, "K33": k33, "K34": k34, "K35": k35, "K36": k36, "K37": k37, "K38": k38, "K39": k39, "K40": k40, "K41": k41, "K42": k42, "K43": k43, "K44":
    k44, "K45": k45, "K46": k46, "K47": k47, "K48": k48, "K49": k49, "K50": k50, "K51": k51, "K52": k52, "K53": k53, "K54": k54, "K55": k55}
BY_PROPERTY = {"C01": ["K37", "K38", "K39"], "C02": ["K13", "K22", "K43", "K44", "K45"], "C03": ["K24"], "C04": ["K19"], "C05": ["K12", "K33", "K34",
    "K35"], "C06": ["K20", "K21", "K29", "K30"], "C09": ["K36"], "C10": ["K14", "K15"], "C11": ["K40", "K41", "K42"], "C12": ["K16", "K25", "K26",
    "K27", "K28"], "C13": ["K9", "K52", "K53"], "C14": ["K10", "K11"], "C15": ["K49", "K50", "K51"], "C16": ["K17", "K18"], "C17": ["K48", "K54"],
    "C18": ["K31", "K32"], "C19": ["K46", "K47", "K55"], "C20": ["K23"]}
