"""./check <ID> [--tier quick|thorough] [--seed N] [--replay FILE]   (DESIGN.md §2.1)

exit 0  held on everything explored
exit 1  violation  (line "VIOLATION property=<id> replay=<path>")
exit 2  inconclusive (line "INCONCLUSIVE property=<id> reason=...")
"""
import argparse
import hashlib
import importlib
import json
import os
import shutil
import subprocess
import sys
import tempfile
import time
from collections import Counter

HERE = os.path.dirname(os.path.dirname(os.path.abspath(__file__)))
ALL = ["C%02d" % i for i in range(1, 21)]


def load_known():
    """known_findings.txt -> (findings, fixed)"""
    findings, fixed = [], []
    path = os.path.join(HERE, "known_findings.txt")
    if not os.path.exists(path):
        return findings, fixed
    with open(path) as fp:
        for line in fp:
            line = line.strip()
            if not line or line.startswith("#"):
                continue
            kind, _, rest = line.partition(":")
            words = rest.split()
            kv, text = {}, []
            for w in words:
                if "=" in w and not text and w.split("=", 1)[0] in ("property", "key", "monitor", "feature"):
                    k, v = w.split("=", 1)
                    kv[k] = v
                else:
                    text.append(w)
            kv["text"] = " ".join(text)
            (findings if kind == "finding" else fixed).append(kv)
    return findings, fixed


def property_record(pid):
    with open(os.path.join(HERE, "properties.jsonl")) as fp:
        for line in fp:
            rec = json.loads(line)
            if rec["id"] == pid:
                return rec
    raise SystemExit("unknown property %s" % pid)


def run_property(pid, tier, seed, repo, replay=None, shards=None, cases=None, quiet=False):
    t0 = time.time()
    mod = importlib.import_module("vf.props." + pid.lower())
    plan = dict(mod.PLAN[tier])
    if shards:
        plan["shards"] = shards
    if cases:
        plan["cases"] = cases
    if replay:
        plan["shards"] = 1
    nsh = plan["shards"]
    budget = plan.get("budget_s", 240 if tier == "quick" else 1500)
    tmp = tempfile.mkdtemp(prefix="vfcli-")
    procs = []
    env = dict(os.environ)
    env["PYTHONDONTWRITEBYTECODE"] = "1"
    env["PYTHONHASHSEED"] = "0"
    env["PYTHONPATH"] = HERE
    try:
        for i in range(nsh):
            job = {"prop": pid, "tier": tier, "seed": seed, "shard": i, "nshards": nsh,
                   "cases": plan["cases"], "budget_s": budget, "repo": repo,
                   "out": os.path.join(tmp, "shard%d.json" % i), "hang_s": budget + 240}
            if replay:
                job["replay"] = os.path.abspath(replay)
                job["shrink"] = False
            p = subprocess.Popen([sys.executable, "-m", "vf.worker", json.dumps(job)], cwd=HERE, env=env,
                                 stdout=subprocess.PIPE, stderr=subprocess.PIPE)
            procs.append((job, p))
        results, problems = [], []
        hard_deadline = t0 + budget + 300
        for job, p in procs:
            try:
                so, se = p.communicate(timeout=max(5, hard_deadline - time.time()))
            except subprocess.TimeoutExpired:
                p.kill()
                so, se = p.communicate()
                problems.append("shard %d hit the wall-clock watchdog" % job["shard"])
                continue
            if not os.path.exists(job["out"]):
                problems.append("shard %d died (exit %s): %s" % (job["shard"], p.returncode,
                                                                  se.decode(errors="replace")[-600:]))
                continue
            with open(job["out"]) as fp:
                results.append(json.load(fp))
    finally:
        shutil.rmtree(tmp, ignore_errors=True)
    return finish(pid, tier, seed, mod, plan, results, problems, t0, replay, quiet)


def finish(pid, tier, seed, mod, plan, results, problems, t0, replay, quiet):
    stats, sigs, violations, samples, notes = Counter(), set(), [], [], []
    lines, cases = {}, 0
    for r in results:
        if r.get("fatal"):
            problems.append("shard %d: %s" % (r["shard"], r["fatal"]))
            continue
        stats.update(r["stats"])
        sigs.update(r["sigs"])
        violations.extend(r["violations"])
        samples.extend(r["samples"])
        notes.extend(r.get("notes", []))
        cases += r["cases"]
        if r.get("truncated"):
            stats["shards_truncated_by_budget"] += 1
        for fn, ls in r.get("lines", {}).items():
            lines.setdefault(fn, set()).update(ls)

    findings, _fixed = load_known()
    mine = [f for f in findings if f.get("property") == pid]
    known_seen, real = {}, []
    for v in violations:
        hit = None
        for f in mine:
            if f.get("monitor") == v["monitor"] and f.get("feature") == v["feature"]:
                hit = f
                break
        if hit:
            known_seen.setdefault(hit["key"], []).append(v)
        else:
            real.append(v)

    out_lines = []
    rc = 0
    # ---- violations
    if real:
        rc = 1
        rdir = os.environ.get("VERIF_REPLAY_DIR") or os.path.join(HERE, "replays")
        os.makedirs(rdir, exist_ok=True)
        groups = {}
        for v in real:
            groups.setdefault((v["monitor"], v["feature"]), []).append(v)
        for n, ((mon, feat), vs) in enumerate(sorted(groups.items(), key=lambda kv: kv[0])):
            if n >= int(os.environ.get("VERIF_MAXGROUPS", "15")):
                out_lines.append("  ... %d further kinds of violation not listed" % (len(groups) - n))
                break
            v = min(vs, key=lambda x: len(json.dumps(x["case"])))
            blob = json.dumps({"m": mon, "f": feat, "c": v["case"]}, sort_keys=True)
            name = "%s-%s.json" % (pid, hashlib.sha1(blob.encode()).hexdigest()[:12])
            path = os.path.join(rdir, name)
            with open(path, "w") as fp:
                json.dump({"property": pid, "seed": seed, "tier": tier, "monitor": mon, "feature": feat,
                           "detail": v["detail"], "origin": v.get("origin"), "case": v["case"]}, fp, indent=1)
            out_lines.append("VIOLATION property=%s replay=%s" % (pid, os.path.relpath(path, HERE)))
            out_lines.append("  monitor=%s feature=%s (%d recorded): %s" % (mon, feat, len(vs), v["detail"][:600]))
    # ---- known findings
    if not replay:
        for f in mine:
            if f["key"] in known_seen:
                out_lines.append("KNOWN-FINDING: property=%s %s [%s; witness: %s]" % (
                    pid, f["text"], f["key"], known_seen[f["key"]][0]["detail"][:200]))
            else:
                out_lines.append("NOTE: listed finding %s of %s did not reproduce in this run" % (f["key"], pid))

    # ---- inconclusive?
    reasons = list(problems)
    if not replay:
        if stats.get("harness_errors"):
            reasons.append("%d case(s) ended in a harness error: %s" % (
                stats["harness_errors"], (notes[0].strip().splitlines() or ["?"])[-1][:300]))
        for name in getattr(mod, "REQUIRED", ()):
            if stats.get(name, 0) <= 0:
                reasons.append("deciding monitor counter %r is 0" % name)
        minimum = plan.get("min_nontrivial", 2)
        if len(sigs) < max(2, minimum):
            reasons.append("only %d distinct non-trivial cases (minimum %d)" % (len(sigs), max(2, minimum)))
    if rc == 0 and reasons:
        rc = 2
        out_lines.append("INCONCLUSIVE property=%s reason=%s" % (pid, "; ".join(reasons)[:1500]))
    elif reasons:
        out_lines.append("NOTE: also inconclusive parts: %s" % "; ".join(reasons)[:800])

    wall = round(time.time() - t0, 2)
    if not replay and os.path.realpath(os.environ.get("VERIF_REPO", "/repo")) == "/repo":
        write_evidence(pid, tier, seed, mod, plan, stats, sigs, samples, lines, cases, wall, len(real),
                       sorted(known_seen), reasons)
    if not quiet:
        for line in out_lines:
            print(line)
        verdict = {0: "HELD", 1: "VIOLATED", 2: "INCONCLUSIVE"}[rc]
        print("%s %s tier=%s seed=%d cases=%d distinct_nontrivial=%d wall=%.1fs" % (
            pid, verdict, tier, seed, cases, len(sigs), wall))
        shown = {k: v for k, v in sorted(stats.items()) if not k.startswith("_")}
        print("  observed: " + ", ".join("%s=%s" % kv for kv in list(shown.items())[:60]))
        if notes and rc == 2:
            print("  first note:\n" + notes[0])
    return rc


def write_evidence(pid, tier, seed, mod, plan, stats, sigs, samples, lines, cases, wall, nviol, known, reasons):
    rec = property_record(pid)
    from .monitors import executable_lines

    repo = os.environ.get("VERIF_REPO", "/repo")
    reach = {}
    for fn in rec["anchors"]["files"]:
        rel = fn.split("cincoconfig/", 1)[-1]
        try:
            total = executable_lines(os.path.join(repo, fn))
        except OSError:
            continue
        got = lines.get(rel, set()) & total
        reach[fn] = "%d/%d" % (len(got), len(total))
    if os.environ.get("VERIF_LINES_DUMP"):
        # audit aid (tools/uncovered.py): every line of the package this run executed, not only the anchored files
        os.makedirs(os.environ["VERIF_LINES_DUMP"], exist_ok=True)
        with open(os.path.join(os.environ["VERIF_LINES_DUMP"], "%s.json" % pid), "w") as fp:
            json.dump({fn: sorted(ls) for fn, ls in lines.items()}, fp)
    cov = {
        "evaluations": cases,
        "distinct_nontrivial": len(sigs),
        "rule": mod.RULE,
        "samples": samples[:4] or [{"note": "no non-trivial sample recorded"}],
        "monitor_evaluations": {k: v for k, v in sorted(stats.items())},
        "lines_reached": reach,
        "shards": plan["shards"],
        "known_findings_seen": known,
        "inconclusive": reasons,
    }
    if getattr(mod, "EXCLUDED", None):
        cov["excluded_value_classes"] = list(mod.EXCLUDED)
    if getattr(mod, "EXHAUSTIVE", False):
        cov["exhaustive"] = True
    ev = {
        "property_id": pid,
        "tier": tier,
        "seed": seed,
        "level": getattr(mod, "LEVEL", "exploration"),
        "coverage": cov,
        "assumptions": list(getattr(mod, "ASSUMPTIONS", ())),
        "wall_s": wall,
        "violations": nviol,
    }
    os.makedirs(os.path.join(HERE, "evidence"), exist_ok=True)
    path = os.path.join(HERE, "evidence", "%s.json" % pid)
    with open(path + ".tmp", "w") as fp:
        json.dump(ev, fp, indent=1)
    os.replace(path + ".tmp", path)


def selftest():
    from . import aes_ref

    aes_ref.selftest()
    ossl = aes_ref.cross_check_openssl()
    env = dict(os.environ, PYTHONPATH=HERE, PYTHONDONTWRITEBYTECODE="1")
    code = ("import sys, json; from vf.sandbox import Sandbox; sb = Sandbox(%r); cc = sb.import_target(); "
            "print(cc.__file__)" % os.environ.get("VERIF_REPO", "/repo"))
    out = subprocess.run([sys.executable, "-c", code], env=env, cwd=HERE, capture_output=True, text=True,
                         timeout=120)
    if out.returncode != 0:
        print("selftest: sandbox/import guard failed:\n" + out.stderr)
        return 2
    print("selftest ok: AES reference vectors pass%s; library imports from %s" % (
        " (and agree with the openssl CLI)" if ossl else "", out.stdout.strip()))
    return 0


def main(argv=None):
    ap = argparse.ArgumentParser(prog="check")
    ap.add_argument("prop", nargs="?")
    ap.add_argument("--tier", default=os.environ.get("VERIF_TIER") or "quick", choices=["quick", "thorough"])
    ap.add_argument("--seed", type=int, default=None)
    ap.add_argument("--replay")
    ap.add_argument("--shards", type=int)
    ap.add_argument("--cases", type=int)
    ap.add_argument("--selftest", action="store_true")
    ap.add_argument("--repo", default=os.environ.get("VERIF_REPO", "/repo"))
    args = ap.parse_args(argv)
    os.environ["VERIF_REPO"] = args.repo
    if args.selftest:
        return selftest()
    if not args.prop:
        ap.error("property id required")
    seed = args.seed
    if seed is None:
        try:
            seed = int(os.environ.get("VERIF_SEED", "1"))
        except ValueError:
            seed = 1
    if args.prop.lower() == "all":
        worst = 0
        for pid in ALL:
            if not os.path.exists(os.path.join(HERE, "vf", "props", pid.lower() + ".py")):
                continue
            worst = max(worst, run_property(pid, args.tier, seed, args.repo))
        return worst
    return run_property(args.prop.upper(), args.tier, seed, args.repo, replay=args.replay,
                        shards=args.shards, cases=args.cases)


if __name__ == "__main__":
    sys.exit(main())
