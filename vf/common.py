"""Shared pieces: per-case result record, type-strict equality, state snapshots, tokens."""
import hashlib
import math
import random
from collections import Counter

from . import jsonx


class Res:
    """What one executed case reports back."""

    def __init__(self):
        self.violations = []  # dicts: monitor, feature, detail
        self.stats = Counter()
        self.sig = None  # signature text of the case when it is non-trivial, else None
        self.notes = []

    def viol(self, monitor, feature, detail, **extra):
        rec = {"monitor": monitor, "feature": feature, "detail": detail}
        rec.update(extra)
        self.violations.append(rec)

    def count(self, name, n=1):
        self.stats[name] += n

    def nontrivial(self, *parts):
        self.sig = sighash(parts)


def sighash(obj):
    return hashlib.sha1(jsonx.dumps(obj, sort_keys=True).encode()).hexdigest()[:14]


def derive_seed(*parts):
    h = hashlib.sha256("/".join(str(p) for p in parts).encode()).digest()
    return int.from_bytes(h[:8], "big")


def rng_for(*parts):
    return random.Random(derive_seed(*parts))


# ------------------------------------------------------------------------------------------------
# type-strict deep equality (DESIGN §3 C02/C04 "eq*")


def eqstar(a, b, zero_sign=False):
    """True/False; bool != int, int != float, '' != None, [] != None, NaN == NaN, list != tuple,
    dict compared by key set (order ignored)."""
    if a is None or b is None:
        return a is None and b is None
    ta, tb = _kind(a), _kind(b)
    if ta != tb:
        return False
    if ta == "float":
        if math.isnan(a) or math.isnan(b):
            return math.isnan(a) and math.isnan(b)
        if zero_sign and a == 0 and b == 0:
            return math.copysign(1, a) == math.copysign(1, b)
        return a == b
    if ta in ("list", "tuple"):
        return len(a) == len(b) and all(eqstar(x, y, zero_sign) for x, y in zip(a, b))
    if ta == "dict":
        if len(a) != len(b):
            return False
        for k, x in a.items():
            hit = _lookup(b, k)
            if hit is _MISSING or not eqstar(x, hit, zero_sign):
                return False
        return True
    if ta == "digest":
        return tuple(a) == tuple(b)
    return a == b


_MISSING = object()


def _lookup(d, k):
    # key equality must be type strict as well (1 vs True vs 1.0)
    for kk, v in d.items():
        if (type(kk) is type(k) or (isinstance(kk, str) and isinstance(k, str))) and kk == k:
            return v
    return _MISSING


def _kind(v):
    if isinstance(v, bool):
        return "bool"
    if isinstance(v, int):
        return "int"
    if isinstance(v, float):
        return "float"
    if isinstance(v, str):
        return "str"
    if isinstance(v, bytes):
        return "bytes"
    if isinstance(v, Digest):
        return "digest"
    if isinstance(v, list):
        return "list"
    if isinstance(v, tuple):
        return "tuple"
    if isinstance(v, dict):
        return "dict"
    return type(v).__name__


class Digest(tuple):
    """Plain image of a DigestValue: (salt, digest, algorithm name)."""

    def __repr__(self):
        return "Digest(salt=%s.., digest=%s.., %s)" % (self[0].hex()[:8], self[1].hex()[:8], self[2])


def plain(value, ids=None):
    """Plain image of a value held by a configuration: nested configurations become dicts,
    proxies become builtin containers, digest values become `Digest`.  With `ids` (a dict) the
    identity of every nested configuration is recorded under its position."""
    return _plain(value, ids, "")


def _plain(value, ids, pos):
    import cincoconfig

    if isinstance(value, cincoconfig.Config):
        if ids is not None:
            ids[pos] = id(value)
        out = {}
        for key, sub in value:
            out[key] = _plain(sub, ids, (pos + "." if pos else "") + key)
        return out
    if isinstance(value, cincoconfig.DigestValue):
        alg = getattr(value.algorithm, "__name__", str(value.algorithm))
        return Digest((bytes(value.salt), bytes(value.digest), alg.replace("openssl_", "")))
    if isinstance(value, tuple) and not isinstance(value, Digest):
        return tuple(_plain(v, ids, "%s[%d]" % (pos, i)) for i, v in enumerate(value))
    if isinstance(value, list):
        return [_plain(v, ids, "%s[%d]" % (pos, i)) for i, v in enumerate(value)]
    if isinstance(value, dict):
        return {k: _plain(v, ids, "%s[%r]" % (pos, k)) for k, v in value.items()}
    return value


def defined_map(cfg, prefix=""):
    """{path: is_value_defined} for every stored key at every depth (list items included)."""
    import cincoconfig

    out = {}
    for key, sub in cfg:
        path = (prefix + "." if prefix else "") + key
        try:
            out[path] = cincoconfig.is_value_defined(cfg, key)
        except Exception as exc:  # pragma: no cover - reported by the caller as a difference
            out[path] = "error:%s" % type(exc).__name__
        if isinstance(sub, cincoconfig.Config):
            out.update(defined_map(sub, path))
        elif isinstance(sub, list):
            for i, item in enumerate(sub):
                if isinstance(item, cincoconfig.Config):
                    out.update(defined_map(item, "%s[%d]" % (path, i)))
    return out


class Snapshot:
    """Observable state of a configuration: values, user-defined flags, identities."""

    def __init__(self, cfg):
        self.ids = {}
        self.values = plain(cfg, self.ids)
        self.defined = defined_map(cfg)
        self.flags = self.defined

    def diff(self, other, identity=True):
        """List of human-readable differences (empty when equal)."""
        out = []
        _diff(self.values, other.values, "", out)
        for path in sorted(set(self.defined) | set(other.defined)):
            a, b = self.defined.get(path, "<absent>"), other.defined.get(path, "<absent>")
            if a != b:
                out.append("user-defined flag of %s: %r -> %r" % (path, a, b))
        if identity:
            for pos in sorted(set(self.ids) | set(other.ids)):
                if self.ids.get(pos) != other.ids.get(pos):
                    out.append("identity of configuration %r changed" % (pos or "<root>"))
        return out


def _diff(a, b, path, out, limit=12):
    if len(out) >= limit:
        return
    if isinstance(a, dict) and isinstance(b, dict) and type(a) is type(b):
        for k in list(a) + [k for k in b if _lookup(a, k) is _MISSING]:
            x, y = _lookup(a, k), _lookup(b, k)
            sub = "%s.%s" % (path, k) if path else str(k)
            if x is _MISSING:
                out.append("%s: <absent> -> %s" % (sub, jsonx.short(y, 120)))
            elif y is _MISSING:
                out.append("%s: %s -> <absent>" % (sub, jsonx.short(x, 120)))
            else:
                _diff(x, y, sub, out, limit)
        return
    if isinstance(a, list) and isinstance(b, list) and len(a) == len(b):
        for i, (x, y) in enumerate(zip(a, b)):
            _diff(x, y, "%s[%d]" % (path, i), out, limit)
        return
    if not eqstar(a, b, zero_sign=True):
        out.append("%s: %s -> %s" % (path or "<root>", jsonx.short(a, 120), jsonx.short(b, 120)))


# ------------------------------------------------------------------------------------------------
# unique tokens (M-leak)


def token(rng):
    return "tk" + "%016x" % rng.getrandbits(64)


def weighted(rng, pairs):
    """pairs: [(weight, value)]"""
    total = sum(w for w, _ in pairs)
    x = rng.random() * total
    for w, v in pairs:
        x -= w
        if x <= 0:
            return v
    return pairs[-1][1]
