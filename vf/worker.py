"""One shard of one property, run in its own process:  python -m vf.worker '<json job>'."""
import faulthandler
import importlib
import json
import os
import sys
import time
import traceback

from . import jsonx
from .common import Res, rng_for
from .monitors import LineCoverage
from .sandbox import Sandbox


class Ctx:
    """What a property module gets to work with."""

    def __init__(self, sb, cc, tier, seed):
        self.sb = sb
        self.cc = cc  # the cincoconfig package under test
        self.tier = tier
        self.seed = seed
        self.dir = None  # fresh directory of the current case
        self.pkgdir = os.path.dirname(os.path.realpath(cc.__file__))
        self.filelog = None
        self.failpoints = None
        self.cache = {}


def execute(mod, ctx, case):
    """Run one case in a fresh case directory; never lets a harness error pass for a verdict."""
    res = Res()
    ctx.dir = ctx.sb.case_dir()
    try:
        if isinstance(case, dict) and case.get("audit_probe"):
            from . import audit_probes

            audit_probes.run(case["audit_probe"], ctx, res)
        else:
            mod.run(case, ctx, res)
    except Exception as exc:  # harness bug or unexpected library behaviour outside any oracle
        esc = getattr(mod, "ESCAPED_LIBRARY_ERROR", None)
        tb = exc.__traceback__
        while tb is not None and tb.tb_next is not None:
            tb = tb.tb_next
        inner = os.path.realpath(tb.tb_frame.f_code.co_filename) if tb is not None else ""
        if esc and inner.startswith(ctx.pkgdir + os.sep):
            # the module handles every rejection it expects itself: an exception raised inside the library that
            # escapes from it was raised for an input the property says must work
            res.viol(esc[0], "%s:%s" % (esc[1], type(exc).__name__), "the library raised %s: %s (%s:%d)" % (
                type(exc).__name__, str(exc)[:160], os.path.relpath(inner, ctx.pkgdir), tb.tb_lineno))
        else:
            res.stats["harness_errors"] += 1
            res.notes.append(traceback.format_exc(limit=-8))
    finally:
        ctx.sb.reset(ctx.dir)
        ctx.dir = None
    return res


def shrink(mod, ctx, case, target):
    """Greedy deletion of operations while the same (monitor, feature) still fires."""
    key = getattr(mod, "SHRINK_KEY", None)
    if not key or not isinstance(case.get(key), list) or len(case[key]) < 2:
        return case
    budget, cur = 200, dict(case)
    i = len(cur[key]) - 1
    while i >= 0 and budget > 0:
        trial = dict(cur)
        trial[key] = cur[key][:i] + cur[key][i + 1:]
        budget -= 1
        r = execute(mod, ctx, trial)
        if any((v["monitor"], v["feature"]) == target for v in r.violations):
            cur = trial
        i -= 1
    return cur


def main():
    job = json.loads(sys.argv[1])
    faulthandler.enable()
    faulthandler.dump_traceback_later(job.get("hang_s", 1700), exit=True)
    t0 = time.time()
    sb = Sandbox(job["repo"])
    out = {"shard": job["shard"], "stats": {}, "sigs": [], "violations": [], "samples": [],
           "cases": 0, "notes": [], "truncated": False}
    cov = LineCoverage(os.path.join(sb.repo, "cincoconfig"))
    if job.get("coverage", True):
        cov.start()
    try:
        cc = sb.import_target()
    except Exception as exc:
        out["fatal"] = "import failed: %r" % (exc,)
        _write(job, out)
        return
    mod = importlib.import_module("vf.props." + job["prop"].lower())
    ctx = Ctx(sb, cc, job["tier"], job["seed"])
    if hasattr(mod, "setup"):
        mod.setup(ctx)

    from collections import Counter

    stats, sigs = Counter(), set()
    deadline = t0 + job["budget_s"]

    def handle(case, origin):
        res = execute(mod, ctx, case)
        out["cases"] += 1
        stats.update(res.stats)
        if res.sig:
            sigs.add(res.sig)
        for note in res.notes[:2]:
            if len(out["notes"]) < 5:
                out["notes"].append(note)
        if res.violations:
            seen = set()
            for v in res.violations:
                tgt = (v["monitor"], v["feature"])
                if tgt in seen:
                    continue
                seen.add(tgt)
                if len([x for x in out["violations"] if (x["monitor"], x["feature"]) == tgt]) >= 3:
                    stats["violations_not_recorded"] += 1
                    continue
                small = shrink(mod, ctx, case, tgt) if job.get("shrink", True) else case
                rec = dict(v)
                rec["case"] = jsonx.enc(small)
                rec["origin"] = origin
                out["violations"].append(rec)
        elif len(out["samples"]) < 3 and res.sig:
            out["samples"].append(jsonx.enc(_abbrev(mod, case)))
        return res

    if job.get("replay"):
        with open(job["replay"]) as fp:
            rec = json.load(fp)
        handle(jsonx.dec(rec["case"]), "replay")
    else:
        if job["shard"] == 0 and hasattr(mod, "probes"):
            for key, case in mod.probes(ctx):
                case = dict(case)
                case["probe"] = key
                handle(case, "probe:" + key)
        if job["shard"] == 0:
            from . import audit_probes

            for key in audit_probes.BY_PROPERTY.get(job["prop"], ()):
                handle({"audit_probe": key, "probe": key}, "probe:" + key)
        if hasattr(mod, "directed") and job["shard"] == 0:
            for case in mod.directed(ctx):
                handle(case, "directed")
        n = job["cases"]
        for i in range(n):
            if time.time() > deadline:
                out["truncated"] = True
                break
            rng = rng_for(job["seed"], job["prop"], job["shard"], i)
            case = mod.generate(rng, ctx)
            handle(case, "gen:%d:%d" % (job["shard"], i))
    cov.stop()
    out["stats"] = dict(stats)
    out["sigs"] = sorted(sigs)
    out["lines"] = cov.report()
    out["wall_s"] = round(time.time() - t0, 2)
    _write(job, out)


def _abbrev(mod, case):
    if hasattr(mod, "abbreviate"):
        return mod.abbreviate(case)
    return case


def _write(job, out):
    tmp = job["out"] + ".tmp"
    with open(tmp, "w") as fp:
        json.dump(out, fp)
    os.replace(tmp, job["out"])


if __name__ == "__main__":
    main()
