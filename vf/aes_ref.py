"""Independent pure-Python AES-256 (FIPS-197) with CBC and PKCS#7, plus the repeating-key XOR
stream.  Oracle of C03/C08/C19; self-tested against FIPS-197 C.3 and SP 800-38A F.2.5/F.2.6."""


def _xtime(a):
    a <<= 1
    return (a ^ 0x11B) & 0xFF if a & 0x100 else a


def _gmul(a, b):
    r = 0
    while b:
        if b & 1:
            r ^= a
        a = _xtime(a)
        b >>= 1
    return r


def _make_sbox():
    # multiplicative inverse in GF(2^8) followed by the affine transformation of FIPS-197 5.1.1
    inv = [0] * 256
    for x in range(1, 256):
        for y in range(1, 256):
            if _gmul(x, y) == 1:
                inv[x] = y
                break
    sbox = []
    for x in range(256):
        b = inv[x]
        s = b
        for i in range(1, 5):
            s ^= ((b << i) | (b >> (8 - i))) & 0xFF
        sbox.append(s ^ 0x63)
    return sbox


SBOX = _make_sbox()
INV_SBOX = [0] * 256
for _i, _v in enumerate(SBOX):
    INV_SBOX[_v] = _i
MUL = {m: [_gmul(x, m) for x in range(256)] for m in (2, 3, 9, 11, 13, 14)}


def expand_key(key):
    assert len(key) == 32
    nk, nr = 8, 14
    w = [list(key[4 * i:4 * i + 4]) for i in range(nk)]
    rcon = 1
    for i in range(nk, 4 * (nr + 1)):
        t = list(w[i - 1])
        if i % nk == 0:
            t = t[1:] + t[:1]
            t = [SBOX[b] for b in t]
            t[0] ^= rcon
            rcon = _xtime(rcon)
        elif i % nk == 4:
            t = [SBOX[b] for b in t]
        w.append([a ^ b for a, b in zip(w[i - nk], t)])
    return [sum(w[4 * r:4 * r + 4], []) for r in range(nr + 1)]


def _add(s, k):
    return [a ^ b for a, b in zip(s, k)]


def _shift(s):
    return [s[(i + 4 * (i % 4)) % 16] for i in range(16)]


def _inv_shift(s):
    out = [0] * 16
    for i in range(16):
        out[(i + 4 * (i % 4)) % 16] = s[i]
    return out


def _mix(s):
    out = []
    m2, m3 = MUL[2], MUL[3]
    for c in range(4):
        a0, a1, a2, a3 = s[4 * c:4 * c + 4]
        out += [m2[a0] ^ m3[a1] ^ a2 ^ a3, a0 ^ m2[a1] ^ m3[a2] ^ a3,
                a0 ^ a1 ^ m2[a2] ^ m3[a3], m3[a0] ^ a1 ^ a2 ^ m2[a3]]
    return out


def _inv_mix(s):
    out = []
    m9, m11, m13, m14 = MUL[9], MUL[11], MUL[13], MUL[14]
    for c in range(4):
        a0, a1, a2, a3 = s[4 * c:4 * c + 4]
        out += [m14[a0] ^ m11[a1] ^ m13[a2] ^ m9[a3], m9[a0] ^ m14[a1] ^ m11[a2] ^ m13[a3],
                m13[a0] ^ m9[a1] ^ m14[a2] ^ m11[a3], m11[a0] ^ m13[a1] ^ m9[a2] ^ m14[a3]]
    return out


def encrypt_block(rk, block):
    s = _add(list(block), rk[0])
    for r in range(1, 14):
        s = _add(_mix(_shift([SBOX[b] for b in s])), rk[r])
    return bytes(_add(_shift([SBOX[b] for b in s]), rk[14]))


def decrypt_block(rk, block):
    s = _add(list(block), rk[14])
    for r in range(13, 0, -1):
        s = _inv_mix(_add([INV_SBOX[b] for b in _inv_shift(s)], rk[r]))
    return bytes(_add([INV_SBOX[b] for b in _inv_shift(s)], rk[0]))


_rk_cache = {}


def _rk(key):
    key = bytes(key)
    rk = _rk_cache.get(key)
    if rk is None:
        if len(_rk_cache) > 64:
            _rk_cache.clear()
        rk = _rk_cache[key] = expand_key(key)
    return rk


def cbc_encrypt_raw(key, iv, data):
    assert len(data) % 16 == 0 and len(iv) == 16
    rk, prev, out = _rk(key), bytes(iv), []
    for i in range(0, len(data), 16):
        prev = encrypt_block(rk, bytes(a ^ b for a, b in zip(data[i:i + 16], prev)))
        out.append(prev)
    return b"".join(out)


def cbc_decrypt_raw(key, iv, data):
    assert len(data) % 16 == 0 and len(iv) == 16
    rk, prev, out = _rk(key), bytes(iv), []
    for i in range(0, len(data), 16):
        blk = data[i:i + 16]
        out.append(bytes(a ^ b for a, b in zip(decrypt_block(rk, blk), prev)))
        prev = blk
    return b"".join(out)


def pkcs7_pad(data):
    n = 16 - len(data) % 16
    return data + bytes([n]) * n


def pkcs7_unpad(data):
    """Returns the unpadded bytes or None when the padding is invalid."""
    if not data or len(data) % 16:
        return None
    n = data[-1]
    if n < 1 or n > 16 or data[-n:] != bytes([n]) * n:
        return None
    return data[:-n]


def aes_encrypt(key, iv, plaintext):
    """IV || AES-256-CBC(PKCS7(plaintext))"""
    return bytes(iv) + cbc_encrypt_raw(key, iv, pkcs7_pad(bytes(plaintext)))


def aes_decrypt(key, blob):
    """Inverse of aes_encrypt; None when the shape or the padding is wrong."""
    if len(blob) < 32 or len(blob) % 16:
        return None
    return pkcs7_unpad(cbc_decrypt_raw(key, blob[:16], blob[16:]))


def xor_stream(key, data):
    return bytes(b ^ key[i % len(key)] for i, b in enumerate(data))


def selftest():
    h = bytes.fromhex
    # FIPS-197 appendix C.3
    key = h("000102030405060708090a0b0c0d0e0f101112131415161718191a1b1c1d1e1f")
    pt = h("00112233445566778899aabbccddeeff")
    ct = h("8ea2b7ca516745bfeafc49904b496089")
    rk = expand_key(key)
    assert encrypt_block(rk, pt) == ct, "FIPS-197 C.3 encrypt"
    assert decrypt_block(rk, ct) == pt, "FIPS-197 C.3 decrypt"
    # SP 800-38A F.2.5 / F.2.6 (CBC-AES256)
    key = h("603deb1015ca71be2b73aef0857d77811f352c073b6108d72d9810a30914dff4")
    iv = h("000102030405060708090a0b0c0d0e0f")
    pt = h("6bc1bee22e409f96e93d7e117393172aae2d8a571e03ac9c9eb76fac45af8e51"
           "30c81c46a35ce411e5fbc1191a0a52eff69f2445df4f9b17ad2b417be66c3710")
    ct = h("f58c4c04d6e5f1ba779eabfb5f7bfbd69cfc4e967edb808d679f777bc6702c7d"
           "39f23369a9d9bacfa530e26304231461b2eb05e2c39be9fcda6c19078c6a9d1b")
    assert cbc_encrypt_raw(key, iv, pt) == ct, "SP800-38A F.2.5"
    assert cbc_decrypt_raw(key, iv, ct) == pt, "SP800-38A F.2.6"
    assert pkcs7_unpad(pkcs7_pad(b"abc")) == b"abc" and pkcs7_unpad(pkcs7_pad(b"")) == b""
    assert len(pkcs7_pad(b"x" * 16)) == 32
    assert aes_decrypt(key, aes_encrypt(key, iv, b"hello")) == b"hello"
    return True


def cross_check_openssl():
    """Compare with the openssl command line tool when one is installed (None when it is not)."""
    import shutil
    import subprocess

    exe = shutil.which("openssl")
    if not exe:
        return None
    key = bytes(range(32))
    iv = bytes(range(100, 116))
    for msg in (b"", b"a", b"sixteen byte msg", b"x" * 33):
        try:
            out = subprocess.run([exe, "enc", "-aes-256-cbc", "-K", key.hex(), "-iv", iv.hex(), "-nosalt"], input=msg,
                                 capture_output=True, timeout=20)
        except Exception:
            return None
        if out.returncode != 0:
            return None
        if iv + out.stdout != aes_encrypt(key, iv, msg):
            raise AssertionError("AES oracle disagrees with openssl for a %d-byte message" % len(msg))
    return True
