"""Schema spec language (DESIGN §2.2): JSON-able trees that are built into real cincoconfig
schemas, plus helpers to walk specs and to address values by path (a.b[2].c, d['k'])."""
import re

from .jsonx import DigestSpec, Opaque


class Built:
    """Result of building a schema spec."""

    def __init__(self):
        self.schema = None
        self.types = {}  # config type name -> class
        self.log = []  # M-log events
        self.calls = {}  # callable-default counters by path
        self.decorated = {}  # method key -> what the instance_method decorator returned
        self.item_schemas = {}  # id(item node) -> the Schema built for it
        self.keep = []  # (keeps the nodes alive whose id() is a key above)
        self.late_fills = []  # item schemas to be filled after their list field has been attached


def resolve(obj, mapping):
    """Replace $FX / $DIR placeholders in every string of a spec."""
    if isinstance(obj, str):
        for k, v in mapping.items():
            if k in obj:
                obj = obj.replace(k, v)
        return obj
    if isinstance(obj, list):
        return [resolve(x, mapping) for x in obj]
    if isinstance(obj, tuple):
        return tuple(resolve(x, mapping) for x in obj)
    if isinstance(obj, dict):
        return {resolve(k, mapping) if isinstance(k, str) else k: resolve(v, mapping) for k, v in obj.items()}
    return obj


def realize(cc, value, node=None):
    """Turn spec-level value markers into real objects (DigestSpec -> DigestValue, Opaque -> object())."""
    if isinstance(value, DigestSpec):
        alg = cc.ChallengeField.ALGORITHMS[value.alg]
        salt = value.salt
        if getattr(value, "raw", False):
            import hashlib

            secret = value.secret.encode() if isinstance(value.secret, str) else bytes(value.secret)
            return cc.DigestValue(bytes(salt), hashlib.new(value.alg, bytes(salt) + secret).digest(), alg)
        return cc.DigestValue.create(value.secret, alg, salt=salt)
    if isinstance(value, Opaque):
        return object()
    import collections
    import types

    if isinstance(value, types.MappingProxyType):
        return types.MappingProxyType({k: realize(cc, v) for k, v in value.items()})
    if isinstance(value, collections.UserDict):
        return collections.UserDict({k: realize(cc, v) for k, v in value.items()})
    if isinstance(value, collections.ChainMap):
        return collections.ChainMap({k: realize(cc, v) for k, v in value.items()})
    if isinstance(value, list):
        return [realize(cc, v) for v in value]
    if isinstance(value, tuple):
        return tuple(realize(cc, v) for v in value)
    if isinstance(value, dict):
        return {k: realize(cc, v) for k, v in value.items()}
    return value


def make_field(cc, node, built, path):
    prm = node.get("params", {})
    extra = prm.get("validator2")
    if extra and prm.get("validator") and prm.get("validators_by_one_decorator"):
        # both validators registered afterwards through ONE decorator object that is applied twice
        field = _make_field(cc, dict(node, params={k: v for k, v in prm.items() if k != "validator"}), built, path)
        register = cc.validator(field)
        register(_field_validator(built, path, prm["validator"]))
        register(_field_validator(built, path, extra))
        return field
    field = _make_field(cc, node, built, path)
    if extra:
        # a second validator registered on the field afterwards, with the decorator
        cc.validator(field)(_field_validator(built, path, extra))
    return field


def _make_field(cc, node, built, path):
    fam = node["family"]
    p = dict(node.get("params", {}))
    kw = {}
    for name in ("required", "name", "sensitive", "env", "help", "key"):  # (key: a constructor key; the schema's name for the field replaces it)
        if name in p:
            kw[name] = p.pop(name)
    if "default" in p:
        d = realize(cc, p.pop("default"))
        how = p.pop("default_callable", False)
        if how:
            built.calls[path] = 0

            def default(d=d, path=path):
                built.calls[path] += 1
                import copy

                return copy.deepcopy(d)

            if how == "partial":
                import functools

                default = functools.partial(default)  # callable, but not a function
            elif how == "object":
                class Factory:  # an instance with __call__
                    def __call__(self, _f=default):
                        return _f()

                default = Factory()
            kw["default"] = default
        else:
            kw["default"] = d
    p.pop("default_callable", None)
    p.pop("validator2", None)
    p.pop("validators_by_one_decorator", None)
    vspec = p.pop("validator", None)
    if vspec:
        kw["validator"] = _field_validator(built, path, vspec)
    if fam == "str":
        return cc.StringField(**p, **kw)
    if fam == "loglevel":
        return cc.LogLevelField(**p, **kw)
    if fam == "appmode":
        return cc.ApplicationModeField(**p, **kw)
    if fam in ("int", "float") and p.pop("base_class", False):
        # the exported base class used directly (what IntField / FloatField do themselves)
        return cc.NumberField(int if fam == "int" else float, **p, **kw)
    if fam == "int":
        return cc.IntField(**p, **kw)
    if fam == "float":
        return cc.FloatField(**p, **kw)
    if fam == "port":
        return cc.PortField(**p, **kw)
    if fam == "bool":
        return cc.BoolField(**p, **kw)
    if fam == "flag":
        return cc.FeatureFlagField(**p, **kw)
    if fam == "ipv4":
        return cc.IPv4AddressField(**p, **kw)
    if fam == "net":
        return cc.IPv4NetworkField(**p, **kw)
    if fam == "host":
        return cc.HostnameField(**p, **kw)
    if fam == "url":
        return cc.UrlField(**p, **kw)
    if fam == "file":
        return cc.FilenameField(**p, **kw)
    if fam == "include":
        return cc.IncludeField(**p, **kw)
    if fam == "bytes":
        return cc.BytesField(**p, **kw)
    if fam == "secure":
        return cc.SecureField(**p, **kw)
    if fam == "challenge":
        return cc.ChallengeField(**p, **kw)
    if fam == "any":
        return cc.AnyField(**p, **kw)
    if fam == "list":
        item = node.get("item")
        if item is None:
            return cc.ListField(**kw)
        if item["kind"] == "field":
            return cc.ListField(make_field(cc, item, built, path + "[]"), **kw)
        if item["kind"] == "schema":
            # one item node used by two list fields (a list and its twin) is ONE item schema used as the item type of both
            share = item.get("share") or id(item)
            sub = built.item_schemas.get(share)
            if sub is None:
                ikw = {}
                if "env" in item:
                    ikw["env"] = item["env"]
                sub = built.item_schemas[share] = cc.Schema(dynamic=item.get("dynamic", False), **ikw)
                built.keep.append(item)
                if item.get("late_fill"):
                    # declared top-down: the list first, the fields of its items once the list field is part of the schema
                    built.late_fills.append((sub, item, path + "[]"))
                else:
                    _fill(cc, sub, item, built, path + "[]")
            return cc.ListField(sub, **kw)
        return cc.ListField(_make_type(cc, item, built, path + "[]"), **kw)
    if fam == "dict":
        kf = make_field(cc, node["keyf"], built, path + "{k}") if node.get("keyf") else None
        vf = make_field(cc, node["valf"], built, path + "{v}") if node.get("valf") else None
        return cc.DictField(kf, vf, **kw)
    if fam == "virtual":
        ret = p.get("returns", "path")

        def getter(cfg, path=path, ret=ret):
            built.log.append(("getter", path, id(cfg)))
            return path if ret == "path" else ret

        ann = p.get("ret_annotation")
        if ann:
            glb = {"_g": getter}
            exec("def getter(cfg) -> %s:\n    return _g(cfg)\n" % ann, glb)  # noqa: S102 - harness generated source
            getter = glb["getter"]

        setter = None
        if p.get("forward"):
            k1, k2 = p["forward"]

            def setter(cfg, value, k1=k1, k2=k2, path=path):
                built.log.append(("setter", path, id(cfg), value))
                cfg[k1] = value[0]
                cfg[k2] = value[1]
        elif p.get("setter"):
            def setter(cfg, value, path=path):
                built.log.append(("setter", path, id(cfg), value))

        return cc.VirtualField(getter, setter, **kw)
    raise ValueError("unknown family %r" % fam)


def _field_validator(built, path, vspec):
    """vspec: 'pass' | 'fail' | 'boom' (raises a non-ValueError)"""

    only = None
    if isinstance(vspec, str) and "@" in vspec:
        vspec, only = vspec.split("@", 1)  # "fail-empty@424242": reject only the value whose text is 424242

    def validator(cfg, value, path=path, vspec=vspec, only=only):
        built.log.append(("fv", path, id(cfg), vspec))
        if only is not None and str(value) != only:
            return value
        if vspec == "fail":
            raise ValueError("field validator of %s says no" % path)
        if vspec == "boom":
            raise KeyError("field validator of %s exploded" % path)
        if vspec == "fail-empty":
            raise ValueError()  # no message at all
        if vspec == "assert-empty":
            assert value is Ellipsis
        if vspec == "keyerror-empty":
            raise KeyError()
        if vspec == "multiline":
            raise ValueError("first line of the explanation\nsecond line")
        if vspec == "maxlen2" and hasattr(value, "__len__") and len(value) > 2:
            raise ValueError("field validator of %s: at most 2 entries" % path)
        return value

    return validator


def _schema_validator(built, path, vspec):
    def validator(cfg, path=path, vspec=vspec):
        built.log.append(("sv", path, id(cfg), vspec))
        if vspec == "fail":
            raise ValueError("schema validator of %s says no" % (path or "<root>"))
        if vspec == "boom":
            raise KeyError("schema validator of %s exploded" % (path or "<root>"))
        if vspec == "fail-ve":
            # a validator that raises the library's own error type itself
            import sys

            raise sys.modules["cincoconfig"].ValidationError(cfg, None, ValueError("schema validator of %s says no" % (path or "<root>")))

    return validator


def _make_type(cc, node, built, path):
    name = node.get("name") or "T"
    key = (name, node["schema"].get("share") or id(node))  # (nodes marked with the same "share" token are ONE type)
    if key in built.types:
        return built.types[key]
    kw = {}
    if "env" in node["schema"]:
        kw["env"] = node["schema"]["env"]
    sub = cc.Schema(dynamic=node["schema"].get("dynamic", False), **kw)
    schema_node, late = node["schema"], ()
    if node.get("late_validators") and schema_node.get("validators"):
        # the validators of the type's schema are registered only after the type has been made
        schema_node = dict(schema_node)
        late = schema_node.pop("validators")
    _fill(cc, sub, schema_node, built, path)
    cls = cc.make_type(sub, name, module="vf_types", key_filename=node.get("key_filename"))
    for vspec in late:
        cc.validator(sub)(_schema_validator(built, path, vspec))
    built.types[key] = cls
    built.types[name] = cls
    return cls


METHOD_SOURCES = {}


class Outer:
    """Module-level class with a nested class (annotations in generated method sources)."""

    class Inner:
        pass


def _local_class():
    class LocalCls:  # qualified name contains '<locals>'
        pass

    return LocalCls


LOCAL_CLS = _local_class()


def _make_method(node, built, path):
    src = node["params"]["source"]  # "def f(cfg, a, b=1, *args, c, **kw) -> int: ..."
    glb = {"typing": __import__("typing"), "List": __import__("typing").List,
           "Optional": __import__("typing").Optional, "Dict": __import__("typing").Dict, "Outer": Outer, "LocalCls": LOCAL_CLS}
    exec(src, glb)  # noqa: S102 - harness generated source
    fn = glb[node["params"].get("fname", "f")]
    return fn


def _fill(cc, schema, node, built, prefix, via=""):
    """Add the children of a schema node top-down (parents are attached before their children, as
    the environment-variable naming requires).  A sub-schema node without settings of its own may
    carry a build "style": 'auto' (created by attribute access), 'getitem' (created by
    schema[key]) or 'dotted' (never named: its children are added as holder['a.b.c'] = field and
    the intermediate schemas are created on the way).  `via` is the dotted prefix below `schema`
    in the last style."""

    def put(key, value):
        if via:
            schema[via + "." + key] = value
        elif key.startswith("_"):
            schema[key] = value  # (attribute assignment of a name with a leading underscore sets a private attribute)
        else:
            setattr(schema, key, value)

    def here():
        return schema[via] if via else schema

    for ch in node["fields"]:
        key = ch["key"]
        path = (prefix + "." if prefix else "") + key
        if ch["kind"] == "schema":
            style = ch.get("style")
            if style and style != "mounted" and ("env" in ch or ch.get("dynamic") or not ch["fields"]):
                style = None
            if style == "mounted" and "env" in ch:
                style = None
            if style == "dotted" and all(c["kind"] == "schema" or (c["kind"] == "field" and c["family"] != "method")
                                         for c in ch["fields"]) and not ch.get("validators"):
                _fill(cc, schema, ch, built, path, (via + "." if via else "") + key)
                continue
            if style == "mounted":
                # built and used on its own first (field paths listed, a configuration created), mounted afterwards
                sub = cc.Schema(dynamic=ch.get("dynamic", False))
                _fill(cc, sub, ch, built, path)
                _use_standalone(cc, sub)
                put(key, sub)
                continue
            if style == "auto" and (hasattr(type(here()), key) or key.startswith("_")):
                style = "getitem"  # attribute access would find the method of that name / treats the name as private
            if style == "auto":
                sub = getattr(here(), key)
            elif style in ("getitem", "dotted"):
                sub = schema[(via + "." if via else "") + key]
            else:
                kw = {}
                if "env" in ch:
                    kw["env"] = ch["env"]
                if ch.get("ctor_key"):
                    # the key is also given to the constructor (as a schema built on its own would have it), or another one
                    kw["key"] = ch["ctor_key"] if isinstance(ch["ctor_key"], str) else key
                sub = cc.Schema(dynamic=ch.get("dynamic", False), **kw)
                put(key, sub)
            _fill(cc, sub, ch, built, path)
        elif ch["kind"] == "ctype":
            put(key, _make_type(cc, ch, built, path))
        elif ch["family"] == "method":
            again = ch["params"].get("reuse_of")
            if again and again in built.decorated:
                # the name that an earlier @instance_method decoration left behind is registered a second time
                fn = built.decorated[again]
            else:
                fn = _make_method(ch, built, path)
            built.decorated[key] = cc.instance_method(here(), key)(fn)
        else:
            put(key, make_field(cc, ch, built, path))
            while built.late_fills:
                sub, item, ipath = built.late_fills.pop()
                _fill(cc, sub, item, built, ipath)
    if node.get("shared_decorator") and len(node.get("validators", ())) > 1:
        # one decorator object applied to several functions
        deco = cc.validator(here())
        for vspec in node["validators"]:
            deco(_schema_validator(built, prefix, vspec))
    else:
        for vspec in node.get("validators", ()):
            cc.validator(here())(_schema_validator(built, prefix, vspec))


def _use_standalone(cc, schema):
    """What an application does with a reusable schema fragment before mounting it: list the paths of its
    fields, create a configuration from it and validate that (errors do not matter here)."""
    try:
        for entry in list(cc.get_all_fields(schema)):
            field = entry[-1]
            cc.item_ref_path(field)
            if isinstance(field, cc.Schema):
                continue  # attribute access on a schema creates sub-schemas
            for inner in ("field", "key_field", "value_field"):
                f = getattr(field, inner, None)
                if f is not None and hasattr(f, "_key"):
                    try:
                        cc.item_ref_path(f)
                    except Exception:
                        pass
    except Exception:
        pass
    try:
        cfg = schema()
        cfg.validate(collect_errors=True)
    except Exception:
        pass


def build(cc, spec):
    """spec: root schema node -> Built (schema, config types, event log)."""
    built = Built()
    kw = {}
    if "env" in spec:
        kw["env"] = spec["env"]
    root = cc.Schema(dynamic=spec.get("dynamic", False), **kw)
    _fill(cc, root, spec, built, "")
    built.schema = root
    return built


# ------------------------------------------------------------------------------------------------
# walking specs


def walk(node, prefix=""):
    """Yield (path, node) for every node below a schema node, depth first; list items of
    schema kind are yielded with '[]' in the path."""
    from .model import fields_of

    for ch in fields_of(node)["fields"]:
        path = (prefix + "." if prefix else "") + ch["key"]
        yield path, ch
        if ch["kind"] in ("schema", "ctype"):
            yield from walk(ch, path)
        elif ch["kind"] == "field" and ch["family"] == "list" and ch.get("item") and ch["item"]["kind"] != "field":
            yield from walk(ch["item"], path + "[]")


def leaves(node, prefix="", through_lists=False):
    for path, ch in walk(node, prefix):
        if "[]" in path and not through_lists:
            continue
        if ch["kind"] == "field":
            yield path, ch


_SEG = re.compile(r"([A-Za-z_][A-Za-z0-9_]*)((?:\[\d+\])*)")


def get_path(cfg, path):
    """Value at 'a.b[2].c' by attribute access and indexing."""
    cur = cfg
    for seg in path.split("."):
        m = _SEG.fullmatch(seg)
        # item access on configurations: a key may be spelled like a method of the Config class
        cur = cur[m.group(1)] if hasattr(type(cur), "_get_value") else getattr(cur, m.group(1))
        for idx in re.findall(r"\[(\d+)\]", m.group(2)):
            cur = cur[int(idx)]
    return cur


def split_parent(path):
    head, _, last = path.rpartition(".")
    return head, last


def node_at(spec, path):
    """Spec node addressed by a path (indices in the path are ignored: a.b[2].c -> a.b[].c)."""
    from .model import fields_of

    cur = spec
    for seg in path.split("."):
        m = _SEG.fullmatch(seg)
        key, idx = m.group(1), m.group(2)
        nxt = None
        for ch in fields_of(cur)["fields"]:
            if ch["key"] == key:
                nxt = ch
                break
        if nxt is None:
            return None
        cur = nxt
        if idx:
            cur = cur.get("item")
            if cur is None:
                return None
    return cur
