"""History driver shared by C01 / C06 / C12 / C13: executes generated operation sequences against
a real configuration, predicts the effect of each operation from the observed state *before* it
(so the model never drifts), and lets monitors judge every step."""
import copy
import os
import re

from . import gen, model, spec
from .common import Snapshot, eqstar, plain, weighted, Digest
from .model import Unknown

LIST_OPS = ["append", "insert", "extend", "setitem", "setslice", "iadd", "imul", "sort", "reverse", "pop", "remove",
            "delitem", "clear"]
DICT_OPS = ["setitem", "update", "update_kw", "setdefault", "ior", "pop", "popitem", "delitem", "clear"]
SINGLE = {"append", "insert", "setitem", "setdefault"}  # single-element insertion / replacement (C06)
FORMATS = ["json", "yaml", "bson", "xml", "pickle"]


# ------------------------------------------------------------------------------------------------
# paths inside plain images


_TOK = re.compile(r"\.?([A-Za-z_][A-Za-z0-9_]*)|\[(\d+)\]")


def ptokens(path):
    out = []
    for m in _TOK.finditer(path):
        out.append(m.group(1) if m.group(1) is not None else int(m.group(2)))
    return out


def pget(values, path):
    cur = values
    for t in ptokens(path):
        cur = cur[t]
    return cur


def pset(values, path, v):
    toks = ptokens(path)
    cur = values
    for t in toks[:-1]:
        cur = cur[t]
    cur[toks[-1]] = v


def clone(v):
    """Copy containers, keep leaves by reference (opaque objects must keep their identity)."""
    if isinstance(v, Digest):
        return v
    if isinstance(v, dict):
        return {k: clone(x) for k, x in v.items()}
    if isinstance(v, list):
        return [clone(x) for x in v]
    return v


def under(path, prefix):
    return path == prefix or path.startswith(prefix + ".") or path.startswith(prefix + "[")


# ------------------------------------------------------------------------------------------------
# M-inv


def inv_value(f, pv, env, out, path):
    """Append a description to `out` for every readable value that neither is unset nor satisfies
    the constraints declared by its field spec."""
    if pv is None:
        return
    fam = f["family"]
    p = f.get("params", {})
    if p.get("required"):
        # being required is a whole-configuration requirement (C11), not a constraint on a held value
        f = dict(f, params={k: v for k, v in p.items() if k != "required"})
        p = f["params"]
    if fam in ("any", "secure", "virtual", "method"):
        return
    if fam == "challenge":
        if not isinstance(pv, Digest):
            out.append((path, fam, "challenge field holds %r" % (pv,)))
            return
        size = model.ALGS.get(pv[2])
        # (the salt of a digest value given directly - an imported hash - may have any length; the salt the library draws
        # for a plaintext is C09's subject)
        if size is None or len(pv[1]) != size:
            out.append((path, fam, "malformed digest value (alg %s, salt %d, digest %d bytes)" % (pv[2], len(pv[0]), len(pv[1]))))
        return
    if fam == "list":
        if not isinstance(pv, (list, tuple)):
            out.append((path, fam, "list field holds %s" % type(pv).__name__))
            return
        item = f.get("item")
        if item is None:
            return
        for i, x in enumerate(pv):
            if item["kind"] == "field":
                inv_value(item, x, env, out, "%s[%d]" % (path, i))
            else:
                if not isinstance(x, dict):
                    out.append(("%s[%d]" % (path, i), "list-of-config", "item of a configuration list is %r" % (x,)))
                else:
                    inv_config(item, x, env, out, "%s[%d]" % (path, i))
        return
    if fam == "dict":
        if not isinstance(pv, dict):
            out.append((path, fam, "dict field holds %s" % type(pv).__name__))
            return
        kf, vf = f.get("keyf"), f.get("valf")
        for k, x in pv.items():
            if kf is not None:
                inv_value(kf, k, env, out, "%s{key %r}" % (path, k))
            if vf is not None:
                inv_value(vf, x, env, out, "%s[%r]" % (path, k))
        return
    ok, norm = model.accepts(f, pv, env)
    if ok is None:
        return
    if not ok:
        out.append((path, fam, "%r violates the constraints %r of its %s field" % (pv, p, fam)))
    elif not eqstar(norm, pv):
        out.append((path, fam, "%r is not in normal form (%r) for its %s field %r" % (pv, norm, fam, p)))


def inv_config(node, values, env, out, prefix=""):
    kids = {ch["key"]: ch for ch in model.fields_of(node)["fields"]}
    for key, v in values.items():
        ch = kids.get(key)
        path = (prefix + "." if prefix else "") + str(key)
        if ch is None:
            continue  # dynamic extra field: unconstrained
        if ch["kind"] in ("schema", "ctype"):
            if isinstance(v, dict):
                inv_config(ch, v, env, out, path)
            elif v is not None:
                out.append((path, "sub-config", "sub-configuration slot holds %r" % (v,)))
        else:
            inv_value(ch, v, env, out, path)


# ------------------------------------------------------------------------------------------------
# predictions


def flags_for_tree(node, tree, prefix, out):
    """User-defined flags of a (sub)configuration freshly built from `tree`."""
    for ch in model.stored_children(node):
        path = (prefix + "." if prefix else "") + ch["key"]
        present = isinstance(tree, dict) and ch["key"] in tree
        out[path] = bool(present)
        sub = tree.get(ch["key"]) if present else None
        if ch["kind"] in ("schema", "ctype"):
            flags_for_tree(ch, sub if isinstance(sub, dict) else {}, path, out)
        elif ch["family"] == "list" and ch.get("item") and ch["item"]["kind"] != "field":
            items = sub if present else ch.get("params", {}).get("default")
            if isinstance(items, (list, tuple)):
                for i, it in enumerate(items):
                    if isinstance(it, dict):
                        flags_for_tree(ch["item"], it, "%s[%d]" % (path, i), out)
    if isinstance(tree, dict) and model.fields_of(node).get("dynamic"):
        known = {ch["key"] for ch in model.fields_of(node)["fields"]}
        for k in tree:
            if k not in known:
                out[(prefix + "." if prefix else "") + k] = True


def drop_flags(flags, prefix):
    for k in [k for k in flags if k != prefix and under(k, prefix)]:
        del flags[k]


class Prediction:
    def __init__(self, values, flags):
        self.values = values  # expected plain image with model normal forms (Unknown = unconstrained)
        self.flags = flags  # expected user-defined flags (Unknown = unconstrained)
        self.unpredicted = False


# ------------------------------------------------------------------------------------------------
# generator of histories


def add_twins(rng, schema, prob=0.5):
    """For typed list/dict fields add a sibling of the same shape whose item fields have no constraints or
    transforms: values read from it are typed proxies holding items the original must validate again."""
    import copy as _copy

    sch = model.fields_of(schema)
    used = {ch["key"] for ch in sch["fields"]}
    for ch in list(sch["fields"]):
        if ch["kind"] in ("schema", "ctype"):
            add_twins(rng, ch, prob)
            continue
        if ch["family"] not in ("list", "dict") or not _typed(ch) or rng.random() > prob:
            continue
        twin = _copy.deepcopy(ch)
        twin["key"] = ch["key"] + "_tw"
        if twin["key"] in used:
            continue
        for sub in ("item", "keyf", "valf"):
            node = twin.get(sub)
            if node and node.get("kind") == "field":
                fam = node["family"]
                loose = {"str": "str", "loglevel": "str", "appmode": "str", "ipv4": "str", "net": "str", "host": "str", "url": "str",
                         "file": "str", "int": "int", "port": "int", "float": "float"}.get(fam)
                if loose:
                    twin[sub] = {"kind": "field", "family": loose, "params": {}}
        twin["params"] = {k: v for k, v in twin.get("params", {}).items() if k not in ("default", "required")}
        twin["twin_of"] = ch["key"]
        ch["has_twin"] = True
        sch["fields"].append(twin)
        used.add(twin["key"])


def all_paths(root, through_lists=True):
    return [(p, n) for p, n in spec.walk(root) if through_lists or "[]" not in p]


def gen_ops(rng, root, env, n, profile="mixed", bad=0.3):
    """Operation list for a schema spec.  Paths through configuration lists use index placeholders
    '[]' that are resolved at run time against the current length."""
    nodes = all_paths(root)
    leaves = [(p, nd) for p, nd in nodes if nd["kind"] == "field" and nd["family"] not in ("virtual", "method", "include")]
    subs = [(p, nd) for p, nd in nodes if nd["kind"] in ("schema", "ctype")]
    lists = [(p, nd) for p, nd in leaves if nd["family"] == "list"]
    dicts = [(p, nd) for p, nd in leaves if nd["family"] == "dict"]
    ops = []
    for _ in range(n):
        kind = weighted(rng, [(8, "set"), (2, "set_sub" if subs else "set"), (1.2, "ctor"), (2, "load_tree"), (1.5, "loads"),
                              (1, "cmdline"), (2, "reset"), (5 if lists else 0, "listop"), (4 if dicts else 0, "dictop"),
                              (0.7, "set_dynamic"), (1.5 if len(leaves) > 1 else 0, "copy"), (1.2, "serialize")])
        want = "invalid" if rng.random() < bad else "valid"
        if kind == "set" and leaves:
            p, nd = rng.choice(leaves)
            v = gen.one_value(rng, nd, want if rng.random() < 0.9 else "any", env)
            ops.append({"op": "set", "route": rng.choice(["attr", "attr", "item"]), "path": p, "value": v})
        elif kind == "set_sub" and subs:
            p, nd = rng.choice(subs)
            tree = gen.tree_for(rng, nd, env, valid=(want == "valid"))
            if want == "invalid" and rng.random() < 0.3:
                tree = rng.choice([5, "x", [1], None, True])
            ops.append({"op": "set", "route": rng.choice(["attr", "item"]), "path": p, "value": tree,
                        "as_config": want == "valid" and rng.random() < 0.35, "foreign": rng.random() < 0.12})
        elif kind == "ctor":
            kw = {}
            for ch in model.stored_children(root):
                if rng.random() < 0.5:
                    continue
                if ch["kind"] in ("schema", "ctype"):
                    kw[ch["key"]] = gen.tree_for(rng, ch, env, valid=(want == "valid"))
                elif ch["family"] != "include":
                    kw[ch["key"]] = gen.one_value(rng, ch, want if rng.random() < 0.5 else "valid", env)
            ops.append({"op": "ctor", "kwargs": kw})
        elif kind in ("load_tree", "loads"):
            tree = gen.tree_for(rng, root, env, valid=(want == "valid"), partial=0.5)
            op = {"op": kind, "tree": tree}
            if kind == "load_tree" and (len(tree) + len(ops)) % 4 == 0:
                op["no_validate"] = True  # load_tree(tree, validate=False) - used only when the tree is acceptable anyway
            if kind == "loads":
                op["fmt"] = rng.choice(FORMATS)
                if rng.random() < 0.35:
                    op["corrupt"] = rng.choice(["truncate:%d" % rng.randrange(1, 8), "wrongroot", "badutf8", "empty",
                                                "garbage", "seqroot", "seqroot", "multidoc", "scalarroot", "pairsroot", "pairsroot"])
            ops.append(op)
        elif kind == "cmdline":
            argv = []
            for p, nd in rng.sample(leaves, min(len(leaves), rng.choice([0, 1, 2, 3]))):
                if "[]" in p:
                    continue
                opt = "--" + p.replace(".", "-").replace("_", "-").lower()
                if nd["family"] in ("bool", "flag"):
                    argv.append(opt if rng.random() < 0.5 else "--no-" + opt[2:])
                elif nd["family"] in ("str", "loglevel", "appmode", "int", "float", "port", "ipv4", "net", "host", "url", "file",
                                      "secure"):
                    v = gen.one_value(rng, nd, want, env)
                    if isinstance(v, (str, int, float)) and not isinstance(v, bool) and not str(v).startswith("-"):
                        argv += [opt, str(v)]
            ops.append({"op": "cmdline", "argv": argv})
        elif kind == "reset" and nodes:
            p, nd = rng.choice(nodes)
            ops.append({"op": "reset", "path": p, "route": rng.choice(["parent", "dotted"])})
        elif kind == "listop" and lists:
            p, nd = rng.choice(lists)
            name = rng.choice(LIST_OPS)
            item = nd.get("item")
            op = {"op": "listop", "path": p, "name": name, "i": rng.randrange(-3, 5), "n": rng.choice([0, 1, 2])}

            def ival(w=want):
                if item is None:
                    return rng.choice(gen.WILD)
                if item["kind"] == "field":
                    return gen.one_value(rng, item, w, env)
                t = gen.tree_for(rng, item, env, valid=(w == "valid"))
                return t if rng.random() < 0.85 or w == "valid" else rng.choice([5, "x", None])

            op["x"] = ival()
            op["as_config"] = item is not None and item["kind"] != "field" and rng.random() < 0.4
            if op["as_config"] and rng.random() < 0.7:
                # every value fine on its own, the whole item possibly incomplete (required fields left out)
                op["x"] = gen.tree_for(rng, item, env, valid=True, partial=rng.choice([0.5, 0.9, 1.0]))
            op["xs"] = [ival("valid" if rng.random() < 0.8 else want) for _ in range(rng.choice([0, 1, 2, 3]))]
            op["iter"] = rng.choice(["list", "tuple", "iter", "gen"])
            op["index_object"] = rng.random() < 0.4
            op["a"], op["b"] = rng.choice([None, 0, 1, -1]), rng.choice([None, 0, 2, -1])
            ops.append(op)
        elif kind == "dictop" and dicts:
            p, nd = rng.choice(dicts)
            name = rng.choice(DICT_OPS)
            kf, vf = nd.get("keyf"), nd.get("valf")

            def kv(w=want):
                k = gen.one_value(rng, kf, w if rng.random() < 0.5 else "valid", env) if kf else rng.choice(["k1", "k2", "K", 7])
                v = gen.one_value(rng, vf, w, env) if vf else rng.choice(gen.WILD)
                return [k, v]

            op = {"op": "dictop", "path": p, "name": name, "kv": kv(),
                  "pairs": [kv("valid" if rng.random() < 0.8 else want) for _ in range(rng.choice([0, 1, 2]))],
                  "kind": rng.choice(["dict", "pairs", "iter"])}
            ops.append(op)
        elif kind == "serialize":
            ops.append({"op": "serialize", "how": rng.choice(["to_tree", "to_tree_virtual", "dumps", "save", "stub", "asdict",
                                                               "parser"]),
                        "fmt": rng.choice(FORMATS), "mask": rng.choice([None, None, "*", "xx"])})
        elif kind == "copy":
            # assign to one field the live value (possibly a typed proxy) read from another field
            (src, snd), (dst, dnd) = rng.sample(leaves, 2)
            same = [(p, nd) for p, nd in leaves if nd["family"] == dnd["family"] and p != dst]
            twins = [(p, nd) for p, nd in same if p == dst + "_tw" or dst == p + "_tw"]
            if twins and rng.random() < 0.85:
                src, snd = rng.choice(twins)
            elif same and rng.random() < 0.7:
                src, snd = rng.choice(same)
            op = {"op": "copy", "src": src, "dst": dst, "route": rng.choice(["attr", "item"])}
            if "[]" in dst and dnd["family"] in ("list", "dict") and rng.random() < 0.6:
                # the same field of ANOTHER item of the same list (one field object, two configurations)
                op["src"], op["src_shift"] = dst, 1
            ops.append(op)
        elif kind == "set_dynamic":
            dyn = [""] + [p for p, nd in subs if "[]" not in p]
            p = rng.choice(dyn)
            ops.append({"op": "set", "route": "attr", "path": (p + "." if p else "") + rng.choice(["extra1", "extra2", "zz9"]),
                        "value": rng.choice([1, "x", [1, 2], {"a": 1}, None]), "dynamic": True})
    return ops


class _Index:
    def __init__(self, i):
        self.i = i

    def __index__(self):
        return self.i

    def __repr__(self):
        return "Index(%d)" % self.i


def alias_probe_ops(rng, schema, env):
    """Operation sequences that would expose a typed list / dict value stored by reference in two items of one list of
    configurations: fill the list with two items, assign the live value of one item's field to the same field of the
    other item, change it in place."""
    out = []
    # the same (hashable) tuple assigned twice to a typed list, with an in-place change in between: the second assignment
    # gives the list of the tuple's items again, nothing remembered from the first
    for path, nd in all_paths(schema):
        if "[]" in path or nd["kind"] != "field" or nd["family"] != "list" or not _typed(nd) or nd["item"]["kind"] != "field":
            continue
        if nd["item"]["family"] in ("list", "dict", "any", "secure", "challenge", "bytes"):
            continue
        v = gen.one_value(rng, nd, "valid", env)
        x = gen.one_value(rng, nd["item"], "valid", env)
        if isinstance(v, (list, tuple)) and len(v) >= 1 and x is not None:
            try:
                hash(tuple(v))
            except TypeError:
                continue
            if any(isinstance(i, float) and i != i for i in v):
                continue
            out.append([{"op": "set", "route": "attr", "path": path, "value": tuple(v)},
                        {"op": "listop", "path": path, "name": "append", "i": 0, "n": 1, "iter": "list", "a": None, "b": None, "x": x, "xs": [x]},
                        {"op": "set", "route": rng.choice(["attr", "item"]), "path": path, "value": tuple(v), "tuple_again": True}])
    for path, nd in all_paths(schema):
        if path.count("[]") != 1 or nd["kind"] != "field" or nd["family"] not in ("list", "dict") or not _typed(nd):
            continue
        if nd["family"] == "list" and nd["item"]["kind"] != "field":
            continue
        list_path = path[: path.index("[]")]
        if "." in path[path.index("[]") + 3:]:
            continue
        lnode = spec.node_at(schema, list_path)
        items = [gen.tree_for(rng, lnode["item"], env, valid=True, partial=0.0) for _ in range(2)]
        if not all(model.accepts_tree(lnode["item"], t, env)[0] is True and nd["key"] in t and t[nd["key"]] for t in items):
            continue
        seq = [{"op": "set", "route": "attr", "path": list_path, "value": items},
               {"op": "copy", "src": path, "dst": path, "src_shift": 1, "route": "attr"}]
        if nd["family"] == "list":
            x = gen.one_value(rng, nd["item"], "valid", env)
            seq.append({"op": "listop", "path": path, "name": "append", "i": 0, "n": 1, "iter": "list", "a": None, "b": None, "x": x, "xs": [x]})
        else:
            kf, vf = nd.get("keyf"), nd.get("valf")
            k = gen.one_value(rng, kf, "valid", env) if kf else "zq%d" % rng.randrange(9)
            v = gen.one_value(rng, vf, "valid", env) if vf else 1
            seq.append({"op": "dictop", "path": path, "name": "setitem", "kv": [k, v], "pairs": [[k, v]], "kind": "dict"})
        out.append(seq)
    return out


# ------------------------------------------------------------------------------------------------
# the driver


class Driver:
    def __init__(self, ctx, res, root_spec, env):
        self.ctx, self.res, self.cc = ctx, res, ctx.cc
        self.env = env
        self.mapping = {"$FX": ctx.sb.fx, "$DIR": ctx.dir, "$CWD": ctx.sb.root}
        self.root = spec.resolve(root_spec, self.mapping)
        self.built = spec.build(self.cc, self.root)
        self.keyfile = os.path.join(ctx.dir, "hist.key")
        self.cfg = self.cc.Config(self.built.schema, key_filename=self.keyfile)

    # -- helpers
    def snapshot(self, cfg=None):
        return Snapshot(cfg if cfg is not None else self.cfg)

    def concrete(self, path, cfg=None, shift=0):
        """Resolve '[]' placeholders against current list lengths; None when impossible."""
        cfg = cfg if cfg is not None else self.cfg
        out, cur = [], cfg
        for seg in path.split("."):
            name = seg.replace("[]", "")
            try:
                # item access on configurations: a key may be spelled like a method of the Config class
                cur = cur[name] if hasattr(type(cur), "_get_value") else getattr(cur, name)
            except Exception:
                return None
            if seg.endswith("[]"):
                if not isinstance(cur, list) or len(cur) == 0:
                    return None
                i = (len(path) + len(cur) + shift) % len(cur)
                cur = cur[i]
                out.append("%s[%d]" % (name, i))
            else:
                out.append(name)
        return ".".join(out)

    def node(self, path):
        return spec.node_at(self.root, re.sub(r"\[\d+\]", "[0]", path))

    def fresh_defaults(self, node):
        return model.defaults_tree(node, self.env)

    # -- executing one operation: returns dict(kind, raised, pred, ...), or None when skipped
    def step(self, op):
        op = spec.resolve(op, self.mapping)
        handler = getattr(self, "_op_" + op["op"])
        return handler(op)

    def _run(self, fn):
        try:
            fn()
            return None
        except Exception as exc:
            # what a caller does with an error: print it, look at its path (reading an error is an operation too - it must
            # not change the configuration or the schema; the monitors compare states after the step)
            try:
                str(exc)
                repr(exc)
                getattr(exc, "ref_path", None)
            except Exception:
                pass
            return exc

    def _op_set(self, op):
        cc, cfg = self.cc, self.cfg
        path = self.concrete(op["path"]) if not op.get("dynamic") else op["path"]
        if path is None:
            return None
        parent_path, key = spec.split_parent(path)
        if op.get("dynamic"):
            if "[" in path:
                return None
            try:
                parent = spec.get_path(cfg, parent_path) if parent_path else cfg
            except Exception:
                return None
            pnode = self.node(parent_path) if parent_path else self.root
            if pnode is None or not isinstance(parent, cc.Config):
                return None
            dynamic = model.fields_of(pnode).get("dynamic")
            before = self.snapshot()
            exc = self._run(lambda: setattr(parent, key, op["value"]))
            pred = Prediction(clone(before.values), dict(before.flags))
            if dynamic:
                try:
                    holder = pget(pred.values, parent_path) if parent_path else pred.values
                    holder[key] = op["value"]
                    pred.flags[path] = True
                except Exception:
                    pred.unpredicted = True
                label = True
            else:
                label = False
            return {"kind": "set-dynamic", "path": path, "raised": exc, "label": label, "pred": pred, "before": before,
                    "listed": True}
        nd = self.node(path)
        if nd is None:
            return None
        if op["route"] == "item" and "[" in path:
            op = dict(op, route="attr")
        try:
            parent = spec.get_path(cfg, parent_path) if parent_path else cfg
        except Exception:
            return None
        if not isinstance(parent, cc.Config):
            return None
        value = op["value"]
        if nd["kind"] in ("schema", "ctype"):
            label, norm = model.accepts_tree(nd, value, self.env) if isinstance(value, dict) else (False, None)
            rv = spec.realize(cc, value)
            if op.get("as_config") and label is True:
                inst = self._instance(nd, path, value)
                if inst is None:
                    return None
                rv = inst
            if op.get("foreign"):
                # a configuration of an UNRELATED schema that happens to use the same names (all of them texts that no
                # other field type takes): it is not a value for this section
                other = cc.Schema()
                for ch in model.stored_children(nd):
                    if ch["kind"] == "field":
                        other[ch["key"]] = cc.StringField(default="not a value, really\n")
                other["zz_foreign_only"] = cc.StringField(default="x")
                rv, label, norm = other(), False, None
                self.res.count("configurations_of_another_schema_offered_to_sections")
            kind = "set-sub"
        else:
            label, norm = model.accepts(nd, value, self.env)
            rv = spec.realize(cc, value)
            kind = "set"
        before = self.snapshot()
        if op["route"] == "attr":
            exc = self._run(lambda: setattr(parent, key, rv))
        else:
            exc = self._run(lambda: cfg.__setitem__(path, rv))
        pred = Prediction(clone(before.values), dict(before.flags))
        if label is True:
            pset(pred.values, path, norm)
            drop_flags(pred.flags, path)
            pred.flags[path] = True
            if kind == "set-sub":
                flags_for_tree(nd, value, path, pred.flags)
                pred.flags[path] = True
            elif nd["family"] == "list" and nd.get("item") and nd["item"]["kind"] != "field" and isinstance(value, (list, tuple)):
                for i, it in enumerate(value):
                    if isinstance(it, dict):
                        flags_for_tree(nd["item"], it, "%s[%d]" % (path, i), pred.flags)
        else:
            pred.unpredicted = label is None
        return {"kind": kind, "path": path, "raised": exc, "label": label, "norm": norm, "pred": pred, "before": before,
                "listed": True, "node": nd, "value": value}

    def _op_serialize(self, op):
        """Read-only renderings of the configuration: whatever they return or raise, nothing may change."""
        cc, cfg = self.cc, self.cfg
        before = self.snapshot()
        how = op["how"]
        if how in ("to_tree", "to_tree_virtual", "dumps", "save") and _nontext_secret(self.root, before.values):
            return None  # an (untyped) SecureField holding a number would be "encrypted" as bytearray(number): out of scope

        def fn():
            if how == "to_tree":
                cfg.to_tree(sensitive_mask=op.get("mask"))
            elif how == "to_tree_virtual":
                cfg.to_tree(virtual=True)
            elif how == "dumps":
                cfg.dumps(op["fmt"], sensitive_mask=op.get("mask"))
            elif how == "save":
                cfg.save(os.path.join(self.ctx.dir, "ser.out"), op["fmt"])
            elif how == "stub":
                import contextlib
                import io

                with contextlib.redirect_stdout(io.StringIO()):
                    cc.generate_stub(cfg, "Ser")
            elif how == "asdict":
                cc.asdict(cfg)
            else:
                cc.generate_argparse_parser(cfg)

        exc = self._run(fn)
        pred = Prediction(clone(before.values), dict(before.flags))
        return {"kind": "serialize", "path": "", "raised": None, "label": True, "pred": pred, "before": before, "listed": False,
                "serialize_error": exc}

    def _op_dict_superset(self, op):
        """Assign to a typed dict field a map that repeats all its current entries and adds new ones."""
        cc, cfg = self.cc, self.cfg
        path = self.concrete(op["path"])
        if path is None:
            return None
        nd = self.node(path)
        try:
            cur = spec.get_path(cfg, path)
        except Exception:
            return None
        if not isinstance(cur, dict) or nd is None or nd["kind"] != "field" or nd["family"] != "dict":
            return None
        new = dict(cur)
        for k, v in op["add"]:
            try:
                new[spec.realize(cc, k)] = spec.realize(cc, v)
            except TypeError:
                return None
        label, norm = model.accepts(nd, plain(new), self.env)
        parent_path, key = spec.split_parent(path)
        try:
            parent = spec.get_path(cfg, parent_path) if parent_path else cfg
        except Exception:
            return None
        before = self.snapshot()
        if op.get("route") == "item" and "[" not in path:
            exc = self._run(lambda: cfg.__setitem__(path, new))
        else:
            exc = self._run(lambda: setattr(parent, key, new))
        pred = Prediction(clone(before.values), dict(before.flags))
        if label is True:
            pset(pred.values, path, norm)
            pred.flags[path] = True
        else:
            pred.unpredicted = label is None
        return {"kind": "set", "path": path, "raised": exc, "label": label, "norm": norm, "pred": pred, "before": before,
                "listed": True, "node": nd, "value": plain(new), "superset": True}

    def _op_list_reuse(self, op):
        """Assign to a list-of-configurations field a list that re-uses the configuration objects it holds now (or
        those of another list with the same item type) and ends with a rejected element; or append / insert such a
        live object, made invalid in place first, into another list."""
        cc, cfg = self.cc, self.cfg
        path = self.concrete(op["path"])
        if path is None:
            return None
        nd = self.node(path)
        try:
            cur = spec.get_path(cfg, path)
            src = spec.get_path(cfg, self.concrete(op["src"])) if op.get("src") else cur
        except Exception:
            return None
        if nd is None or nd["kind"] != "field" or nd["family"] != "list" or not nd.get("item") or nd["item"]["kind"] == "field":
            return None
        if not isinstance(src, list) or not len(src) or not all(isinstance(it, cc.Config) for it in src):
            return None
        parent_path, key = spec.split_parent(path)
        try:
            parent = spec.get_path(cfg, parent_path) if parent_path else cfg
        except Exception:
            return None
        bad = spec.realize(cc, copy.deepcopy(op["bad"]))
        label = model.accepts_tree(nd["item"], bad, self.env)[0] if isinstance(bad, dict) else False
        if label is not False:
            return None
        new = list(src) + [bad]
        before = self.snapshot()
        if op.get("route") == "item" and "[" not in path:
            exc = self._run(lambda: cfg.__setitem__(path, new))
        else:
            exc = self._run(lambda: setattr(parent, key, new))
        pred = Prediction(clone(before.values), dict(before.flags))
        return {"kind": "set", "path": path, "raised": exc, "label": False, "pred": pred, "before": before,
                "listed": True, "node": nd, "reuse": True}

    def _op_set_grown_copy(self, op):
        """Assign to a typed list / dict field a typed container derived from the one it holds (proxy + [x], proxy.copy()
        grown by one entry, proxy | {...}) - or the plain equivalent - that the field's own validator callback rejects
        for its size."""
        cc, cfg = self.cc, self.cfg
        path = self.concrete(op["path"])
        if path is None:
            return None
        nd = self.node(path)
        try:
            cur = spec.get_path(cfg, path)
        except Exception:
            return None
        if nd is None or nd["kind"] != "field" or not isinstance(cur, (cc.ListProxy, cc.DictProxy)) or len(cur) < 2:
            return None
        how = op["how"]
        try:
            if isinstance(cur, cc.ListProxy):
                x = spec.realize(cc, op["x"])
                if how == "add":
                    new = cur + [x]
                elif how == "copy":
                    new = cur.copy()
                    new.append(x)
                else:
                    new = list(cur) + [x]
            else:
                k, v = spec.realize(cc, op["kv"][0]), spec.realize(cc, op["kv"][1])
                if k in cur:
                    return None
                if how == "add":
                    new = cur | {k: v}
                elif how == "copy":
                    new = cur.copy()
                    new[k] = v
                else:
                    new = dict(cur)
                    new[k] = v
        except Exception:
            return None
        parent_path, key = spec.split_parent(path)
        try:
            parent = spec.get_path(cfg, parent_path) if parent_path else cfg
        except Exception:
            return None
        before = self.snapshot()
        if op.get("route") == "item" and "[" not in path:
            exc = self._run(lambda: cfg.__setitem__(path, new))
        else:
            exc = self._run(lambda: setattr(parent, key, new))
        pred = Prediction(None, None)
        pred.unpredicted = True
        return {"kind": "set", "path": path, "raised": exc, "label": None, "pred": pred, "before": before,
                "listed": True, "node": nd, "grown_copy": how}

    def _op_set_dict_dotted(self, op):
        """cfg['path.to.dict.key'] = value: a dotted path that continues into a typed dict value."""
        cc, cfg = self.cc, self.cfg
        path = self.concrete(op["path"])
        if path is None or "[" in path:
            return None
        nd = self.node(path)
        try:
            cur = spec.get_path(cfg, path)
        except Exception:
            return None
        if nd is None or nd["kind"] != "field" or nd["family"] != "dict" or not (isinstance(cur, dict) or cur is None):
            return None
        k, v = op["kv"]
        if not isinstance(k, str) or ("." in k and not op.get("deep")) or not k:
            return None
        kf, vf = nd.get("keyf"), nd.get("valf")
        a = model.accepts(kf, k, self.env)[0] if kf else True
        b = model.accepts(vf, v, self.env)[0] if vf else True
        label = False if (a is False or b is False) else (None if (a is None or b is None) else True)
        if cur is None and label is not False:
            return None  # (whether an acceptable entry starts a map where the field holds none is not judged)
        before = self.snapshot()
        exc = self._run(lambda: cfg.__setitem__(path + "." + k, spec.realize(cc, v)))
        pred = Prediction(clone(before.values), dict(before.flags))
        pset(pred.values, path, Unknown)
        return {"kind": "set", "path": path, "raised": exc, "label": label, "pred": pred, "before": before, "listed": True,
                "node": nd, "value": {k: v}, "dotted_into_dict": True}

    def _op_copy(self, op):
        cc, cfg = self.cc, self.cfg
        src, dst = self.concrete(op["src"], shift=op.get("src_shift", 0)), self.concrete(op["dst"])
        if src is None or dst is None or src == dst:
            return None
        nd = self.node(dst)
        if nd is None or nd["kind"] != "field":
            return None
        try:
            value = spec.get_path(cfg, src)
        except Exception:
            return None
        if isinstance(value, cc.Config):
            return None
        if isinstance(value, (list, dict)):
            # only typed proxies without configuration items, into typed containers: anything else is stored by
            # reference (plain Python aliasing of one mutable object in two fields), which no property forbids
            if not isinstance(value, (cc.ListProxy, cc.DictProxy)) or _holds_config(cc, value):
                return None
            if nd["family"] not in ("list", "dict") or not _typed(nd):
                return None
        if isinstance(value, tuple) and nd["family"] != "challenge":
            return None  # a digest value is a tuple: not a sensible argument for other fields
        pv = plain(value)
        label, norm = model.accepts(nd, pv, self.env)
        parent_path, key = spec.split_parent(dst)
        try:
            parent = spec.get_path(cfg, parent_path) if parent_path else cfg
        except Exception:
            return None
        if not isinstance(parent, cc.Config):
            return None
        before = self.snapshot()
        if op["route"] == "attr" or "[" in dst:
            exc = self._run(lambda: setattr(parent, key, value))
        else:
            exc = self._run(lambda: cfg.__setitem__(dst, value))
        pred = Prediction(clone(before.values), dict(before.flags))
        if label is True:
            pset(pred.values, dst, norm)
            drop_flags(pred.flags, dst)
            pred.flags[dst] = True
        else:
            pred.unpredicted = label is None
        return {"kind": "set", "path": dst, "raised": exc, "label": label, "norm": norm, "pred": pred, "before": before,
                "listed": True, "node": nd, "value": pv, "copied_from": src}

    def _instance(self, nd, path, tree):
        """A configuration instance of the sub-schema at `path`, loaded with `tree`."""
        cc = self.cc
        try:
            if nd["kind"] == "ctype":
                cls = self.built.types[nd["name"]]
                inst = cls()
            else:
                sub = self.built.schema[re.sub(r"\[\d+\]", "", path)] if "[" not in path else None
                if sub is None:
                    return None
                inst = sub()
            inst.load_tree(copy.deepcopy(tree))
            return inst
        except Exception:
            return None

    def _op_ctor(self, op):
        cc = self.cc
        kw = {k: spec.realize(cc, v) for k, v in op["kwargs"].items()}
        label, values, flags = True, self.fresh_defaults(self.root), {}
        flags_for_tree(self.root, {}, "", flags)
        kids = {ch["key"]: ch for ch in model.stored_children(self.root)}
        for k, v in op["kwargs"].items():
            ch = kids.get(k)
            if ch is None:
                label = None
                continue
            if ch["kind"] in ("schema", "ctype"):
                ok, n = model.accepts_tree(ch, v, self.env) if isinstance(v, dict) else (False, None)
                if ok:
                    drop_flags(flags, k)
                    flags_for_tree(ch, v, k, flags)
            else:
                ok, n = model.accepts(ch, v, self.env)
                if ok and ch["family"] == "list" and ch.get("item") and ch["item"]["kind"] != "field" and isinstance(v, (list, tuple)):
                    for i, it in enumerate(v):
                        if isinstance(it, dict):
                            flags_for_tree(ch["item"], it, "%s[%d]" % (k, i), flags)
            if ok is True:
                values[k] = n
                flags[k] = True
            elif ok is False:
                label = False if label is not None else None
            else:
                label = None
        before = self.snapshot()
        new = [None]

        def build():
            new[0] = self.cc.Config(self.built.schema, key_filename=self.keyfile, **kw) if len(kw) % 2 else self.built.schema(**kw)

        exc = self._run(build)
        pred = Prediction(values, flags)
        pred.unpredicted = label is not True
        out = {"kind": "ctor", "path": "", "raised": exc, "label": label, "pred": pred, "before": before, "listed": True,
               "fresh": True}
        if exc is None:
            if not (len(kw) % 2):
                new[0]._key_filename = self.keyfile
            self.cfg = new[0]
            out["replaced"] = True
        return out

    def _predict_load(self, tree, before):
        """Prediction for loading `tree` over the observed state; None when unspecified."""
        values = clone(before.values)
        flags = dict(before.flags)
        kids = {ch["key"]: ch for ch in model.fields_of(self.root)["fields"]}
        if not isinstance(tree, dict):
            return False, None
        unknown = False
        for k, v in tree.items():
            ch = kids.get(k)
            if ch is None:
                if model.fields_of(self.root).get("dynamic"):
                    values[k] = v
                    flags[k] = True
                    continue
                return False, None
            if ch["kind"] in ("schema", "ctype"):
                ok, n = model.accepts_tree(ch, v, self.env) if isinstance(v, dict) else (False, None)
                if ok is True:
                    drop_flags(flags, k)
                    flags_for_tree(ch, v, k, flags)
            else:
                ok, n = model.accepts_disk(ch, v, self.env)
                if ok is True and ch["family"] == "list" and ch.get("item") and ch["item"]["kind"] != "field":
                    drop_flags(flags, k)
                    if isinstance(v, (list, tuple)):
                        for i, it in enumerate(v):
                            if isinstance(it, dict):
                                flags_for_tree(ch["item"], it, "%s[%d]" % (k, i), flags)
            if ok is False:
                return False, None
            if ok is None:
                unknown = True
                continue
            values[k] = n
            flags[k] = True
        if unknown:
            return None, None
        # whole-configuration validation on the resulting values
        probe = _model_view(values)
        ok = model.validate_values(self.root, probe)
        if ok is not True:
            return ok, None
        return True, Prediction(values, flags)

    def _op_load_tree(self, op):
        before = self.snapshot()
        label, pred = self._predict_load(op["tree"], before)
        tree = spec.realize(self.cc, copy.deepcopy(op["tree"]))
        if op.get("no_validate") and label is True:
            self.res.count("trees_loaded_without_the_final_validation")
            exc = self._run(lambda: self.cfg.load_tree(tree, validate=False))
        else:
            exc = self._run(lambda: self.cfg.load_tree(tree))
        if pred is None:
            pred = Prediction(None, None)
            pred.unpredicted = True
        return {"kind": "load_tree", "path": "", "raised": exc, "label": label, "pred": pred, "before": before,
                "listed": False}

    def _op_loads(self, op):
        cc = self.cc
        fmt = op["fmt"]
        from .trees import in_domain

        tree = op["tree"]
        if not _plain_tree(tree) or not in_domain(fmt, tree):
            return None
        try:
            doc = cc.ConfigFormat.get(fmt).dumps(self.cfg, tree)
            for name, content in (op.get("make_files") or {}).items():
                # include files the document refers to: a good one (a tree in the same format) or an unparsable one
                path = os.path.join(self.ctx.dir, name)
                with open(path, "wb") as fp:
                    if content == "corrupt":
                        good = cc.ConfigFormat.get(fmt).dumps(self.cfg, {"zz": 1})
                        fp.write(corrupt_doc(good, fmt, "garbage")[0])
                    else:
                        fp.write(cc.ConfigFormat.get(fmt).dumps(self.cfg, content))
        except Exception:
            return None
        corrupt = op.get("corrupt")
        parse_fails = False
        if corrupt in ("seqroot", "scalarroot", "multidoc", "pairsroot"):
            # wrong roots that begin like a good document: a sequence whose first element is the valid map, a YAML
            # stream whose first document is the valid map, a scalar
            try:
                if corrupt == "multidoc":
                    if fmt != "yaml":
                        return None
                    doc = doc.rstrip(b"\n") + b"\n---\njust a string\n"
                elif fmt not in ("json", "yaml", "pickle"):
                    return None  # XML always has a map at its root, BSON cannot encode another one
                else:
                    if corrupt == "pairsroot":
                        # a sequence of [key, value] pairs - dict() would make a map of it - that ends in something else
                        wrong = [[k, v] for k, v in tree.items()] + ["zq", 7][:1 + len(tree) % 2]
                    else:
                        wrong = [tree, 7] if corrupt == "seqroot" else 7
                    doc = cc.ConfigFormat.get(fmt).dumps(self.cfg, wrong)
            except Exception:
                return None
            parse_fails = True
        elif corrupt:
            doc, parse_fails = corrupt_doc(doc, fmt, corrupt)
            if doc is None:
                return None
        before = self.snapshot()
        if parse_fails or corrupt or op.get("unpredicted"):
            # (unpredicted: an include file of the document supplies values - what the load makes of them is not judged,
            # only that a failure leaves the configuration as it was)
            label, pred = (False if parse_fails else None), Prediction(None, None)
            pred.unpredicted = True
        else:
            label, pred = self._predict_load(tree, before)
            if pred is None:
                pred = Prediction(None, None)
                pred.unpredicted = True
        if fmt in ("json", "yaml", "xml") and len(doc) % 3 == 0:
            # a third of the text documents are handed over as text instead of bytes
            try:
                doc = doc.decode()
                self.res.count("documents_given_as_text")
            except UnicodeDecodeError:
                pass
        exc = self._run(lambda: self.cfg.loads(doc, fmt))
        return {"kind": "loads", "path": "", "raised": exc, "label": label, "pred": pred, "before": before,
                "listed": bool(parse_fails), "parse_fails": parse_fails, "fmt": fmt}

    def _op_cmdline(self, op):
        import contextlib
        import io

        cc = self.cc
        before = self.snapshot()
        try:
            parser = cc.generate_argparse_parser(self.built.schema)
            with contextlib.redirect_stderr(io.StringIO()):
                args = parser.parse_args(list(op["argv"]))
        except SystemExit:
            return None
        except Exception:
            return None
        exc = self._run(lambda: cc.cmdline_args_override(self.cfg, args))
        pred = Prediction(None, None)
        pred.unpredicted = True
        return {"kind": "cmdline", "path": "", "raised": exc, "label": None, "pred": pred, "before": before, "listed": False}

    def _op_load_foreign_secret(self, op):
        """Load a tree whose value for a secret field was encrypted - with this configuration's key file - by the OTHER
        provider than the one the field declares (a file written by another tool or an older schema)."""
        import base64

        cc, cfg = self.cc, self.cfg
        path = op["path"]
        nd = self.node(path)
        if nd is None or nd["kind"] != "field" or nd["family"] != "secure" or "[" in path:
            return None
        declared = nd.get("params", {}).get("method", "best")
        other = "xor" if declared in ("aes", "best") else "aes"
        try:
            with cc.KeyFile(self.keyfile) as kf:
                sv = kf.encrypt(op["text"], method=other)
            tree = {}
            cur = tree
            parts = path.split(".")
            for seg in parts[:-1]:
                cur = cur.setdefault(seg, {})
            cur[parts[-1]] = {"method": sv.method, "ciphertext": base64.b64encode(sv.ciphertext).decode()}
        except Exception:
            return None
        before = self.snapshot()
        exc = self._run(lambda: cfg.load_tree(tree))
        pred = Prediction(None, None)
        pred.unpredicted = True
        return {"kind": "load-foreign-secret", "path": path, "raised": exc, "label": None, "pred": pred, "before": before, "listed": False}

    def _op_inner_mutate(self, op):
        """Change in place a typed list / dict that is itself an ITEM of the typed list / dict at `path` (list of lists,
        dict of lists, dict of dicts).  `op["x"]` is a valid new member for the inner container."""
        cc, cfg = self.cc, self.cfg
        path = self.concrete(op["path"])
        if path is None:
            return None
        try:
            outer = spec.get_path(cfg, path)
        except Exception:
            return None
        if not isinstance(outer, (list, tuple, dict)) or not len(outer):
            return None
        # (whatever the field handed out for its value: the typed containers it should be, or - a declared default given as
        # a tuple - something else that still holds lists)
        inner = [v for v in (outer.values() if isinstance(outer, dict) else outer) if isinstance(v, (list, dict))]
        if not inner:
            return None
        target = inner[op.get("which", 0) % len(inner)]
        before = self.snapshot()
        x = spec.realize(cc, op["x"])
        if isinstance(target, list):
            exc = self._run(lambda: target.append(x))
        else:
            exc = self._run(lambda: target.__setitem__(op.get("k", "zq"), x))
        pred = Prediction(None, None)
        pred.unpredicted = True
        return {"kind": "inner-mutate", "path": path, "raised": exc, "label": None, "pred": pred, "before": before, "listed": False,
                "inplace": True}

    def _op_set_forward(self, op):
        """Assign [v1, v2] to a computed field whose setter forwards v1 and v2 to two real fields of the same
        configuration, one after the other: what was accepted before a rejection stays assigned (and user-defined)."""
        cc, cfg = self.cc, self.cfg
        path = op["path"]
        nd = self.node(path)
        if nd is None or nd.get("family") != "virtual" or not nd.get("params", {}).get("forward") or "[" in path:
            return None
        parent_path, key = spec.split_parent(path)
        try:
            parent = spec.get_path(cfg, parent_path) if parent_path else cfg
        except Exception:
            return None
        k1, k2 = nd["params"]["forward"]
        p1, p2 = [(parent_path + "." if parent_path else "") + k for k in (k1, k2)]
        n1, n2 = self.node(p1), self.node(p2)
        v1, v2 = op["value"]
        ok1, norm1 = model.accepts(n1, v1, self.env)
        ok2, norm2 = model.accepts(n2, v2, self.env)
        if ok1 is None or ok2 is None:
            return None
        before = self.snapshot()
        exc = self._run(lambda: setattr(parent, key, [spec.realize(cc, v1), spec.realize(cc, v2)]))
        pred = Prediction(clone(before.values), dict(before.flags))
        if ok1:
            pset(pred.values, p1, norm1)
            pred.flags[p1] = True
            if ok2:
                pset(pred.values, p2, norm2)
                pred.flags[p2] = True
        return {"kind": "set-forward", "path": path, "raised": exc, "label": bool(ok1 and ok2), "pred": pred, "before": before,
                "listed": False, "node": nd, "partial": bool(ok1 and not ok2)}

    def _op_loads_raw(self, op):
        """Load a hand-written document (text given as it is, not produced by a codec)."""
        before = self.snapshot()
        doc = op["doc"]
        if isinstance(doc, str) and len(doc) % 2:
            doc = doc.encode()
        exc = self._run(lambda: self.cfg.loads(doc, op["fmt"]))
        pred = Prediction(None, None)
        pred.unpredicted = True
        return {"kind": "loads-raw", "path": "", "raised": exc, "label": None, "pred": pred, "before": before, "listed": False}

    def _op_cmdline_ns(self, op):
        """cmdline_args_override with a hand-made Namespace: known options, options a (dynamic or fixed) section
        does not declare, unknown top-level destinations.  The effect on the configuration is not predicted."""
        import argparse

        cc = self.cc
        before = self.snapshot()
        ns = argparse.Namespace()
        for dest, value in op["items"]:
            setattr(ns, dest, value)
        exc = self._run(lambda: cc.cmdline_args_override(self.cfg, ns, ignore=op.get("ignore")))
        pred = Prediction(None, None)
        pred.unpredicted = True
        return {"kind": "cmdline-ns", "path": "", "raised": exc, "label": None, "pred": pred, "before": before, "listed": False}

    def _op_reset(self, op):
        cc, cfg = self.cc, self.cfg
        path = self.concrete(op["path"])
        if path is None:
            return None
        nd = self.node(path)
        if nd is None or (nd["kind"] == "field" and nd["family"] in ("virtual", "method")):
            return None
        parent_path, key = spec.split_parent(path)
        try:
            parent = spec.get_path(cfg, parent_path) if parent_path else cfg
        except Exception:
            return None
        if not isinstance(parent, cc.Config):
            return None
        before = self.snapshot()
        if op.get("route") == "dotted" and "[" not in path:
            exc = self._run(lambda: cc.reset_value(cfg, path))
        else:
            exc = self._run(lambda: cc.reset_value(parent, key))
        pred = Prediction(clone(before.values), dict(before.flags))
        known, dflt = model.default_of(nd, self.env)
        pset(pred.values, path, dflt if known else Unknown)
        drop_flags(pred.flags, path)
        pred.flags[path] = False
        if nd["kind"] in ("schema", "ctype"):
            flags_for_tree(nd, {}, path, pred.flags)
        elif nd["family"] == "list" and nd.get("item") and nd["item"]["kind"] != "field":
            d = nd.get("params", {}).get("default")
            if isinstance(d, list):
                for i, it in enumerate(d):
                    if isinstance(it, dict):
                        flags_for_tree(nd["item"], it, "%s[%d]" % (path, i), pred.flags)
        return {"kind": "reset", "path": path, "raised": exc, "label": True, "pred": pred, "before": before, "listed": False,
                "node": nd}

    def _mkiter(self, vals, kind):
        if kind == "tuple":
            return tuple(vals)
        if kind == "iter":
            return iter(list(vals))
        if kind == "gen":
            return (v for v in list(vals))
        return list(vals)

    def _op_listop(self, op):
        cc = self.cc
        path = self.concrete(op["path"])
        if path is None:
            return None
        try:
            proxy = spec.get_path(self.cfg, path)
        except Exception:
            return None
        if not isinstance(proxy, list):
            return None
        nd = self.node(path)
        item = nd.get("item")
        name = op["name"]
        x = spec.realize(cc, copy.deepcopy(op["x"]))
        xs = [spec.realize(cc, copy.deepcopy(v)) for v in op["xs"]]

        def lab(v):
            if item is None:
                return True
            if item["kind"] == "field":
                return model.accepts(item, v, self.env)[0]
            return model.accepts_tree(item, v, self.env)[0] if isinstance(v, dict) else False

        if name == "imul" and item is not None and item["kind"] != "field":
            return None  # would alias one configuration object at several positions (plain list semantics)
        single = name in ("append", "insert", "setitem")
        if single:
            label = lab(op["x"])
        elif name in ("extend", "iadd", "setslice"):
            labs = [lab(v) for v in op["xs"]]
            label = False if False in labs else (None if None in labs else True)
        else:
            label = True
        i = op["i"]
        if op.get("index_object") and name in ("setitem", "insert", "pop", "delitem"):
            i = _Index(i)  # an integer-like object (numpy integers, enum members): the builtin takes it through __index__
        if op.get("as_config") and single and isinstance(op["x"], dict):
            # a configuration *object* (not a map) as the item: built outside, possibly invalid as a whole
            try:
                inst = proxy.item_field()
                inst.load_tree(copy.deepcopy(op["x"]), validate=False)
                x = inst
            except Exception:
                return None
        before = self.snapshot()
        fn = {
            "append": lambda: proxy.append(x), "insert": lambda: proxy.insert(i, x), "setitem": lambda: proxy.__setitem__(i, x),
            "extend": lambda: proxy.extend(self._mkiter(xs, op["iter"])), "iadd": lambda: proxy.__iadd__(self._mkiter(xs, op["iter"])),
            "setslice": lambda: proxy.__setitem__(slice(op["a"], op["b"]), self._mkiter(xs, op["iter"])),
            "imul": lambda: proxy.__imul__(op["n"]), "sort": lambda: proxy.sort(), "reverse": lambda: proxy.reverse(),
            "pop": lambda: proxy.pop(i), "remove": lambda: proxy.remove(x), "delitem": lambda: proxy.__delitem__(i),
            "clear": lambda: proxy.clear(),
        }[name]
        exc = self._run(fn)
        pred = Prediction(clone(before.values), dict(before.flags))
        pset(pred.values, path, Unknown)
        for k in [k for k in pred.flags if k != path and under(k, path)]:
            pred.flags[k] = Unknown
        pred.loose_flags_under = path
        return {"kind": "listop:" + name, "path": path, "raised": exc, "label": label, "pred": pred, "before": before,
                "listed": single, "inplace": True}

    def _op_dictop(self, op):
        cc = self.cc
        path = self.concrete(op["path"])
        if path is None:
            return None
        try:
            proxy = spec.get_path(self.cfg, path)
        except Exception:
            return None
        if not isinstance(proxy, dict):
            return None
        nd = self.node(path)
        kf, vf = nd.get("keyf"), nd.get("valf")
        name = op["name"]

        def lab(kv):
            a = model.accepts(kf, kv[0], self.env)[0] if kf else True
            b = model.accepts(vf, kv[1], self.env)[0] if vf else True
            return False if (a is False or b is False) else (None if (a is None or b is None) else True)

        k, v = (spec.realize(cc, copy.deepcopy(z)) for z in op["kv"])
        pairs = [(spec.realize(cc, copy.deepcopy(a)), spec.realize(cc, copy.deepcopy(b))) for a, b in op["pairs"]]
        try:
            hash(k)
            for a, _ in pairs:
                hash(a)
        except TypeError:
            return None
        single = name in ("setitem", "setdefault")
        if single:
            label = lab(op["kv"])
        elif name in ("update", "ior", "update_kw"):
            labs = [lab(p) for p in op["pairs"]]
            label = False if False in labs else (None if None in labs else True)
        else:
            label = True
        if name == "update_kw" and not all(isinstance(a, str) for a, _ in pairs):
            return None

        def arg():
            if op["kind"] == "pairs":
                return [tuple(p) for p in pairs]
            if op["kind"] == "iter":
                return iter([tuple(p) for p in pairs])
            return dict(pairs)

        before = self.snapshot()
        fn = {
            "setitem": lambda: proxy.__setitem__(k, v), "update": lambda: proxy.update(arg()),
            "update_kw": (lambda: proxy.update(proxy.copy(), **dict(pairs))) if (len(pairs) + len(proxy)) % 2 else (lambda: proxy.update(**dict(pairs))),
            "setdefault": lambda: proxy.setdefault(k, v),
            "ior": lambda: proxy.__ior__(arg()), "pop": lambda: proxy.pop(k, None), "popitem": lambda: proxy.popitem(),
            "delitem": lambda: proxy.__delitem__(k), "clear": lambda: proxy.clear(),
        }[name]
        if name == "update_kw" and (len(pairs) + len(proxy)) % 2:
            self.res.count("dict_updates_with_own_copy_and_keywords")
        exc = self._run(fn)
        pred = Prediction(clone(before.values), dict(before.flags))
        pset(pred.values, path, Unknown)
        return {"kind": "dictop:" + name, "path": path, "raised": exc, "label": label, "pred": pred, "before": before,
                "listed": single, "inplace": True}


def _nontext_secret(node, values):
    for ch in model.stored_children(node):
        v = values.get(ch["key"]) if isinstance(values, dict) else None
        if ch["kind"] in ("schema", "ctype"):
            if isinstance(v, dict) and _nontext_secret(ch, v):
                return True
            continue
        if _secret_nontext(ch, v):
            return True
    return False


def _secret_nontext(f, v):
    if v is None:
        return False
    fam = f["family"]
    if fam == "secure":
        return not isinstance(v, str)
    if fam == "list" and isinstance(v, (list, tuple)):
        it = f.get("item")
        if it is None:
            return False
        if it["kind"] != "field":
            return any(isinstance(x, dict) and _nontext_secret(it, x) for x in v)
        return any(_secret_nontext(it, x) for x in v)
    if fam == "dict" and isinstance(v, dict):
        vf = f.get("valf")
        return vf is not None and any(_secret_nontext(vf, x) for x in v.values())
    return False


def _holds_config(cc, value, depth=0):
    if depth > 6:
        return True
    vals = value.values() if isinstance(value, dict) else value
    for v in vals:
        if isinstance(v, cc.Config):
            return True
        if isinstance(v, (list, dict)) and _holds_config(cc, v, depth + 1):
            return True
    return False


def _typed(nd):
    """Is every level of this container field typed (so that assigning a proxy makes a validated copy)?"""
    if nd["family"] == "list":
        it = nd.get("item")
        if it is None or it.get("kind") != "field" or it["family"] in ("any", "secure"):
            return False
        return _typed(it) if it["family"] in ("list", "dict") else True
    if nd["family"] == "dict":
        vf = nd.get("valf")
        if vf is None or vf["family"] in ("any", "secure"):
            return False
        return _typed(vf) if vf["family"] in ("list", "dict") else True
    return True


def _model_view(values):
    """Plain observed values -> the shape validate_values expects (same thing; digests count as set)."""
    return values


def _plain_tree(v):
    if v is None or isinstance(v, (bool, int, float, str)):
        return True
    if isinstance(v, list):
        return all(_plain_tree(x) for x in v)
    if isinstance(v, dict):
        return all(isinstance(k, str) and _plain_tree(x) for k, x in v.items())
    return False


def corrupt_doc(doc, fmt, how):
    """(document, parse_must_fail).  Only corruptions that certainly cannot be parsed are labelled
    as failing; the others are 'maybe' and are not used for a verdict."""
    if how == "empty":
        return b"", fmt in ("json", "xml", "bson", "pickle")
    if how == "badutf8":
        if fmt in ("json", "yaml", "xml"):
            return b"\xff\xfe\xfa" + doc, True
        return None, False
    if how == "wrongroot":
        if fmt != "xml":
            return None, False
        return doc.replace(b"<config", b"<other", 1).replace(b"</config>", b"</other>"), True
    if how == "garbage":
        if fmt == "json":
            return b"{\"a\": ", True
        if fmt == "xml":
            return b"<config><a></config>", True
        if fmt == "yaml":
            return b"a: [1, 2\nb: }", True
        if fmt == "bson":
            return b"\x05\x00\x00", True
        return b"\x80\x04garbage.", True
    if how.startswith("truncate:"):
        k = int(how.split(":")[1])
        cut = doc[: max(1, len(doc) * k // 8)]
        if cut == doc:
            return None, False
        if fmt in ("json", "bson", "pickle"):
            return cut, True
        if fmt == "xml":
            return cut, not cut.rstrip().endswith(b"</config>")
        return cut, False  # truncated YAML is often still YAML
    return None, False
