"""Instrumentation attached from the harness (no source hooks): file-open audit log (M-files),
token scanner (M-leak), line coverage and line-level failpoints via sys.monitoring (M-line)."""
import base64
import os
import sys

# ------------------------------------------------------------------------------------------------
# M-files


class FileLog:
    """Audit-hook based log of file-system events under a root directory."""

    _installed = None

    def __init__(self, root):
        self.root = os.path.realpath(root)
        self.events = []
        self.active = False
        self.tag = None
        self.on_event = None
        if FileLog._installed is None:
            FileLog._installed = []
            sys.addaudithook(FileLog._hook)
        FileLog._installed.append(self)

    @staticmethod
    def _hook(event, args):
        if event not in ("open", "os.remove", "os.rename", "os.truncate", "os.mkdir", "os.rmdir"):
            return
        for log in FileLog._installed:
            if log.active:
                log._record(event, args)

    def _record(self, event, args):
        path = args[0]
        if isinstance(path, bytes):
            path = os.fsdecode(path)
        if not isinstance(path, str):
            return
        full = os.path.abspath(path)
        if not (full == self.root or full.startswith(self.root + os.sep)):
            # resolve symlinks lazily only for paths that might be ours
            return
        if event == "open":
            mode, flags = args[1], args[2]
            write = False
            if isinstance(mode, str) and any(c in mode for c in "wax+"):
                write = True
            if isinstance(flags, int) and flags & (os.O_WRONLY | os.O_RDWR | os.O_CREAT | os.O_TRUNC | os.O_APPEND):
                write = True
            self.events.append(("open-w" if write else "open-r", full, self.tag))
            if self.on_event is not None:
                self.on_event(self.events[-1])
        elif event == "os.rename":
            self.events.append(("rename", full, self.tag))
            dst = args[1]
            if isinstance(dst, (str, bytes)):
                dst = os.path.abspath(os.fsdecode(dst))
                self.events.append(("rename-to", dst, self.tag))
        else:
            self.events.append((event.split(".")[-1], full, self.tag))

    def __enter__(self):
        self.active = True
        return self

    def __exit__(self, *exc):
        self.active = False
        return False

    def clear(self):
        self.events = []

    def writes(self, path=None):
        kinds = ("open-w", "rename-to", "remove", "truncate", "rename")
        return [e for e in self.events if e[0] in kinds and (path is None or e[1] == os.path.abspath(path))]

    def touched(self):
        return [e for e in self.events if e[0] != "mkdir"]


# ------------------------------------------------------------------------------------------------
# M-leak


def _needles(tok):
    raw = tok.encode()
    out = {
        "utf8": raw,
        "utf16le": tok.encode("utf-16-le"),
        "utf16be": tok.encode("utf-16-be"),
        "hex": raw.hex().encode(),
        "HEX": raw.hex().upper().encode(),
    }
    for a in (0, 1, 2):
        encd = base64.b64encode(b"\x00" * a + raw)
        start = (a * 8 + 5) // 6
        end = ((a + len(raw)) * 8) // 6
        piece = encd[start:end]
        if len(piece) >= 12:
            out["b64/%d" % a] = piece
            out["b64url/%d" % a] = piece.replace(b"+", b"-").replace(b"/", b"_")
    return out


def find_token(data, tok):
    """Return the name of the encoding under which `tok` occurs in `data` (bytes or str), else
    None."""
    if isinstance(data, str):
        data = data.encode("utf-8", "surrogatepass")
    for name, needle in _needles(tok).items():
        if needle in data:
            return name
    return None


def find_token_deep(obj, tok, _depth=0):
    """Search a python object graph (tree output, in-memory values) for the token."""
    if _depth > 12:
        return None
    if isinstance(obj, (bytes, bytearray, str)):
        return find_token(bytes(obj) if not isinstance(obj, str) else obj, tok)
    if isinstance(obj, dict):
        for k, v in obj.items():
            hit = find_token_deep(k, tok, _depth + 1) or find_token_deep(v, tok, _depth + 1)
            if hit:
                return hit
        return None
    if isinstance(obj, (list, tuple, set, frozenset)):
        for v in obj:
            hit = find_token_deep(v, tok, _depth + 1)
            if hit:
                return hit
        return None
    return None


# ------------------------------------------------------------------------------------------------
# M-line

COV_TOOL = 3
FP_TOOL = 4


class LineCoverage:
    """Which lines of the package under test were executed (each location reported once)."""

    def __init__(self, pkgdir):
        self.pkgdir = os.path.realpath(pkgdir) + os.sep
        self.seen = set()
        self.on = False

    def start(self):
        mon = sys.monitoring
        try:
            mon.use_tool_id(COV_TOOL, "vf-coverage")
        except ValueError:
            return
        mon.register_callback(COV_TOOL, mon.events.LINE, self._line)
        mon.set_events(COV_TOOL, mon.events.LINE)
        self.on = True

    def _line(self, code, line):
        fn = code.co_filename
        if fn.startswith(self.pkgdir):
            self.seen.add((fn[len(self.pkgdir):], line))
        return sys.monitoring.DISABLE

    def stop(self):
        if self.on:
            sys.monitoring.set_events(COV_TOOL, 0)
            sys.monitoring.free_tool_id(COV_TOOL)
            self.on = False

    def report(self):
        out = {}
        for fn, line in self.seen:
            out.setdefault(fn, []).append(line)
        return {fn: sorted(lines) for fn, lines in out.items()}


def executable_lines(path):
    """Line numbers that can produce a LINE event in a source file."""
    with open(path, "rb") as fp:
        src = fp.read()
    try:
        top = compile(src, path, "exec", dont_inherit=True)
    except SyntaxError:
        return set()
    lines, todo = set(), [top]
    while todo:
        code = todo.pop()
        for _, _, ln in code.co_lines():
            if ln:
                lines.add(ln)
        for const in code.co_consts:
            if hasattr(const, "co_lines"):
                todo.append(const)
    return lines


class InjectedFault(Exception):
    """Raised by a failpoint.  Deliberately *not* a ValueError/OSError subclass."""


class Failpoints:
    """Count LINE events inside selected files of the package during a call, or raise an
    exception at the k-th such event (source-free failpoint)."""

    def __init__(self, pkgdir):
        self.pkgdir = os.path.realpath(pkgdir) + os.sep
        self._active = False
        self._claimed = False
        self.pred = None
        self.events = []
        self.k = None
        self.exc = None
        self.fired = None
        self.action = None
        self.frozen = False

    def _claim(self):
        mon = sys.monitoring
        if not self._claimed:
            mon.use_tool_id(FP_TOOL, "vf-failpoints")
            mon.register_callback(FP_TOOL, mon.events.LINE, self._line)
            self._claimed = True

    def _line(self, code, line):
        fn = code.co_filename
        if not fn.startswith(self.pkgdir):
            return sys.monitoring.DISABLE
        if not self._active or self.frozen:
            return None
        rel = fn[len(self.pkgdir):]
        if self.pred is not None and not self.pred(rel):
            return None
        self.events.append((rel, line))
        if self.k is not None and len(self.events) - 1 == self.k:
            self.fired = (rel, line)
            self._active = False
            if self.action is not None:
                self.action()
                return None
            raise self.exc
        return None

    def run(self, fn, pred=None, k=None, exc=None, action=None):
        """Run fn() with tracing; returns (outcome, value_or_exception, events)."""
        self._claim()
        mon = sys.monitoring
        self.pred, self.k, self.exc = pred, k, exc or InjectedFault("injected fault")
        self.action = action
        self.events, self.fired, self.frozen = [], None, False
        self._active = True
        mon.set_events(FP_TOOL, mon.events.LINE)
        try:
            try:
                val = fn()
                outcome = "ok"
            except BaseException as err:  # noqa: BLE001 - we classify, never swallow silently
                if isinstance(err, (KeyboardInterrupt, SystemExit)):
                    raise
                val, outcome = err, "raised"
        finally:
            self._active = False
            mon.set_events(FP_TOOL, 0)
        return outcome, val, list(self.events)

    def freeze(self):
        """Stop counting/injecting for the rest of the current run (used once the point of no
        return - e.g. the destination has been opened for writing - is passed)."""
        self.frozen = True
