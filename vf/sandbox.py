"""Per-worker sandbox: scratch root, HOME redirected *before* cincoconfig is imported, minimal
environment, import guard that the library really comes from the tree under test."""
import atexit
import os
import shutil
import sys
import tempfile

MIN_ENV = ("PATH", "LANG", "LC_ALL", "TZ")


class Sandbox:
    def __init__(self, repo):
        self.repo = os.path.realpath(repo)
        self.root = tempfile.mkdtemp(prefix="vf-")
        atexit.register(self.cleanup)
        self.home = os.path.join(self.root, "home")
        os.mkdir(self.home)
        keep = {k: os.environ[k] for k in MIN_ENV if k in os.environ}
        os.environ.clear()
        os.environ.update(keep)
        os.environ["HOME"] = self.home
        os.environ["PYTHONDONTWRITEBYTECODE"] = "1"
        sys.dont_write_bytecode = True
        self.base_env = dict(os.environ)
        os.chdir(self.root)
        # fixture tree for filename fields (never modified by any operation)
        self.fx = os.path.join(self.root, "fx")
        os.mkdir(self.fx)
        os.mkdir(os.path.join(self.fx, "dir"))
        with open(os.path.join(self.fx, "file.txt"), "w") as fp:
            fp.write("fixture\n")
        with open(os.path.join(self.fx, "dir", "inner.txt"), "w") as fp:
            fp.write("fixture\n")
        self._n = 0

    def import_target(self):
        sys.path.insert(0, self.repo)
        import cincoconfig

        where = os.path.realpath(cincoconfig.__file__)
        if not where.startswith(self.repo + os.sep):
            raise RuntimeError("cincoconfig imported from %s, not from %s" % (where, self.repo))
        self.default_keyfile = os.path.join(self.home, ".cincokey")
        if cincoconfig.Config.DEFAULT_CINCOKEY_FILEPATH != self.default_keyfile:
            raise RuntimeError("default key file is not sandboxed")
        return cincoconfig

    def case_dir(self):
        """A fresh directory for one case."""
        self._n += 1
        path = os.path.join(self.root, "c%06d" % self._n)
        os.mkdir(path)
        return path

    def reset(self, case_dir=None):
        """Restore environment and default key file between cases."""
        os.environ.clear()
        os.environ.update(self.base_env)
        try:
            os.chdir(self.root)
        except OSError:  # pragma: no cover
            pass
        if case_dir:
            shutil.rmtree(case_dir, ignore_errors=True)
        try:
            os.unlink(self.default_keyfile)
        except OSError:
            pass

    def cleanup(self):
        try:
            os.chdir("/")
        except OSError:  # pragma: no cover
            pass
        shutil.rmtree(self.root, ignore_errors=True)
