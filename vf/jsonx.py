"""JSON with tags for the Python values that case specs need (bytes, NaN/inf, tuples, sets,
opaque objects).  Specs stay readable and replay exactly."""
import ipaddress
import json
import math


class Opaque:
    """Stands for `object()` in specs: a value of a type no field knows."""

    def __repr__(self):
        return "<Opaque>"

    def __eq__(self, other):
        return isinstance(other, Opaque)

    def __hash__(self):
        return 7


class DigestSpec:
    """A literal digest value in a spec (built into a real DigestValue at run time)."""

    def __init__(self, alg, secret, salt=None, raw=False):
        # raw: the digest value is built directly from (salt, hash(salt + secret)), whatever the salt's length (an imported
        # hash); otherwise through DigestValue.create, which generates / trims the salt
        self.alg, self.secret, self.salt, self.raw = alg, secret, salt, raw

    def __repr__(self):
        return "DigestSpec(%s, %r)" % (self.alg, self.secret)

    def __eq__(self, other):
        return isinstance(other, DigestSpec) and (self.alg, self.secret, self.salt, self.raw) == (other.alg, other.secret, other.salt, other.raw)

    def __hash__(self):
        return hash((self.alg, self.secret))


def _catalogue():
    """Python objects beyond plain data that YAML (python tags) and pickle can carry."""
    import collections
    import datetime
    import decimal
    import fractions
    import uuid

    return {"timedelta": datetime.timedelta(days=1, seconds=5), "decimal": decimal.Decimal("1.50"), "fraction": fractions.Fraction(1, 3),
            "frozenset": frozenset({1, 2}), "ordereddict": collections.OrderedDict([("b", 1), ("a", 2)]), "uuid": uuid.UUID(int=5),
            "range": range(3), "date": datetime.date(2020, 1, 2), "datetime": datetime.datetime(2020, 1, 2, 3, 4, 5),
            "complex": complex(1, 2), "set": {1, 2}, "bytearray": bytearray(b"ab")}


PYOBJ = _catalogue()


def py_name(v):
    for name, obj in PYOBJ.items():
        if type(v) is type(obj) and v == obj:
            return name
    return None


class StrSub(str):
    """A value that is text, but of a subclass of str (as members of `class Mode(str, Enum)` or a labelled string are)."""

    __slots__ = ()


def enc(v):
    if type(v) is StrSub:
        return {"$ss": str(v)}
    if v is None or isinstance(v, (bool, str)):
        return v
    if isinstance(v, ipaddress.IPv4Address):
        return {"$ip4": str(v)}
    if not isinstance(v, (int, float, bytes, list, dict, tuple)) and py_name(v):
        return {"$py": py_name(v)}
    if isinstance(v, int):
        return v
    if isinstance(v, float):
        if math.isnan(v):
            return {"$f": "nan"}
        if math.isinf(v):
            return {"$f": "inf" if v > 0 else "-inf"}
        if v == 0 and math.copysign(1, v) < 0:
            return {"$f": "-0.0"}
        return v
    if isinstance(v, bytes):
        return {"$b": v.hex()}
    if isinstance(v, bytearray):
        return {"$ba": bytes(v).hex()}
    if isinstance(v, tuple):
        return {"$t": [enc(x) for x in v]}
    if isinstance(v, (set, frozenset)):
        return {"$s": [enc(x) for x in sorted(v, key=repr)]}
    if isinstance(v, list):
        return [enc(x) for x in v]
    if isinstance(v, dict):
        if all(isinstance(k, str) and not k.startswith("$") for k in v):
            return {k: enc(x) for k, x in v.items()}
        return {"$d": [[enc(k), enc(x)] for k, x in v.items()]}
    if isinstance(v, Opaque):
        return {"$o": 1}
    import collections
    import types

    if isinstance(v, types.MappingProxyType):
        return {"$mp": enc(dict(v))}
    if isinstance(v, collections.UserDict):
        return {"$ud": enc(dict(v))}
    if isinstance(v, collections.ChainMap):
        return {"$cm": enc(dict(v))}
    if isinstance(v, DigestSpec):
        return {"$digest": [v.alg, enc(v.secret), enc(v.salt)] + ([True] if v.raw else [])}
    if isinstance(v, complex):
        return {"$c": [v.real, v.imag]}
    return {"$repr": repr(v)[:200]}


def dec(v):
    if isinstance(v, list):
        return [dec(x) for x in v]
    if isinstance(v, dict):
        if len(v) == 1:
            (k, x), = v.items()
            if k == "$py":
                import copy

                return copy.deepcopy(PYOBJ[x])
            if k == "$f":
                return float(x)
            if k == "$ss":
                return StrSub(x)
            if k == "$ip4":
                return ipaddress.IPv4Address(x)
            if k == "$b":
                return bytes.fromhex(x)
            if k == "$ba":
                return bytearray(bytes.fromhex(x))
            if k == "$t":
                return tuple(dec(i) for i in x)
            if k == "$s":
                return set(dec(i) for i in x)
            if k == "$d":
                return {dec(a): dec(b) for a, b in x}
            if k == "$o":
                return Opaque()
            if k in ("$mp", "$ud", "$cm"):
                import collections
                import types

                d = dec(x)
                return types.MappingProxyType(d) if k == "$mp" else collections.UserDict(d) if k == "$ud" else collections.ChainMap(d)
            if k == "$digest":
                return DigestSpec(x[0], dec(x[1]), dec(x[2]), raw=len(x) > 3 and bool(x[3]))
            if k == "$c":
                return complex(*x)
            if k == "$repr":
                return Opaque()
        return {k: dec(x) for k, x in v.items()}
    return v


def dumps(v, **kw):
    return json.dumps(enc(v), **kw)


def loads(s):
    return dec(json.loads(s))


def short(v, limit=400):
    """Abbreviated JSON text of a value for samples / witnesses."""
    try:
        s = json.dumps(enc(v), ensure_ascii=True, sort_keys=False)
    except Exception:  # pragma: no cover
        s = repr(v)
    return s if len(s) <= limit else s[: limit - 3] + "..."
