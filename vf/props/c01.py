"""C01 - every value a configuration holds satisfies its field's declared constraints."""
from .. import gen, history, model
from .c05 import env_of

PLAN = {
    "quick": {"shards": 8, "cases": 700, "min_nontrivial": 2500, "budget_s": 300},
    "thorough": {"shards": 16, "cases": 12000, "min_nontrivial": 67200, "budget_s": 1500},
}
RULE = ("a case is a random schema (all field families, nested schemas, config types, lists of schemas/config types, "
        "typed and untyped lists/dicts, dynamic schemas; defaults emitted in normal form) plus a history of 5-60 public "
        "mutating operations: attribute / dotted-path assignment, constructor keywords, dict or Config assigned to a "
        "sub-configuration, load_tree, loads in a random format (also corrupted), command-line override from a real "
        "parsed command line, reset_value, and every list/dict mutator on the proxies currently held, with valid, "
        "boundary, invalid and wrongly typed arguments; after EVERY operation (accepted or rejected) the tree walker "
        "M-inv judges every readable value at every depth against the reference model, and after accepted assignments "
        "the whole state is compared with the prediction 'only this path changed, to the model's normal form'; "
        "non-trivial = >= 1 accepted and >= 1 rejected operation over >= 2 routes; distinct = distinct (schema, history)")
REQUIRED = ("dict_updates_with_own_copy_and_keywords", "tuples_assigned_a_second_time", "copies_between_items_of_one_list", "inv_walks", "inv_values_judged", "readback_checks", "accepted_ops", "rejected_ops", "route:set", "route:set-sub",
            "route:ctor", "route:load_tree", "route:loads", "route:cmdline", "route:reset", "route:listop", "route:dictop", "route:serialize")
ASSUMPTIONS = ["the reference model (vf/model.py) states the declared constraints; values whose status the documentation "
               "leaves open are not judged", "declared defaults are generated in normal form (the property is "
               "conditional on valid defaults)", "FilenameField(exists=...) is judged against a fixture tree no "
               "operation modifies"]
EXCLUDED = ["assigning a Config of a different schema", "K5 parameter combinations (strip characters that are cased "
            "letters together with a case transform): validation is not idempotent there (known finding of C05)"]
SHRINK_KEY = "ops"


def generate(rng, ctx):
    thorough = ctx.tier == "thorough"
    depth = rng.choice([1, 2, 3] if thorough else [1, 2, 2])
    schema = gen.gen_schema(rng, depth=depth, width=rng.choice([3, 4, 6] if thorough else [3, 4]))
    history.add_twins(rng, schema)
    n = rng.randrange(5, 61 if thorough else 31)
    env = gen.GEN_ENV
    ops = history.gen_ops(rng, schema, env, n, bad=rng.choice([0.15, 0.3, 0.45]))
    probes = history.alias_probe_ops(rng, schema, env)
    rng.shuffle(probes)
    for seq in probes[:3]:
        at = rng.randrange(len(ops) + 1)
        ops[at:at] = seq
    return {"schema": schema, "ops": ops}


def abbreviate(case):
    return {"schema": case["schema"], "ops": case["ops"][:6], "ops_total": len(case["ops"])}


def check_inv(drv, res, values, what):
    out = []
    history.inv_config(drv.root, values, drv.env, out)
    res.count("inv_walks")
    res.count("inv_values_judged", _count(values))
    for path, fam, msg in out[:3]:
        res.viol("M-inv", "%s:%s" % (what, fam), "after %s: %s: %s" % (what, path, msg))
    return not out


def _count(v):
    if isinstance(v, dict):
        return sum(_count(x) for x in v.values()) + 1
    if isinstance(v, list):
        return sum(_count(x) for x in v) + 1
    return 1


def run(case, ctx, res):
    env = env_of(ctx)
    drv = history.Driver(ctx, res, case["schema"], env)
    snap = drv.snapshot()
    if not check_inv(drv, res, snap.values, "construction"):
        return
    routes, acc, rej = set(), 0, 0
    for idx, op in enumerate(case["ops"]):
        out = drv.step(op)
        if out is None:
            res.count("ops_skipped")
            continue
        kind = out["kind"].split(":")[0]
        res.count("route:" + kind)
        if op.get("src_shift") and out["raised"] is None:
            res.count("copies_between_items_of_one_list")
        if op.get("tuple_again") and out["raised"] is None:
            res.count("tuples_assigned_a_second_time")
        routes.add(kind)
        after = drv.snapshot()
        label = "%s%s" % (out["kind"], "(rejected)" if out["raised"] is not None else "")
        if not check_inv(drv, res, after.values, label):
            res.notes.append("step %d" % idx)
            return
        if out["raised"] is None:
            acc += 1
            res.count("accepted_ops")
            pred = out["pred"]
            if out["label"] is True and not pred.unpredicted and pred.values is not None:
                res.count("readback_checks")
                d = model.match(pred.values, after.values)
                if d:
                    fam = out.get("node", {}).get("family", out.get("node", {}).get("kind", "")) if out.get("node") else ""
                    res.viol("M-read", "%s:%s" % (out["kind"], fam), "step %d: %s of %r at %r accepted, but the state is not "
                             "'only this path changed to its normal form': %s" % (idx, out["kind"], out.get("value"), out["path"], d))
                    return
            elif out["label"] is False and out["kind"] in ("set", "set-sub"):
                # accepted although the model labels the value invalid: M-inv has judged the stored value already;
                # record it so that evidence shows how often the model and the library disagree
                res.count("accepted_although_labelled_invalid")
        else:
            rej += 1
            res.count("rejected_ops")
    if acc and rej and len(routes) >= 2:
        res.nontrivial(case["schema"], case["ops"])
