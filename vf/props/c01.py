"""C01 - every value a configuration holds satisfies its field's declared constraints."""
import copy
import random

from .. import gen, history, model, spec
from .c05 import env_of

PLAN = {
    "quick": {"shards": 8, "cases": 700, "min_nontrivial": 2500, "budget_s": 300},
    "thorough": {"shards": 16, "cases": 12000, "min_nontrivial": 67200, "budget_s": 1500},
}
RULE = ("a case is a random schema (all field families, nested schemas, config types, lists of schemas/config types, "
        "typed and untyped lists/dicts, dynamic schemas; defaults emitted in normal form) plus a history of 5-60 public "
        "mutating operations: attribute / dotted-path assignment, constructor keywords, dict or Config assigned to a "
        "sub-configuration, load_tree, loads in a random format (also corrupted), command-line override from a real "
        "parsed command line, reset_value, and every list/dict mutator on the proxies currently held, with valid, "
        "boundary, invalid and wrongly typed arguments; after EVERY operation (accepted or rejected) the tree walker "
        "M-inv judges every readable value at every depth against the reference model, and after accepted assignments "
        "the whole state is compared with the prediction 'only this path changed, to the model's normal form'; "
        "non-trivial = >= 1 accepted and >= 1 rejected operation over >= 2 routes; distinct = distinct (schema, history)")
REQUIRED = ("derived_type_items_offered",
            "dict_updates_with_own_copy_and_keywords", "tuples_assigned_a_second_time", "copies_between_items_of_one_list",
            "inv_walks", "inv_values_judged", "readback_checks", "accepted_ops", "rejected_ops", "route:set", "route:set-sub",
            "route:ctor", "route:load_tree", "route:loads", "route:cmdline", "route:reset", "route:listop", "route:dictop", "route:serialize")
ASSUMPTIONS = ["the reference model (vf/model.py) states the declared constraints; values whose status the documentation "
               "leaves open are not judged", "declared defaults are generated in normal form (the property is "
               "conditional on valid defaults)", "FilenameField(exists=...) is judged against a fixture tree no "
               "operation modifies"]
EXCLUDED = ["K5 parameter combinations (strip characters that are cased "
            "letters together with a case transform): validation is not idempotent there (known finding of C05)"]
SHRINK_KEY = "ops"


def generate(rng, ctx):
    thorough = ctx.tier == "thorough"
    depth = rng.choice([1, 2, 3] if thorough else [1, 2, 2])
    schema = gen.gen_schema(rng, depth=depth, width=rng.choice([3, 4, 6] if thorough else [3, 4]))
    history.add_twins(rng, schema)
    n = rng.randrange(5, 61 if thorough else 31)
    env = gen.GEN_ENV
    ops = history.gen_ops(rng, schema, env, n, bad=rng.choice([0.15, 0.3, 0.45]))
    probes = history.alias_probe_ops(rng, schema, env)
    rng.shuffle(probes)
    for seq in probes[:3]:
        at = rng.randrange(len(ops) + 1)
        ops[at:at] = seq
    # (drawn from a generator of its own, last: the rest of the case is what it was without this workload)
    add_derived_items(random.Random(rng.getrandbits(64)), schema, ops, env)
    return {"schema": schema, "ops": ops}


# ------------------------------------------------------------------------------------------------
# items of a class DERIVED from the declared configuration type of a list
#
# A list declared as ListField(T) (T a configuration type) constrains its items through the fields of T's schema.  A class
# derived from T that only adds methods shares that schema: its instances are items like any other.  A class derived from T
# that sets a schema of its own (`__schema__`) holds values that were validated against THAT schema only, so the list may
# take such an instance only if what becomes readable as an item still satisfies the declared fields (the library refuses
# it, like any configuration built from another schema).  Whatever the library does, M-inv judges the readable items.

DERIVED_HOWS = ["append", "insert", "setitem", "extend", "iadd", "setslice", "assign", "assign_path", "ctor"]
ADDED_LIST_KEYS = ["services", "endpoints", "hooks"]  # (no key of the pool, no '_' or '.': no option-name collisions)


def cfgtype_lists(schema):
    return [(p, nd) for p, nd in spec.walk(schema) if nd["kind"] == "field" and nd["family"] == "list" and nd.get("item")
            and nd["item"]["kind"] == "ctype"]


def loose_values(rng, node, env, bad):
    """One entry per stored child of a configuration-type node: {"v": value} (a value the declared field refuses with
    probability `bad`, else one it accepts) or {"sub": {...}} for a nested section."""
    out = {}
    for ch in model.stored_children(node):
        if ch["kind"] in ("schema", "ctype"):
            out[ch["key"]] = {"sub": loose_values(rng, ch, env, bad)}
        elif ch["family"] in ("include", "secure", "any", "challenge"):
            out[ch["key"]] = {"v": None}
        else:
            out[ch["key"]] = {"v": gen.one_value(rng, ch, "invalid" if rng.random() < bad else "valid", env)}
    return out


def add_derived_items(rng, schema, ops, env):
    lists = cfgtype_lists(schema)
    if not lists and rng.random() < 0.3:
        # a list of configuration types of its own, at the root or in a section of the root
        holders = [("", schema)] + [(ch["key"], ch) for ch in schema["fields"] if ch["kind"] == "schema" and not ch.get("style")]
        prefix, holder = rng.choice(holders)
        used = {ch["key"] for ch in holder["fields"]}
        keys = [k for k in ADDED_LIST_KEYS if k not in used]
        if keys:
            sub = gen.gen_schema(rng, rng.choice([0, 0, 1]), 3, None, False, False, 0)
            node = {"kind": "field", "key": rng.choice(keys), "family": "list", "params": {},
                    "item": {"kind": "ctype", "key": "", "name": "DV1", "schema": sub}}
            holder["fields"].append(node)
            # the usual operations on the new list (paths below a root that holds nothing else are paths of the case's root)
            mini = {"kind": "schema", "key": "", "fields": [node]}
            if prefix:
                mini = {"kind": "schema", "key": "", "fields": [{"kind": "schema", "key": prefix, "fields": [node]}]}
            for op in history.gen_ops(rng, mini, env, rng.choice([2, 4, 6]), bad=0.3):
                if op["op"] in ("set", "listop", "load_tree", "reset", "copy"):
                    ops.insert(rng.randrange(len(ops) + 1), op)
            lists = cfgtype_lists(schema)
    for path, nd in lists:
        item = nd["item"]
        new = []
        if rng.random() < 0.7:
            v = gen.one_value(rng, nd, "valid", env)
            if v is not None:
                new.append({"op": "set", "route": "attr", "path": path, "value": v})
        for _ in range(rng.choice([1, 2, 3])):
            op = {"op": "derived_item", "path": path, "how": rng.choice(DERIVED_HOWS), "i": rng.randrange(-3, 5),
                  "a": rng.choice([None, 0, 1, -1]), "b": rng.choice([None, 0, 2, -1]), "at": rng.randrange(3),
                  "extras": [gen.tree_for(rng, item, env, valid=True) for _ in range(rng.choice([0, 0, 1, 2]))]}
            if rng.random() < 0.25:
                op["variant"] = "same"  # methods only: the schema of the declared type
                op["tree"] = gen.tree_for(rng, item, env, valid=True, partial=rng.choice([0.3, 0.9]))
            else:
                op["variant"] = "own"  # a schema of its own: the same names, fields that take anything
                op["values"] = loose_values(rng, item, env, rng.choice([0.4, 0.7, 1.0]))
                op["by_default"] = rng.random() < 0.5
            new.append(op)
        at = rng.randrange(len(ops) + 1)
        for op in new:
            ops.insert(at, op)
            at = rng.randrange(at + 1, len(ops) + 1)


def loose_schema(cc, values, by_default):
    sch = cc.Schema()
    for key, ent in values.items():
        if "sub" in ent:
            sch[key] = loose_schema(cc, ent["sub"], by_default)
        elif by_default and ent["v"] is not None:
            sch[key] = cc.AnyField(default=spec.realize(cc, copy.deepcopy(ent["v"])))
        else:
            sch[key] = cc.AnyField()
    return sch


def fill_loose(cc, inst, values):
    for key, ent in values.items():
        if "sub" in ent:
            fill_loose(cc, inst[key], ent["sub"])
        elif ent["v"] is not None:
            inst[key] = spec.realize(cc, copy.deepcopy(ent["v"]))


def derived_step(drv, op, res):
    """Offer an instance of a class derived from the declared item type to the list at op["path"]; returns what
    Driver.step returns (None = not applicable now).  Nothing is predicted: M-inv judges the state afterwards."""
    cc, cfg = drv.cc, drv.cfg
    op = spec.resolve(op, drv.mapping)
    path = drv.concrete(op["path"])
    if path is None:
        return None
    nd = drv.node(path)
    if nd is None or nd.get("family") != "list" or not nd.get("item") or nd["item"]["kind"] != "ctype":
        return None
    item = nd["item"]
    base = drv.built.types.get((item.get("name") or "T", item["schema"].get("share") or id(item)))
    if base is None:
        return None
    parent_path, key = spec.split_parent(path)
    try:
        parent = spec.get_path(cfg, parent_path) if parent_path else cfg
        proxy = spec.get_path(cfg, path)
        if op["variant"] == "same":
            derived = type(base.__name__ + "WithMethods", (base,), {"label": lambda self: "item %s" % type(self).__name__})
            inst = derived()
            inst.load_tree(copy.deepcopy(op["tree"]), validate=False)
            inst.label()
        else:
            own = loose_schema(cc, op["values"], op["by_default"])
            derived = type(base.__name__ + "Legacy", (base,), {"__schema__": own})
            inst = derived()
            if not op["by_default"]:
                fill_loose(cc, inst, op["values"])
        extras = [spec.realize(cc, copy.deepcopy(t)) for t in op["extras"]]
    except Exception:
        # (a tree the item type does not load, e.g. a number for an untyped secret: nothing to offer)
        res.count("derived_type_items_not_built")
        return None
    if not isinstance(parent, cc.Config) or not isinstance(inst, base):
        return None
    items = extras[:op["at"]] + [inst] + extras[op["at"]:]
    how = op["how"]
    if how == "ctor" and ("." in path or "[" in path):
        how = "assign_path"
    if how == "assign_path" and "[" in path:
        how = "assign"
    if how not in ("assign", "assign_path", "ctor") and not isinstance(proxy, list):
        how = "assign"
    if how == "setitem" and len(proxy) == 0:
        how = "append"
    made = []
    fn = {
        "append": lambda: proxy.append(inst), "insert": lambda: proxy.insert(op["i"], inst),
        "setitem": lambda: proxy.__setitem__(op["i"] % max(len(proxy), 1), inst),
        "extend": lambda: proxy.extend(items), "iadd": lambda: proxy.__iadd__(items),
        "setslice": lambda: proxy.__setitem__(slice(op["a"], op["b"]), items),
        "assign": lambda: setattr(parent, key, items), "assign_path": lambda: cfg.__setitem__(path, items),
        "ctor": lambda: made.append(cc.Config(drv.built.schema, key_filename=drv.keyfile, **{path: items})),
    }[how]
    before = drv.snapshot()
    exc = drv._run(fn)
    res.count("derived_type_items_offered" if op["variant"] == "own" else "derived_type_items_with_the_declared_schema_offered")
    if exc is None:
        res.count("derived_type_items_taken:" + op["variant"])
    if made:
        # a configuration of its own: judged here (the caller judges the driver's configuration)
        check_inv(drv, res, drv.snapshot(made[0]).values, "derived-item:ctor(new configuration)")
    pred = history.Prediction(None, None)
    pred.unpredicted = True
    return {"kind": "derived-item:" + how, "path": path, "raised": exc, "label": None, "pred": pred, "before": before,
            "listed": False, "node": nd}


def abbreviate(case):
    return {"schema": case["schema"], "ops": case["ops"][:6], "ops_total": len(case["ops"])}


def check_inv(drv, res, values, what):
    out = []
    history.inv_config(drv.root, values, drv.env, out)
    res.count("inv_walks")
    res.count("inv_values_judged", _count(values))
    for path, fam, msg in out[:3]:
        res.viol("M-inv", "%s:%s" % (what, fam), "after %s: %s: %s" % (what, path, msg))
    return not out


def _count(v):
    if isinstance(v, dict):
        return sum(_count(x) for x in v.values()) + 1
    if isinstance(v, list):
        return sum(_count(x) for x in v) + 1
    return 1


def run(case, ctx, res):
    env = env_of(ctx)
    drv = history.Driver(ctx, res, case["schema"], env)
    snap = drv.snapshot()
    if not check_inv(drv, res, snap.values, "construction"):
        return
    routes, acc, rej = set(), 0, 0
    for idx, op in enumerate(case["ops"]):
        out = derived_step(drv, op, res) if op["op"] == "derived_item" else drv.step(op)
        if out is None:
            res.count("ops_skipped")
            continue
        kind = out["kind"].split(":")[0]
        res.count("route:" + kind)
        if op.get("src_shift") and out["raised"] is None:
            res.count("copies_between_items_of_one_list")
        if op.get("tuple_again") and out["raised"] is None:
            res.count("tuples_assigned_a_second_time")
        routes.add(kind)
        after = drv.snapshot()
        label = "%s%s" % (out["kind"], "(rejected)" if out["raised"] is not None else "")
        if not check_inv(drv, res, after.values, label):
            res.notes.append("step %d" % idx)
            return
        if out["raised"] is None:
            acc += 1
            res.count("accepted_ops")
            pred = out["pred"]
            if out["label"] is True and not pred.unpredicted and pred.values is not None:
                res.count("readback_checks")
                d = model.match(pred.values, after.values)
                if d:
                    fam = out.get("node", {}).get("family", out.get("node", {}).get("kind", "")) if out.get("node") else ""
                    res.viol("M-read", "%s:%s" % (out["kind"], fam), "step %d: %s of %r at %r accepted, but the state is not "
                             "'only this path changed to its normal form': %s" % (idx, out["kind"], out.get("value"), out["path"], d))
                    return
            elif out["label"] is False and out["kind"] in ("set", "set-sub"):
                # accepted although the model labels the value invalid: M-inv has judged the stored value already;
                # record it so that evidence shows how often the model and the library disagree
                res.count("accepted_although_labelled_invalid")
        else:
            rej += 1
            res.count("rejected_ops")
    if acc and rej and len(routes) >= 2:
        res.nontrivial(case["schema"], case["ops"])
