"""C03 - secrets are stored only encrypted and decrypt with the configuration's key file."""
import base64
import json
import os

import subprocess
import sys

from .. import aes_ref, trees
from ..common import token, weighted
from ..monitors import FileLog, find_token

PLAN = {
    "quick": {"shards": 8, "cases": 250, "min_nontrivial": 1500, "budget_s": 300},
    "thorough": {"shards": 16, "cases": 5000, "min_nontrivial": 28000, "budget_s": 1500},
}
RULE = ("a case places secret fields (aes / xor / best) at the root, in sub-schemas of depth 1-3, in a config-type "
        "field, in items of lists of schemas and of config types and in ListField(SecureField); key files are named by "
        "the root (constructor or _key_filename), by a sub-configuration, by a config type, or by nobody (sandboxed "
        "default), before and after the first use, pre-existing or absent; every secret holds a unique high-entropy "
        "token padded to 1-100 characters (also non-ASCII); for each format: (1) the token must not occur in the "
        "output under raw/UTF-16/base64/hex encodings, (2) every secret position of the decoded document is "
        "{method in {aes,xor}, ciphertext} and the independent AES/XOR oracle decrypts it to the plaintext with the "
        "bytes of the EXPECTED key file (nearest ancestor naming one, else the default), (3) the audit log of file "
        "opens during dumps/loads contains no key file other than the expected ones, (4) a fresh configuration (new "
        "objects; 1 in 40 in a new process) loading the document gets every plaintext back; non-trivial = >= 2 "
        "non-empty secrets at >= 2 depths; distinct = distinct case content")
REQUIRED = ("layout:item-used-on-its-own-before-joining-the-list", "key_file_names_reported_by_the_configurations_checked", "layout:section-used-on-its-own-before-joining-the-tree", "key_file_names_a_shell_would_expand", "failed_loads_before_key_rotation", "saves_after_key_files_were_replaced", "items_handed_over_to_a_second_configuration", "sections_saved_without_a_reference_to_the_root", "saves_failed_for_missing_key_directory", "layout:two-types-one-schema-different-keyfiles", "layout:only-keyed-subtrees", "layout:transplanted-subconfig", "layout:names-inherited-file", "documents_scanned_for_tokens", "ciphertexts_decrypted_by_oracle", "keyfile_open_sets_checked",
            "reloads_compared", "layout:root-ctor", "layout:root-attr", "layout:sub", "layout:ctype", "layout:default",
            "secrets_in_list_items", "rekey_after_first_use", "new_process_reloads",
            "configurations_constructed_from_stored_sections", "constructed_from_stored_sections:root",
            "constructed_from_stored_sections:type-object", "constructed_from_stored_sections:section",
            "constructed_from_stored_sections:list-item", "secrets_read_from_constructed_configurations")
ASSUMPTIONS = ["only files under the sandbox root are considered; HOME is redirected so the default key file is sandboxed",
               "ciphertext equality is never compared (fresh IV)", "documents are decoded with the library's codecs (C04)",
               "a key file named on a sub-configuration *instance* is judged for saving only: loading a document rebuilds "
               "sub-configurations, which a key named on the old instance cannot survive (not part of the statement)"]
POSITIONS = ["s", "s2", "lst", "dsec", "a.dsec", "a.s", "a.b.s", "a.b.c.s", "t.s", "t.inner.s", "t2.s", "items", "titems"]


def generate(rng, ctx):
    thorough = ctx.tier == "thorough"
    layout = {
        "root": weighted(rng, [(3, "ctor"), (3, "attr"), (3, None)]),
        "a": rng.random() < 0.2,
        "ab": rng.random() < 0.15,
        "T": rng.random() < 0.4,
        "TI": rng.random() < 0.3,
        "existing": rng.random() < 0.5,
        "rekey": rng.random() < (0.4 if thorough else 0.3),
        # a config type / sub-configuration that names the very file it would inherit anyway must still be pinned to it
        "T_same": rng.random() < 0.25,
        "a_same": rng.random() < 0.15,
        # a second configuration type made from the same schema under the same name, with another (or no) key file
        "T2": rng.random() < 0.5,
    }
    # the directory of the root's key file does not exist when the configuration is first saved (that save fails); it is
    # created afterwards and the SAME configuration object is saved again
    layout["keydir_late"] = layout["root"] is not None and rng.random() < 0.2
    # the root names nothing and holds no secret of its own: the default key file must never be touched
    layout["only_keyed_subtrees"] = rng.random() < 0.15
    if layout["only_keyed_subtrees"]:
        layout.update({"root": None, "a": True, "ab": rng.random() < 0.5, "T": True, "TI": True, "T_same": False, "a_same": False,
                       "rekey": False, "T2": True})
    if layout["T_same"]:
        layout["T"] = True
    if layout["a_same"]:
        layout["a"] = True
    # a sub-configuration object that already lives in another tree (with another key file) is assigned into this one
    layout["transplant_a"] = (not layout["a"]) and (not layout["ab"]) and rng.random() < 0.25 and not layout.get("only_keyed_subtrees")
    methods = {p: rng.choice(["aes", "xor", "best"]) for p in POSITIONS}
    methods["t2.s"] = methods["t.s"]  # both types are made from one schema: the very same field

    def secret(empty_ok=True):
        if empty_ok and rng.random() < 0.1:
            return ""
        tok = token(rng)
        n = rng.choice([1, 5, 18, 19, 33, 64, 100])
        # the alphabet includes text that is not in NFC / NFKC form (combining accent, angstrom sign, ligature, full-width letter)
        pad = "".join(rng.choice(["a", "b", "c", " ", "x", "y", "z", "é", "中", "\U0001f600", "e\u0301", "\u212b", "\ufb01", "\uff41",
                                  "\u0307\u0323"]) for _ in range(max(0, n - len(tok))))
        return (pad[: len(pad) // 2] + tok + pad[len(pad) // 2:]) if rng.random() < 0.7 else tok
    values = {
        "s": secret(), "s2": secret(False), "lst": [secret(False) for _ in range(rng.choice([0, 1, 2, 3]))],
        "dsec": {"k%d" % i: secret(False) for i in range(rng.choice([0, 1, 2]))},
        "a.dsec": {"key.%d" % i: secret(False) for i in range(rng.choice([0, 1, 2]))}, "a.s": secret(), "a.b.s": secret(),
        "a.b.c.s": secret(), "t.s": secret(), "t.inner.s": secret(), "t2.s": secret(),
        "items": [{"s": secret(), "sub": {"s": secret()}, "n": i} for i in range(rng.choice([0, 1, 2, 3]))],
        "titems": [{"s": secret(), "n": i} for i in range(rng.choice([0, 1, 2]))],
    }
    if layout.get("only_keyed_subtrees"):
        values.update({"s": "", "s2": "", "lst": [], "dsec": {}, "items": []})
    elif rng.random() < (0.02 if thorough else 0.006):
        # one secret longer than 64 KiB (certificate bundles are): nothing of it may be lost
        pos = rng.choice(["s", "a.s", "t.s"])
        values[pos] = token(rng) + "".join(rng.choice("abcdefghij\n+/=") for _ in range(rng.choice([65600, 70000])))
        if rng.random() < 0.6:
            methods[pos] = "xor"
            if pos == "t.s":
                methods["t2.s"] = "xor"
        layout["big_secret"] = pos
    layout["orphan_section"] = rng.random() < 0.2
    # the root's key file carries a name a shell would expand (the variable VFSTAGE is set to "prod" in the process)
    if layout["root"] and not layout["keydir_late"] and rng.random() < 0.2:
        layout["rootkey_name"] = rng.choice(["app-$VFSTAGE.key", "${VFSTAGE}.key", "$VFSTAGE", "%VFSTAGE%.key"])
    # the same secret twice in the list of secrets
    if values["lst"] and rng.random() < 0.35:
        values["lst"].insert(rng.randrange(len(values["lst"]) + 1), rng.choice(values["lst"]))
    # after the saves: (a failed load, then) every key file gets new content from outside and the SAME object is saved again
    layout["rotate"] = rng.choice([None, None, "plain", "after-failed-load"])
    layout["standalone_a"] = rng.random() < 0.25
    layout["standalone_item"] = rng.random() < 0.3
    # ... and items are handed over, as objects, to a second configuration that names another key file
    layout["move_items"] = rng.random() < 0.3
    fmts = rng.sample(trees.FORMATS, rng.choice([1, 2, 3]))
    return {"layout": layout, "methods": methods, "values": values, "fmts": fmts, "newproc": rng.random() < 0.025,
            "r": rng.getrandbits(20)}


def abbreviate(case):
    return case


# ------------------------------------------------------------------------------------------------


def build_schema(cc, case, d):
    m = case["methods"]
    lay = case["layout"]
    root = cc.Schema()
    root.name = cc.StringField(default="app")
    root.s = cc.SecureField(method=m["s"])
    root.s2 = cc.SecureField(method=m.get("s2", m["s"]))  # a second secret right next to the first
    root.lst = cc.ListField(cc.SecureField(method=m["lst"]))
    root.dsec = cc.DictField(cc.StringField(), cc.SecureField(method=m["dsec"]))
    root.a.dsec = cc.DictField(cc.StringField(), cc.SecureField(method=m["a.dsec"]))
    root.a.s = cc.SecureField(method=m["a.s"])
    root.a.plain = cc.IntField(default=1)
    root.a.b.s = cc.SecureField(method=m["a.b.s"])
    root.a.b.c.s = cc.SecureField(method=m["a.b.c.s"])
    ts = cc.Schema()
    ts.s = cc.SecureField(method=m["t.s"])
    ts.inner.s = cc.SecureField(method=m["t.inner.s"])
    tkey = os.path.join(d, "root.key" if lay.get("T_same") else "T.key")
    T = cc.make_type(ts, "T", module="vf_types", key_filename=tkey if lay["T"] else None)
    root.t = T
    root.t2 = cc.make_type(ts, "T", module="vf_types", key_filename=os.path.join(d, "T2.key") if lay.get("T2") else None)
    item = cc.Schema()
    item.n = cc.IntField()
    item.s = cc.SecureField(method=m["items"])
    item.sub.s = cc.SecureField(method=m["items"])
    root.items = cc.ListField(item)
    tis = cc.Schema()
    tis.n = cc.IntField()
    tis.s = cc.SecureField(method=m["titems"])
    TI = cc.make_type(tis, "TI", module="vf_types", key_filename=os.path.join(d, "TI.key") if lay["TI"] else None)
    root.titems = cc.ListField(TI)
    return root


def make_config(cc, schema, case, d, rootkey="root.key", sub=True):
    lay = case["layout"]
    if lay["root"] == "ctor":
        cfg = cc.Config(schema, key_filename=os.path.join(d, rootkey))
    else:
        cfg = schema()
        if lay["root"] == "attr":
            cfg._key_filename = os.path.join(d, rootkey)
    if sub:
        if lay["a"]:
            cfg.a._key_filename = os.path.join(d, "root.key" if lay.get("a_same") else "a.key")
        if lay["ab"]:
            cfg.a.b._key_filename = os.path.join(d, "ab.key")
    return cfg


def expected_keys(case, d, default, rootkey="root.key", sub=True):
    """{position: key file path} by the nearest-ancestor rule."""
    lay = case["layout"]
    rk = os.path.join(d, rootkey) if lay["root"] else default
    ak = os.path.join(d, "root.key" if lay.get("a_same") else "a.key") if (lay["a"] and sub) else rk
    abk = os.path.join(d, "ab.key") if (lay["ab"] and sub) else ak
    tk = os.path.join(d, "root.key" if lay.get("T_same") else "T.key") if lay["T"] else rk
    tik = os.path.join(d, "TI.key") if lay["TI"] else rk
    t2k = os.path.join(d, "T2.key") if lay.get("T2") else rk
    return {"t2.s": t2k, "s": rk, "s2": rk, "lst": rk, "dsec": rk, "a.dsec": ak, "a.s": ak, "a.b.s": abk, "a.b.c.s": abk, "t.s": tk, "t.inner.s": tk, "items": rk,
            "titems": tik}


def fill(cfg, values):
    cfg.s = values["s"]
    cfg.s2 = values.get("s2", "")
    cfg.lst = list(values["lst"])
    cfg.dsec = dict(values.get("dsec", {}))
    cfg.a.dsec = dict(values.get("a.dsec", {}))
    cfg.a.s = values["a.s"]
    cfg.a.b.s = values["a.b.s"]
    cfg.a.b.c.s = values["a.b.c.s"]
    cfg.t.s = values["t.s"]
    cfg.t.inner.s = values["t.inner.s"]
    if "t2.s" in values:
        cfg.t2.s = values["t2.s"]
    cfg.items = [dict(it) for it in values["items"]]
    cfg.titems = [dict(it) for it in values["titems"]]


def secret_positions(values):
    """[(position, path-in-tree as list, plaintext)]"""
    out = [("s", ["s"], values["s"]), ("s2", ["s2"], values.get("s2", "")), ("a.s", ["a", "s"], values["a.s"]), ("a.b.s", ["a", "b", "s"], values["a.b.s"]),
           ("a.b.c.s", ["a", "b", "c", "s"], values["a.b.c.s"]), ("t.s", ["t", "s"], values["t.s"]),
           ("t.inner.s", ["t", "inner", "s"], values["t.inner.s"])]
    if "t2.s" in values:
        out.append(("t2.s", ["t2", "s"], values["t2.s"]))
    for i, v in enumerate(values["lst"]):
        out.append(("lst", ["lst", i], v))
    for k, v in values.get("dsec", {}).items():
        out.append(("dsec", ["dsec", k], v))
    for k, v in values.get("a.dsec", {}).items():
        out.append(("a.dsec", ["a", "dsec", k], v))
    for i, it in enumerate(values["items"]):
        out.append(("items", ["items", i, "s"], it["s"]))
        out.append(("items", ["items", i, "sub", "s"], it["sub"]["s"]))
    for i, it in enumerate(values["titems"]):
        out.append(("titems", ["titems", i, "s"], it["s"]))
    return out


def dig(tree, path):
    cur = tree
    for p in path:
        cur = cur[p]
    return cur


def read_values(cfg):
    return {
        "s": cfg.s, "s2": cfg.s2, "lst": list(cfg.lst or []), "dsec": dict(cfg.dsec or {}), "a.dsec": dict(cfg.a.dsec or {}), "a.s": cfg.a.s, "a.b.s": cfg.a.b.s, "a.b.c.s": cfg.a.b.c.s, "t.s": cfg.t.s,
        "t.inner.s": cfg.t.inner.s, "t2.s": cfg.t2.s,
        "items": [{"s": it.s, "sub": {"s": it.sub.s}, "n": it.n} for it in (cfg.items or [])],
        "titems": [{"s": it.s, "n": it.n} for it in (cfg.titems or [])],
    }


def _norm(v):
    return None if v == "" else v


def run(case, ctx, res):
    cc = ctx.cc
    d = ctx.dir
    lay = case["layout"]
    default = ctx.sb.default_keyfile
    log = ctx.filelog
    if log is None:
        log = ctx.filelog = FileLog(ctx.sb.root)
    allkeys = [os.path.join(d, n) for n in ("root.key", os.path.join("late", "root.key"), "root2.key", "a.key", "ab.key", "T.key", "T2.key", "TI.key", "donor.key")] + [default]
    if lay["existing"]:
        for i, p in enumerate(allkeys):
            if os.path.basename(os.path.dirname(p)) == "late":
                continue
            with open(p, "wb") as fp:
                fp.write(bytes((case["r"] + 7 * i + j * 13) % 256 for j in range(32)))
    schema = build_schema(cc, case, d)
    rootkey = lay.get("rootkey_name") or "root.key"
    if lay.get("rootkey_name"):
        os.environ["VFSTAGE"] = "prod"  # (the sandbox restores the environment after the case)
        res.count("key_file_names_a_shell_would_expand")
        allkeys += [os.path.join(d, n) for n in (lay["rootkey_name"], "app-prod.key", "prod.key", "prod")]
        if lay["existing"]:
            with open(os.path.join(d, rootkey), "wb") as fp:
                fp.write(bytes((case["r"] + 3 * j + 1) % 256 for j in range(32)))
    if lay.get("keydir_late") and lay["root"]:
        rootkey = os.path.join("late", "root.key")
    cfg = make_config(cc, schema, case, d, rootkey)
    fill(cfg, case["values"])
    if lay.get("transplant_a"):
        donor = cc.Config(schema, key_filename=os.path.join(d, "donor.key"))
        fill(donor, case["values"])
        donor.dumps("json")  # the donor tree has used its own key file already
        cfg.a = donor.a
        res.count("layout:transplanted-subconfig")
    if lay.get("standalone_a") and not (lay["a"] or lay["ab"] or lay.get("transplant_a")):
        # the section is first built and used on its own (nobody names a key file: the default one serves), then it becomes
        # part of this tree - from then on it follows the tree
        free = schema.a()
        free.s = case["values"]["a.s"]
        free.dsec = dict(case["values"].get("a.dsec", {}))
        free.b.s = case["values"]["a.b.s"]
        free.b.c.s = case["values"]["a.b.c.s"]
        try:
            free.dumps("json")
        except Exception as exc:
            res.viol("M-save", "dumps-raises:standalone-section", "dumps of a section configuration built on its own raised %r" % (exc,))
            return
        cfg.a = free
        res.count("layout:section-used-on-its-own-before-joining-the-tree")
    if lay.get("standalone_item") and case["values"]["items"]:
        # an item is first built and used on its own (the default key file serves), then it takes the place of the first item of
        # the tree's list: it follows the tree from then on
        first = case["values"]["items"][0]
        free = schema.items.field()
        free.n, free.s = first["n"], first["s"]
        free.sub.s = first["sub"]["s"]
        try:
            free.dumps("json")
        except Exception as exc:
            res.viol("M-save", "dumps-raises:standalone-item", "dumps of an item configuration built on its own raised %r" % (exc,))
            return
        how = case["r"] % 3
        if how == 0:
            cfg.items[0] = free
        elif how == 1:
            cfg.items.pop(0)
            cfg.items.insert(0, free)
        else:
            cfg.items = [free] + list(cfg.items)[1:]
        res.count("layout:item-used-on-its-own-before-joining-the-list")
    for name in ("root-ctor" if lay["root"] == "ctor" else "root-attr" if lay["root"] == "attr" else "default",):
        res.count("layout:" + name)
    if lay["a"] or lay["ab"]:
        res.count("layout:sub")
    if lay["T"] or lay["TI"]:
        res.count("layout:ctype")
    if lay.get("T_same") or lay.get("a_same"):
        res.count("layout:names-inherited-file")
    if lay.get("only_keyed_subtrees"):
        res.count("layout:only-keyed-subtrees")
    if lay.get("T2") != lay["T"] or (lay.get("T2") and not lay.get("T_same")):
        res.count("layout:two-types-one-schema-different-keyfiles")
    if case["values"]["items"] or case["values"]["titems"] or case["values"]["lst"]:
        res.count("secrets_in_list_items")
    positions = secret_positions(case["values"])
    if rootkey != "root.key":
        res.count("layout:key-directory-created-after-a-failed-save")
        try:
            cfg.dumps(case["fmts"][0])
            res.count("save_without_key_directory_did_not_fail")
        except Exception:
            res.count("saves_failed_for_missing_key_directory")
        os.makedirs(os.path.join(d, "late"), exist_ok=True)
        if lay["existing"] and case["r"] % 2:
            with open(os.path.join(d, rootkey), "wb") as fp:
                fp.write(bytes((case["r"] + 5 * j) % 256 for j in range(32)))
    rounds = [("first", rootkey)]
    if lay["rekey"] and lay["root"]:
        rounds.append(("rekeyed", "root2.key"))
    for rname, rkey in rounds:
        if rname == "rekeyed":
            # the root names another key file after the first use: everything that inherits from it must follow
            cfg._key_filename = os.path.join(d, rkey)
            res.count("rekey_after_first_use")
        exp = expected_keys(case, d, default, rkey)
        # what every configuration of the tree SAYS its key file is agrees with the nearest-ancestor rule
        res.count("key_file_names_reported_by_the_configurations_checked")
        for where, holder, pos in (("<root>", cfg, "s"), ("a", cfg.a, "a.s"), ("a.b", cfg.a.b, "a.b.s"), ("a.b.c", cfg.a.b.c, "a.b.c.s"),
                                   ("t", cfg.t, "t.s"), ("t.inner", cfg.t.inner, "t.inner.s"), ("t2", cfg.t2, "t2.s")):
            said = holder._key_filename
            if os.path.expanduser(said) != exp[pos]:
                res.viol("M-key", "reported-key-file:" + rname, "%s says its key file is %s, the nearest ancestor that names one gives %s" % (
                    where, said, exp[pos]))
                return
        for fmt in case["fmts"]:
            if not _save_and_check(cc, ctx, res, case, cfg, schema, fmt, positions, exp, log, allkeys, rname, rkey):
                return
    if lay.get("big_secret"):
        res.count("secrets_longer_than_64KiB")
    last_key = rounds[-1][1]
    if lay.get("rotate") and not (lay["a"] or lay["ab"] or lay.get("transplant_a")):
        fmt = case["fmts"][0]
        if lay["rotate"] == "after-failed-load":
            # a document of this very configuration, with one value made unacceptable: the load fails half way
            try:
                codec = cc.ConfigFormat.get(fmt)
                tree = codec.loads(cfg, cfg.dumps(fmt))
                tree["name" if case["r"] % 2 else "a"] = 5 if case["r"] % 2 else dict(tree["a"], plain="not-a-number")
                doc = codec.dumps(cfg, tree)
            except Exception:
                doc = None
            if doc is not None:
                try:
                    cfg.loads(doc, fmt)
                    res.count("load_expected_to_fail_succeeded")
                except Exception:
                    res.count("failed_loads_before_key_rotation")
                # whatever the failed load left behind, the secrets are the same plaintexts
                try:
                    fill(cfg, case["values"])
                except Exception as exc:
                    res.viol("M-save", "refill-after-failed-load", "assigning the secrets again after a failed load raised %r" % (exc,))
                    return
        # somebody replaces the content of every key file while no save or load is in progress
        for i, pth in enumerate(allkeys):
            if os.path.isfile(pth):
                with open(pth, "wb") as fp:
                    fp.write(bytes((case["r"] * 3 + 11 * i + j * 29 + 5) % 256 for j in range(32)))
        res.count("saves_after_key_files_were_replaced")
        exp = expected_keys(case, d, default, last_key)
        for fmt in case["fmts"][:2]:
            if not _save_and_check(cc, ctx, res, case, cfg, schema, fmt, positions, exp, log, allkeys, "rotated", last_key):
                return
    if lay.get("move_items") and (case["values"]["items"] or case["values"]["titems"]):
        if not _move_items(cc, ctx, res, case, cfg, schema, default):
            return
    # only a SECTION of the tree is kept by the caller (the root goes out of scope): its secrets still belong to the key
    # file of the ancestors it was built under
    if lay.get("orphan_section"):
        import gc

        tmp = make_config(cc, schema, case, d, rootkey)
        fill(tmp, case["values"])
        section = tmp.a
        del tmp
        gc.collect()
        fmt = case["fmts"][0]
        exp = expected_keys(case, d, default, rootkey)
        log.clear()
        with log:
            try:
                blob = section.dumps(fmt)
                tree = cc.ConfigFormat.get(fmt).loads(section, blob)
                err = None
            except Exception as exc:
                err = exc
        if err is not None:
            res.viol("M-save", "dumps-raises:orphan-section", "dumps(%s) of a section whose root is no longer referenced raised %s: %s" % (
                fmt, type(err).__name__, str(err)[:200]))
            return
        res.count("sections_saved_without_a_reference_to_the_root")
        for pos, path, plain in positions:
            if not pos.startswith("a.") or not plain:
                continue
            try:
                entry = dig(tree, path[1:])
                with open(exp[pos], "rb") as fp:
                    key = fp.read()
                ct = base64.b64decode(entry["ciphertext"])
                got = aes_ref.aes_decrypt(key, ct) if entry["method"] == "aes" else aes_ref.xor_stream(key, ct)
            except Exception as exc:
                got = exc
            if got != plain.encode():
                touched = sorted(os.path.basename(e[1]) for e in log.events if e[1] in allkeys)
                res.viol("M-key", "wrong-key:orphan-section", "%s: secret %s of a section saved on its own (root not referenced any more) "
                         "does not decrypt under the expected key file %s (key files opened: %s)" % (
                             fmt, ".".join(map(str, path)), os.path.basename(exp[pos]), touched))
                return
    depths = {len(p) for _pos, p, v in positions if v}
    if len([1 for _pos, _p, v in positions if v]) >= 2 and len(depths) >= 2:
        res.nontrivial(case["layout"], case["methods"], case["values"], case["fmts"])


def _save_and_check(cc, ctx, res, case, cfg, schema, fmt, positions, exp, log, allkeys, rname, rkey):
    d = ctx.dir
    lay = case["layout"]
    feat_l = "%s/%s" % (rname, "+".join(sorted(k for k in ("a", "ab", "T", "TI", "T2") if lay.get(k))) or ("root-" + str(lay["root"])))
    log.clear()
    with log:
        try:
            blob = cfg.dumps(fmt)
        except Exception as exc:
            res.viol("M-save", "dumps-raises:" + rname, "dumps(%s) of a configuration with secrets raised %s: %s" % (
                fmt, type(exc).__name__, str(exc)[:200]))
            return False
    touched_save = {e[1] for e in log.events if e[1] in allkeys}
    # (1) no plaintext in the output
    res.count("documents_scanned_for_tokens")
    for pos, path, plain in positions:
        if not plain:
            continue
        tok = plain[plain.index("tk"): plain.index("tk") + 18]
        hit = find_token(blob, tok)
        if hit:
            res.viol("M-leak", "plaintext-in-output:%s" % pos, "%s document contains the plaintext of %s (%s encoding)" % (
                fmt, ".".join(map(str, path)), hit))
            return False
    # (2) shape + oracle decryption under the expected key file
    tree = cc.ConfigFormat.get(fmt).loads(cfg, blob)
    for pos, path, plain in positions:
        try:
            entry = dig(tree, path)
        except Exception:
            res.viol("M-shape", "missing:%s" % pos, "%s document has no entry for %s" % (fmt, path))
            return False
        if not plain:
            if entry is not None:
                res.viol("M-shape", "empty-secret:%s" % pos, "empty secret %s is written as %r" % (path, entry))
                return False
            continue
        if not (isinstance(entry, dict) and set(entry) == {"method", "ciphertext"} and entry["method"] in ("aes", "xor")
                and isinstance(entry["ciphertext"], str)):
            res.viol("M-shape", "entry:%s" % pos, "%s: secret %s is written as %r" % (fmt, path, _short(entry)))
            return False
        want_method = case["methods"][pos]
        if want_method != "best" and entry["method"] != want_method:
            res.viol("M-shape", "method:%s" % pos, "secret %s declared %s, document says %s" % (path, want_method, entry["method"]))
            return False
        keyfile = exp[pos]
        try:
            with open(keyfile, "rb") as fp:
                key = fp.read()
        except OSError:
            res.viol("M-key", "expected-keyfile-absent:%s" % rname, "secret %s was encrypted but its expected key file %s "
                     "does not exist (files touched: %s)" % (path, os.path.basename(keyfile), sorted(os.path.basename(p) for p in touched_save)))
            return False
        ct = base64.b64decode(entry["ciphertext"])
        got = aes_ref.aes_decrypt(key, ct) if entry["method"] == "aes" else aes_ref.xor_stream(key, ct)
        res.count("ciphertexts_decrypted_by_oracle")
        if got != plain.encode():
            res.viol("M-key", "wrong-key:%s" % rname, "%s: secret %s does not decrypt to its plaintext under the expected "
                     "key file %s (files opened while saving: %s)" % (fmt, ".".join(map(str, path)), os.path.basename(keyfile),
                                                                      sorted(os.path.basename(p) for p in touched_save)))
            return False
    # (3) key files touched while saving
    res.count("keyfile_open_sets_checked")
    allowed = {exp[pos] for pos, _p, plain in positions if plain}
    extra = touched_save - allowed
    if extra:
        res.viol("M-files", "unexpected-keyfile-on-save:" + rname, "dumps(%s) opened %s; expected only %s" % (
            fmt, sorted(os.path.basename(p) for p in extra), sorted(os.path.basename(p) for p in allowed)))
        return False
    # (3b) new configuration objects built in one go from stored sections: Config(schema, key_filename=K, section=<stored>)
    if not _construct_from_stored(cc, ctx, res, case, cfg, schema, fmt, tree, exp, log, allkeys, rname):
        return False
    # (4) reload into a fresh configuration (sub-configuration level keys are judged for saving only)
    if lay["a"] or lay["ab"]:
        res.count("reload_not_judged_sub_instance_key")
        return True
    want = case["values"]
    if case["newproc"] and rname == "first":
        got = _reload_in_new_process(ctx, case, blob, fmt, rkey)
        res.count("new_process_reloads")
        if isinstance(got, str):
            res.viol("M-reload", "new-process:" + rname, "a new process cannot load the document: %s" % got[:300])
            return False
    else:
        fresh = make_config(cc, schema, case, d, rkey, sub=False)
        log.clear()
        with log:
            try:
                fresh.loads(blob, fmt)
            except Exception as exc:
                res.viol("M-reload", "loads-raises:" + rname, "loading the %s document with the same key file raised %s: %s" % (
                    fmt, type(exc).__name__, str(exc)[:200]))
                return False
        touched_load = {e[1] for e in log.events if e[1] in allkeys}
        extra = touched_load - allowed
        if extra:
            res.viol("M-files", "unexpected-keyfile-on-load:" + rname, "loads(%s) opened %s; expected only %s" % (
                fmt, sorted(os.path.basename(p) for p in extra), sorted(os.path.basename(p) for p in allowed)))
            return False
        got = read_values(fresh)
    res.count("reloads_compared")
    for pos, path, plain in positions:
        try:
            if pos in ("lst", "items", "titems", "dsec"):
                val = dig(got, path)
            elif pos == "a.dsec":
                val = got["a.dsec"][path[-1]]
            else:
                val = got[pos]
        except Exception:
            val = "<missing>"
        if _norm(val) != _norm(plain):
            res.viol("M-reload", "plaintext-differs:%s" % rname, "%s: secret %s reloads as %r, not %r" % (
                fmt, ".".join(map(str, path)), _short(val), _short(plain)))
            return False
    return True


def _construct_from_stored(cc, ctx, res, case, cfg, schema, fmt, tree, exp, log, allkeys, rname):
    """New configuration objects are built in ONE constructor call from sections of the stored document (keyword data in the
    on-disk form) together with the key file the stored secrets belong to: a new root, a configuration-type object on its own
    (the type names the key file), a section / a list item on its own. Each names (or inherits, or defaults to) exactly the key
    file `exp` gives for the secrets handed in, so these must come back as their plaintexts and no other key file is touched."""
    import copy

    lay, values = case["layout"], case["values"]
    default = ctx.sb.default_keyfile
    positions = secret_positions(values)
    r = (case["r"] >> 3) + len(fmt) + len(rname)
    rk = exp["s"]
    jobs = []  # (what, factory, keyword data, sections handed in, name of the key file or None)
    # -- a new root -----------------------------------------------------------------------------------------------------------
    pool = ["t", "t2", "items", "titems"] + ([] if (lay["a"] or lay["ab"]) else ["a"])
    picked = [sec for i, sec in enumerate(pool) if (r >> i) & 1] or [pool[r % len(pool)]]
    named = None if rk == default else rk
    if r % 5 < 2:
        jobs.append(("root:Config", lambda **kw: cc.Config(schema, **kw), {sec: tree[sec] for sec in picked}, picked, named))
    else:
        jobs.append(("root:schema-call", schema, {sec: tree[sec] for sec in picked}, picked, named))
    # -- a configuration-type object on its own: the type names the key file (or nobody does and the default one served) ----------
    if lay["T"] or exp["t.inner.s"] == default:
        jobs.append(("type-object", type(cfg.t), {"inner": tree["t"]["inner"]}, ["t.inner"], None))
    # -- a section on its own, naming the key file its secrets were stored under ------------------------------------------------------
    abk = exp["a.b.s"]
    jobs.append(("section", schema._fields["a"], {"b": tree["a"]["b"]}, ["a.b"], None if abk == default else abk))
    if values["items"]:
        idx = r % len(values["items"])
        jobs.append(("list-item", schema._fields["items"].field, {"n": tree["items"][idx]["n"], "sub": tree["items"][idx]["sub"]},
                     ["items.%d.sub" % idx], named))
    for what, factory, data, sections, keyname in jobs:
        inside = [(pos, path, plain) for pos, path, plain in positions
                  if any((".".join(map(str, path)) + ".").startswith(sec + ".") for sec in sections)]
        allowed = {exp[pos] for pos, _p, plain in inside if plain}
        kwargs = copy.deepcopy(data)
        if keyname:
            kwargs["key_filename"] = keyname
        log.clear()
        with log:
            try:
                new = factory(**kwargs)
                err = None
            except Exception as exc:
                err = exc
        touched = {e[1] for e in log.events if e[1] in allkeys}
        feat = "%s:%s" % (what, rname)
        if err is not None:
            res.viol("M-reload", "constructor-with-stored-sections-raises:" + feat, "%s: building a new %s from the stored section(s) %s%s raised "
                     "%s: %s (key files opened: %s)" % (fmt, what, sections, " with key_filename=%s" % os.path.basename(keyname) if keyname else "",
                                                        type(err).__name__, str(err)[:200], sorted(os.path.basename(p) for p in touched)))
            return False
        res.count("configurations_constructed_from_stored_sections")
        res.count("constructed_from_stored_sections:" + what.split(":")[0])
        extra = touched - allowed
        if extra:
            res.viol("M-files", "unexpected-keyfile-on-construction:" + feat, "%s: building a new %s from the stored section(s) %s opened %s; "
                     "expected only %s" % (fmt, what, sections, sorted(os.path.basename(p) for p in extra),
                                           sorted(os.path.basename(p) for p in allowed)))
            return False
        for pos, path, plain in inside:
            # path below the object built: a root takes the whole path, the others drop the prefix that names the section's owner
            rel = path if what.startswith("root") else path[{"type-object": 1, "section": 1, "list-item": 2}[what]:]
            try:
                cur = new
                for seg in rel:
                    cur = cur[seg]
            except Exception as exc:
                cur = "<unreadable: %r>" % (exc,)
            res.count("secrets_read_from_constructed_configurations")
            if _norm(cur) != _norm(plain):
                res.viol("M-reload", "plaintext-differs-after-construction:" + feat, "%s: secret %s of a new %s built from the stored "
                         "section(s) %s reads %s, not %s (key files opened: %s)" % (
                             fmt, ".".join(map(str, path)), what, sections, _short(cur), _short(plain),
                             sorted(os.path.basename(p) for p in touched)))
                return False
    return True


def _move_items(cc, ctx, res, case, cfg, schema, default):
    """Items of `cfg` are handed over as objects to a second configuration with another key file; its save must encrypt
    them with ITS key file (config-type items: with the type's own, when it names one)."""
    d, lay = ctx.dir, case["layout"]
    other = cc.Config(schema, key_filename=os.path.join(d, "donor.key"))
    fill(other, dict(case["values"], items=[], titems=[]))
    moved = []
    try:
        if len(cfg.items) and case["r"] % 3 == 2:
            # the typed list itself is handed over (other.items = cfg.items), not one of its members
            other.items = cfg.items
            res.count("typed_lists_handed_over_to_a_second_configuration")
            moved.append((["items", 0, "s"], case["values"]["items"][0]["s"], os.path.join(d, "donor.key")))
            moved.append((["items", 0, "sub", "s"], case["values"]["items"][0]["sub"]["s"], os.path.join(d, "donor.key")))
        elif len(cfg.items):
            it = cfg.items.pop(0) if case["r"] % 2 else cfg.items[0]
            other.items.append(it)
            moved.append((["items", 0, "s"], case["values"]["items"][0]["s"], os.path.join(d, "donor.key")))
            moved.append((["items", 0, "sub", "s"], case["values"]["items"][0]["sub"]["s"], os.path.join(d, "donor.key")))
        if len(cfg.titems):
            it = cfg.titems[0] if case["r"] % 2 else cfg.titems.pop(0)
            other.titems = [it]
            moved.append((["titems", 0, "s"], case["values"]["titems"][0]["s"], os.path.join(d, "TI.key" if lay["TI"] else "donor.key")))
    except Exception as exc:
        res.viol("M-save", "move-items-raises", "handing an item over to a second configuration raised %r" % (exc,))
        return False
    fmt = case["fmts"][-1]
    try:
        tree = cc.ConfigFormat.get(fmt).loads(other, other.dumps(fmt))
    except Exception as exc:
        res.viol("M-save", "dumps-raises:moved-items", "dumps(%s) of the configuration that took the items over raised %s: %s" % (
            fmt, type(exc).__name__, str(exc)[:200]))
        return False
    res.count("items_handed_over_to_a_second_configuration")
    for path, plain, keyfile in moved:
        if not plain:
            continue
        try:
            entry = dig(tree, path)
            with open(keyfile, "rb") as fp:
                key = fp.read()
            ct = base64.b64decode(entry["ciphertext"])
            got = aes_ref.aes_decrypt(key, ct) if entry["method"] == "aes" else aes_ref.xor_stream(key, ct)
        except Exception as exc:
            got = exc
        if got != plain.encode():
            res.viol("M-key", "wrong-key:moved-item", "%s: secret %s of an item taken over from another configuration does not decrypt "
                     "under the key file of the configuration that holds it now (%s)" % (fmt, ".".join(map(str, path)), os.path.basename(keyfile)))
            return False
    return True


def _short(v):
    r = repr(v)
    return r if len(r) < 90 else r[:87] + "..."


def _reload_in_new_process(ctx, case, blob, fmt, rkey):
    """Load the document in a brand-new interpreter (a 'new session')."""
    d = ctx.dir
    path = os.path.join(d, "doc.bin")
    with open(path, "wb") as fp:
        fp.write(blob)
    from .. import jsonx

    job = {"case": jsonx.enc(case), "dir": d, "fmt": fmt, "doc": path, "rkey": rkey, "repo": ctx.sb.repo}
    code = ("import sys, json, os\n"
            "job = json.loads(sys.argv[1])\n"
            "sys.path.insert(0, job['repo'])\n"
            "import cincoconfig as cc\n"
            "from vf import jsonx\n"
            "from vf.props import c03\n"
            "case = jsonx.dec(job['case'])\n"
            "schema = c03.build_schema(cc, case, job['dir'])\n"
            "cfg = c03.make_config(cc, schema, case, job['dir'], job['rkey'], sub=False)\n"
            "cfg.load(job['doc'], job['fmt'])\n"
            "print(json.dumps(c03.read_values(cfg)))\n")
    env = dict(os.environ, PYTHONPATH=os.path.dirname(os.path.dirname(os.path.dirname(os.path.abspath(__file__)))))
    out = subprocess.run([sys.executable, "-c", code, json.dumps(job)], capture_output=True, text=True, timeout=120, env=env)
    if out.returncode != 0:
        return "exit %d: %s" % (out.returncode, out.stderr.strip()[-400:])
    return json.loads(out.stdout.strip().splitlines()[-1])
