"""C11 - a load that returns means required fields are set and every validator passed."""
import copy
import os
import random

from .. import gen, history, model, spec, trees
from ..common import plain
from .c05 import env_of

PLAN = {
    "quick": {"shards": 8, "cases": 1500, "min_nontrivial": 5000, "budget_s": 300},
    "thorough": {"shards": 16, "cases": 20000, "min_nontrivial": 112000, "budget_s": 1500},
}
RULE = ("schemas with required fields (with and without defaults), schema-level and field-level validators (pass / fail "
        "/ raise a non-ValueError, all logging their invocations), feature flags at depth 0-3 and lists of schemas; a "
        "sequence of load_tree / loads / load / validate / validate(collect_errors=True) calls with complete, partial "
        "and empty valid trees over prior states; whenever a call returns normally an independent walk (a "
        "configuration is enabled iff all its feature flags are truthy; a disabled one and its subtree are skipped) "
        "must find every required field set and non-empty, no reachable failing validator, and an invocation-log "
        "entry of this call for every validator of an enabled schema and of every loaded field; collecting mode must "
        "be empty exactly when raising mode does not raise; a load must not raise when the only unmet requirements "
        "are own required fields / schema validators of a disabled sub-configuration; inserted list items with a "
        "missing required field must be rejected; configurations built from a look-alike schema (same keys and kinds of fields, nothing "
        "required, no validators) are offered for sections before a call and for list items (judged by the same walk over the declared "
        "schema); a list of configurations with declared default items (maps / objects, list / callable, incomplete at creation or "
        "after the defaults changed and the list was reset) is validated and loaded and judged by the same walk; "
        "non-trivial = >= 1 returning call judged plus >= 1 further call (returning or raising); distinct = "
        "distinct (schema, calls)")
REQUIRED = ("required_fields_added_to_the_schema_after_the_configuration_was_built", "fields_with_two_registered_validators", "documents_listing_feature_flags_last", "config_types_with_validators_registered_after_make_type", "trees_with_a_section_given_as_configuration_object", "same_file_loaded_again_after_in_place_change", "feature_flags_redeclared_as_plain_booleans", "schemas_with_shared_validator_decorator", "schemas_with_sections_named_like_config_methods", "sections_shared_with_a_second_parent", "loads_with_empty_required_values", "reinsertions_of_invalidated_members", "calls_returned_judged", "calls_raised", "required_walks", "validator_log_checks", "collect_mode_compared",
            "exemption_cases_judged", "list_item_insertions_judged", "call:load_tree", "call:loads", "call:load", "call:validate",
            "flags_off_seen", "failing_validators_seen", "lookalike_configurations_offered_for_a_section",
            "lookalike_configurations_offered_for_a_list_item", "default_item_lists_declared", "default_item_calls_returned_judged")
ASSUMPTIONS = ["one-directional: nothing is demanded of calls that raise, except the exemption of disabled sub-configurations",
               "sub-configurations nested inside a disabled one: no claim either way",
               "field validators are only expected to have run for fields that hold a value (a validator is not called "
               "with None)"]
SHRINK_KEY = "calls"


def decorate(rng, node, depth=0):
    """Add flags, validators and required fields to a generated schema node (in place)."""
    sch = model.fields_of(node)
    if depth > 0 and rng.random() < 0.45:
        keys = gen.pick_keys(rng, 1, avoid={ch["key"] for ch in sch["fields"]})
        flag = {"kind": "field", "key": keys[0], "family": "flag", "params": {}}
        r = rng.random()
        if r < 0.4:
            flag["params"]["default"] = True
        elif r < 0.7:
            flag["params"]["default"] = False
        sch["fields"].insert(rng.randrange(len(sch["fields"]) + 1), flag)
    if rng.random() < 0.5:
        sch["validators"] = [rng.choice(["pass"] * 8 + ["fail", "boom", "fail-ve"]) for _ in range(rng.choice([1, 1, 2, 3]))]
        if len(sch["validators"]) > 1 and rng.random() < 0.5:
            sch["shared_decorator"] = True
            rng.shuffle(sch["validators"])
    if node.get("kind") == "ctype" and sch.get("validators") and rng.random() < 0.4:
        node["late_validators"] = True
    for ch in sch["fields"]:
        if ch["kind"] in ("schema", "ctype"):
            decorate(rng, ch, depth + 1)
        elif ch["family"] == "list" and ch.get("item") and ch["item"]["kind"] != "field":
            decorate(rng, ch["item"], depth + 1)
        elif ch["family"] not in ("flag", "virtual", "method", "include"):
            if rng.random() < 0.25:
                ch["params"]["required"] = True
            if rng.random() < 0.25:
                ch["params"]["validator"] = rng.choice(["pass"] * 6 + ["fail", "boom"])
                if rng.random() < 0.3 and ch["family"] not in ("list", "dict"):
                    # ... and a second one registered later: both count (the first may be the one that says no)
                    ch["params"]["validator2"] = "pass"
                    ch["params"]["validators_by_one_decorator"] = rng.random() < 0.5
                    node["two_field_validators"] = True


def _empty_some_required(rng, node, tree):
    """Give some required string / list / dict fields an EMPTY value in a load tree (in place); True when one was."""
    done = False
    for ch in model.stored_children(node):
        k = ch["key"]
        if ch["kind"] in ("schema", "ctype"):
            if isinstance(tree.get(k), dict):
                done = _empty_some_required(rng, ch, tree[k]) or done
        elif ch.get("params", {}).get("required") and ch["family"] in ("str", "list", "dict", "host", "loglevel") and rng.random() < 0.5:
            tree[k] = {"list": [], "dict": {}}.get(ch["family"], "")
            done = True
        elif ch["family"] == "list" and ch.get("item") and ch["item"]["kind"] != "field" and isinstance(tree.get(k), list):
            for it in tree[k]:
                if isinstance(it, dict):
                    done = _empty_some_required(rng, ch["item"], it) or done
    return done


def _flags_last(node, tree):
    if not isinstance(tree, dict):
        return tree
    kids = {ch["key"]: ch for ch in model.fields_of(node)["fields"]}
    out, flags = {}, {}
    for k, v in tree.items():
        ch = kids.get(k)
        if ch is not None and ch["kind"] == "field" and ch["family"] == "flag":
            flags[k] = v
        elif ch is not None and ch["kind"] in ("schema", "ctype"):
            out[k] = _flags_last(ch, v)
        elif ch is not None and ch["kind"] == "field" and ch["family"] == "list" and ch.get("item") and ch["item"]["kind"] != "field" \
                and isinstance(v, list):
            out[k] = [_flags_last(ch["item"], it) for it in v]
        else:
            out[k] = v
    out.update(flags)
    return out


def generate(rng, ctx):
    thorough = ctx.tier == "thorough"
    fams = ["str", "int", "float", "bool", "port", "host", "loglevel", "list", "dict", "str", "int"]
    schema = gen.gen_schema(rng, depth=rng.choice([1, 2, 3] if thorough else [1, 2, 2]), width=rng.choice([2, 3, 4]),
                            families=fams, defaults=0.45, dynamic=0.0)
    decorate(rng, schema)
    # sections (and fields) may be named like methods of the Config class
    if rng.random() < 0.3:
        names = ["save", "load", "validate", "dumps", "loads", "to_tree", "load_tree"]
        cand = [ch for ch in schema["fields"] if ch["kind"] in ("schema", "ctype")] or schema["fields"]
        taken = {ch["key"] for ch in schema["fields"]}
        free = [n for n in names if n not in taken]
        if cand and free:
            rng.choice(cand)["key"] = rng.choice(free)
            schema["method_like_names"] = True
    env = gen.GEN_ENV
    calls = []
    if rng.random() < 0.2:
        # a section that is switched off by default holds a list of items that have a feature flag of their own (on) and a
        # required field; a document gives an incomplete item FIRST and switches the section on AFTERWARDS
        keys = gen.pick_keys(rng, 6, avoid={ch["key"] for ch in schema["fields"]})
        item = {"kind": "schema", "key": "", "fields": [
            {"kind": "field", "key": keys[0], "family": "flag", "params": {"default": True}},
            {"kind": "field", "key": keys[1], "family": "str", "params": {"required": True}},
            {"kind": "field", "key": keys[2], "family": "int", "params": {"default": 1}}]}
        if rng.random() < 0.5:
            item["validators"] = ["fail"]
            item["fields"][1]["params"].pop("required")
        sec = {"kind": "schema", "key": keys[3], "fields": [
            {"kind": "field", "key": keys[4], "family": "list", "params": {}, "item": item},
            {"kind": "field", "key": keys[5], "family": "flag", "params": {"default": False}}]}
        if rng.random() < 0.5:
            sec["fields"].reverse()
        schema["fields"].append(sec)
        calls.append({"call": rng.choice(["load_tree", "loads", "load"]), "fmt": rng.choice(trees.FORMATS), "flags_last": True,
                      "tree": {keys[3]: {keys[4]: [{keys[2]: 5}], keys[5]: True}}})
    for _ in range(rng.randrange(2, 9 if thorough else 6)):
        kind = rng.choice(["load_tree", "load_tree", "loads", "load", "validate", "insert"])
        call = {"call": kind}
        if kind in ("load_tree", "loads", "load"):
            call["tree"] = gen.tree_for(rng, schema, env, valid=True, partial=rng.choice([0.0, 0.2, 0.5, 0.9]))
            if rng.random() < 0.15:
                call["tree"] = {}
            elif rng.random() < 0.2:
                call["emptied"] = _empty_some_required(rng, schema, call["tree"])
            call["fmt"] = rng.choice(trees.FORMATS)
            if rng.random() < 0.35:
                # the document lists the feature flags of every section after the section's other keys
                call["tree"] = _flags_last(schema, call["tree"])
                call["flags_last"] = True
            if kind == "load" and rng.random() < 0.5:
                # the same file again: the configuration is changed in place after a load (a required value is taken away),
                # then the file -- untouched, or rewritten under the same name -- is loaded once more
                call["again"] = rng.choice(["untouched", "untouched", "rewritten"])
            if kind == "load_tree" and rng.random() < 0.3:
                # a section of the tree is given as a configuration object of the section's schema instead of a map
                secs = [ch["key"] for ch in schema["fields"] if ch["kind"] == "schema" and isinstance(call["tree"].get(ch["key"]), dict)]
                if secs:
                    call["as_object"] = rng.choice(secs)
                    call["object_drop"] = rng.random() < 0.6
        if kind == "insert":
            lists = [(p, nd) for p, nd in spec.walk(schema) if nd["kind"] == "field" and nd["family"] == "list"
                     and nd.get("item") and nd["item"]["kind"] != "field" and "[]" not in p]
            if not lists:
                call = {"call": "validate"}
            else:
                p, nd = rng.choice(lists)
                call["path"] = p
                call["item"] = gen.tree_for(rng, nd["item"], env, valid=True, partial=rng.choice([0.0, 0.5, 0.9]))
                call["how"] = rng.choice(["append", "insert", "setitem", "reinsert", "reinsert"])
                call["via"] = rng.choice(["setitem", "append", "insert", "slice"])
        if call["call"] == "validate" and rng.random() < 0.25:
            # the schema is edited between two uses: a feature flag is re-declared as an ordinary boolean under its key
            flags = [p for p, nd in spec.walk(schema) if nd["kind"] == "field" and nd["family"] == "flag" and "[]" not in p and
                     all(spec.node_at(schema, ".".join(p.split(".")[:i]))["kind"] == "schema" for i in range(1, p.count(".") + 1))]
            if flags:
                call["redeclare_flag"] = rng.choice(flags)
        if call["call"] in ("validate", "load_tree") and rng.random() < 0.12:
            # the schema grows after the configuration was built: a required field without default (root or section)
            secs = [""] + [p for p, nd in spec.walk(schema) if nd["kind"] == "schema" and "[]" not in p and
                           all(spec.node_at(schema, ".".join(p.split(".")[:i]))["kind"] == "schema" for i in range(1, p.count(".") + 2))]
            call["grow"] = [rng.choice(secs), "zz_late_%d" % len(calls)]
        if call["call"] == "validate" and rng.random() < 0.5:
            # before validating: a section of this configuration is also assigned to a second configuration of the schema
            # (which becomes its parent), then one of its required fields is reset in place
            secs = [p for p, nd in spec.walk(schema) if nd["kind"] in ("schema", "ctype") and "[]" not in p]
            if secs:
                call["share"] = rng.choice(secs)
        calls.append(call)
    case = {"schema": schema, "calls": calls}
    _more_workload(random.Random(rng.getrandbits(64)), case, env)
    return case


def _own_demands(node):
    """Does the (sub)configuration of this node demand anything by itself (a required field without default, a validator)?"""
    sch = model.fields_of(node)
    if sch.get("validators"):
        return True
    for ch in sch["fields"]:
        if ch["kind"] == "field" and (ch.get("params", {}).get("required") and ch["params"].get("default") is None
                                      or ch.get("params", {}).get("validator")):
            return True
    return False


def _more_workload(rng, case, env):
    """Workload added later, drawn from a random stream of its own (the cases generated before stay what they were):
    configurations built from a LOOK-ALIKE schema (another call of the application's schema factory: same keys, same kinds of
    fields, nothing required, no validators) handed over for a section or for an item of a configuration list; and a
    configuration list whose DEFAULT items are incomplete (at creation, or after the application changed its defaults)."""
    schema, calls = case["schema"], case["calls"]
    secs = [(p, nd) for p, nd in spec.walk(schema) if nd["kind"] in ("schema", "ctype") and "[]" not in p]
    demanding = [(p, nd) for p, nd in secs if _own_demands(nd)]
    for call in calls:
        if call["call"] in ("validate", "load_tree", "loads", "load") and secs and rng.random() < 0.35:
            p, nd = rng.choice(demanding if demanding and rng.random() < 0.8 else secs)
            call["lookalike"] = {"path": p, "tree": gen.tree_for(rng, nd, env, valid=True, partial=rng.choice([0.0, 0.5, 0.9])),
                                 "drop": rng.random() < 0.7}
    lists = [(p, nd) for p, nd in spec.walk(schema) if nd["kind"] == "field" and nd["family"] == "list"
             and nd.get("item") and nd["item"]["kind"] != "field" and "[]" not in p]
    if lists:
        for _ in range(rng.choice([0, 1, 1, 2])):
            p, nd = rng.choice(lists)
            calls.insert(rng.randrange(len(calls) + 1), {
                "call": "insert", "path": p, "how": "lookalike", "via": rng.choice(["setitem", "append", "insert", "slice", "extend"]),
                "item": gen.tree_for(rng, nd["item"], env, valid=True, partial=rng.choice([0.0, 0.5, 0.9])), "drop": rng.random() < 0.7})
    if rng.random() < 0.3:
        case["default_items"] = _gen_default_items(rng, env)


def _gen_default_items(rng, env):
    """A schema of its own: a name and a list of configurations whose field declares default items."""
    fams = ["str", "int", "float", "bool", "port", "host", "loglevel", "str", "int"]
    item = gen.gen_schema(rng, depth=rng.choice([0, 0, 1]), width=rng.choice([2, 3, 4]), families=fams, defaults=0.5, dynamic=0.0,
                          lists_of_cfg=False, ctypes=False)
    if rng.random() < 0.6:
        decorate(rng, item, 1)
    own = [ch for ch in item["fields"] if ch["kind"] == "field" and ch["family"] not in ("flag", "virtual", "method", "include")]
    musts = [ch for ch in own if ch["params"].get("required") and ch["params"].get("default") is None]
    if not musts:
        if own:
            must = rng.choice(own)
        else:
            must = {"kind": "field", "key": gen.pick_keys(rng, 1, avoid={ch["key"] for ch in item["fields"]})[0], "family": "str",
                    "params": {}}
            item["fields"].append(must)
        must["params"]["required"] = True
        must["params"].pop("default", None)
        musts = [must]
    keys = gen.pick_keys(rng, 2, avoid={ch["key"] for ch in item["fields"]})
    items = [gen.tree_for(rng, item, env, valid=True, partial=rng.choice([0.0, 0.5, 0.9])) for _ in range(rng.choice([1, 1, 2, 3]))]
    mode = rng.choice(["good", "bad", "bad", "late", "late"])
    bad = gen.tree_for(rng, item, env, valid=True, partial=rng.choice([0.0, 0.5, 0.9]))
    for ch in musts:
        if rng.random() < 0.7 or ch is musts[0]:
            bad.pop(ch["key"], None)
    calls = []
    for _ in range(rng.randrange(1, 4)):
        kind = rng.choice(["validate", "load_tree", "loads"])
        call = {"call": kind}
        if kind != "validate":
            call["tree"] = rng.choice([{}, {keys[0]: rng.choice(["svc", "svc2", "x"])}])
            call["fmt"] = rng.choice(trees.FORMATS)
        calls.append(call)
    return {"item": item, "name_key": keys[0], "list_key": keys[1], "items": items, "bad": bad, "bad_at": rng.randrange(len(items) + 1),
            "mode": mode, "as_type": rng.random() < 0.4, "callable": rng.random() < 0.6, "objects": rng.random() < 0.35, "calls": calls}


def abbreviate(case):
    return case


# ------------------------------------------------------------------------------------------------
# independent walk


def walk_unmet(node, values, path, out, disabled_out):
    """Unmet requirements of enabled (sub)configurations; disabled ones are recorded and skipped."""
    sch = model.fields_of(node)
    if not model.is_enabled(node, values):
        disabled_out.append(path)
        return
    for ch in sch["fields"]:
        p = (path + "." if path else "") + ch["key"]
        if ch["kind"] == "field" and ch["family"] in ("virtual", "method", "include"):
            continue
        v = values.get(ch["key"])
        if ch["kind"] in ("schema", "ctype"):
            if isinstance(v, dict):
                walk_unmet(ch, v, p, out, disabled_out)
            continue
        prm = ch.get("params", {})
        if prm.get("required") and model.empty_required(ch, v):
            out.append(("required", p, "required field %s is %r" % (p, v)))
        if prm.get("validator") in ("fail", "boom") and v is not None:
            out.append(("field-validator", p, "field validator of %s (%s) cannot have passed" % (p, prm["validator"])))
        if ch["family"] == "list" and ch.get("item") and ch["item"]["kind"] != "field" and isinstance(v, list):
            for i, it in enumerate(v):
                if isinstance(it, dict):
                    walk_unmet(ch["item"], it, "%s[%d]" % (p, i), out, disabled_out)
    for vs in sch.get("validators", ()):
        if vs in ("fail", "boom", "fail-ve"):
            out.append(("schema-validator", path, "schema validator (%s) of %r cannot have passed" % (vs, path or "<root>")))


def own_unmet_of_disabled(node, values, path, out, inside_disabled=False):
    """Own unmet requirements (required fields, failing schema validators) of disabled sub-configurations."""
    sch = model.fields_of(node)
    enabled = model.is_enabled(node, values)
    if not enabled and not inside_disabled:
        for ch in sch["fields"]:
            if ch["kind"] == "field" and ch.get("params", {}).get("required") and model.empty_required(ch, values.get(ch["key"])):
                out.append(path + "." + ch["key"])
        if any(v in ("fail", "boom", "fail-ve") for v in sch.get("validators", ())):
            out.append(path + ":schema-validator")
    for ch in sch["fields"]:
        if ch["kind"] in ("schema", "ctype") and isinstance(values.get(ch["key"]), dict):
            own_unmet_of_disabled(ch, values[ch["key"]], (path + "." if path else "") + ch["key"], out, inside_disabled or not enabled)


def nested_in_disabled(node, values, inside=False):
    """Is there any sub-configuration nested inside a disabled one (no claim is made about those)?"""
    sch = model.fields_of(node)
    enabled = model.is_enabled(node, values)
    for ch in sch["fields"]:
        if ch["kind"] in ("schema", "ctype") and isinstance(values.get(ch["key"]), dict):
            if not enabled or inside:
                return True
            if nested_in_disabled(ch, values[ch["key"]], inside or not enabled):
                return True
    return False


def enabled_validators(node, values, path, out):
    """[(path, n_validators)] of enabled schemas that registered validators."""
    sch = model.fields_of(node)
    if not model.is_enabled(node, values):
        return
    if sch.get("validators"):
        out.append((path, len(sch["validators"])))
    for ch in sch["fields"]:
        if ch["kind"] in ("schema", "ctype") and isinstance(values.get(ch["key"]), dict):
            enabled_validators(ch, values[ch["key"]], (path + "." if path else "") + ch["key"], out)


def run(case, ctx, res):
    cc = ctx.cc
    env = env_of(ctx)
    drv = history.Driver(ctx, res, case["schema"], env)
    cfg, root, log = drv.cfg, drv.root, drv.built.log
    returned = raised = 0
    if case["schema"].get("method_like_names"):
        res.count("schemas_with_sections_named_like_config_methods")
    if any(nd.get("late_validators") for _p, nd in spec.walk(case["schema"])) or any(
            (nd.get("item") or {}).get("late_validators") for _p, nd in spec.walk(case["schema"])):
        res.count("config_types_with_validators_registered_after_make_type")
    if any(nd.get("params", {}).get("validator2") for _p, nd in spec.walk(case["schema"])):
        res.count("fields_with_two_registered_validators")
    if any(nd.get("shared_decorator") for _p, nd in [("", case["schema"])] + list(spec.walk(case["schema"]))):
        res.count("schemas_with_shared_validator_decorator")
    twin = None
    if case.get("default_items"):
        _default_items(ctx, res, spec.resolve(case["default_items"], drv.mapping), env)
    for idx, call in enumerate(case["calls"]):
        kind = call["call"]
        mark = len(log)
        before_vals = plain(cfg)
        if kind == "insert":
            _insert(drv, res, call, idx)
            continue
        res.count("call:" + kind)
        if call.get("redeclare_flag"):
            fpath = call["redeclare_flag"]
            nd = spec.node_at(root, fpath)
            if nd is not None and nd["family"] == "flag":
                try:
                    owner_path, key = spec.split_parent(fpath)
                    owner = drv.built.schema[owner_path] if owner_path else drv.built.schema
                    kw = {"default": nd["params"]["default"]} if "default" in nd.get("params", {}) else {}
                    setattr(owner, key, cc.BoolField(**kw))
                    nd["family"] = "bool"
                    res.count("feature_flags_redeclared_as_plain_booleans")
                except Exception:
                    res.count("redeclare_not_applicable")
        if call.get("grow"):
            sec, key = call["grow"]
            try:
                owner_node = spec.node_at(root, sec) if sec else root
                if owner_node is not None and all(ch["key"] != key for ch in owner_node["fields"]):
                    drv.built.schema[(sec + "." if sec else "") + key] = cc.StringField(required=True)
                    owner_node["fields"].append({"kind": "field", "key": key, "family": "str", "params": {"required": True}})
                    res.count("required_fields_added_to_the_schema_after_the_configuration_was_built")
            except Exception:
                res.count("grow_not_applicable")
        if call.get("share"):
            try:
                if twin is None:
                    twin = cc.Config(drv.built.schema, key_filename=drv.keyfile)
                sec = spec.get_path(cfg, call["share"])
                if isinstance(sec, cc.Config):
                    twin[call["share"]] = sec
                    res.count("sections_shared_with_a_second_parent")
                    nd = spec.node_at(root, call["share"])
                    req = [ch["key"] for ch in model.stored_children(nd) if ch["kind"] == "field" and ch.get("params", {}).get("required")
                           and ch["params"].get("default") is None and ch["family"] not in ("flag", "include")]
                    if req:
                        cc.reset_value(sec, req[0])
            except Exception:
                res.count("share_not_applicable")
        if call.get("lookalike"):
            _offer_lookalike_section(drv, res, call["lookalike"])
        tree = copy.deepcopy(call.get("tree"))
        label = None
        if kind in ("load_tree", "loads", "load"):
            from ..common import Snapshot

            label, pred = drv._predict_load(call["tree"], Snapshot(cfg))
        skip_fv = None
        if kind == "load_tree" and call.get("as_object"):
            key = call["as_object"]
            nd = spec.node_at(root, key)
            try:
                obj = drv.built.schema[key]()
                sub = dict(tree[key])
                if call.get("object_drop"):
                    # leave out what the section requires
                    for ch in model.fields_of(nd)["fields"]:
                        if ch["kind"] == "field" and ch.get("params", {}).get("required"):
                            sub.pop(ch["key"], None)
                obj.load_tree(sub, validate=False)
                tree[key] = obj
                label, skip_fv = None, key
                res.count("trees_with_a_section_given_as_configuration_object")
            except Exception:
                res.count("section_object_not_applicable")
        try:
            if kind == "load_tree":
                cfg.load_tree(tree)
            elif kind in ("loads", "load"):
                if not trees.in_domain(call["fmt"], tree):
                    continue
                doc = cc.ConfigFormat.get(call["fmt"]).dumps(cfg, tree)
                if kind == "loads":
                    cfg.loads(doc, call["fmt"])
                else:
                    path = os.path.join(ctx.dir, "doc%d" % idx)
                    with open(path, "wb") as fp:
                        fp.write(doc)
                    cfg.load(path, call["fmt"])
                    if call.get("again"):
                        # take a required value away in place, then load the file of this call once more
                        taken = _take_required_away(cc, cfg, root, tree)
                        if taken:
                            if call["again"] == "rewritten":
                                st = os.stat(path)
                                with open(path, "wb") as fp:
                                    fp.write(doc)
                                os.utime(path, ns=(st.st_atime_ns, st.st_mtime_ns))
                            mark = len(log)
                            cfg.load(path, call["fmt"])
                            res.count("same_file_loaded_again_after_in_place_change")
            else:
                cfg.validate()
            err = None
        except Exception as exc:
            err = exc
        values = plain(cfg)
        unmet, disabled = [], []
        walk_unmet(root, values, "", unmet, disabled)
        if disabled:
            res.count("flags_off_seen")
        if any(u[0] != "required" for u in unmet):
            res.count("failing_validators_seen")
        # collecting mode agrees with raising mode (on the state as it is now)
        try:
            cfg.validate()
            raising = None
        except Exception as exc:
            raising = exc
        try:
            collected = cfg.validate(collect_errors=True)
        except Exception as exc:
            res.viol("M-collect", "collect-mode-raises", "validate(collect_errors=True) raised %r" % (exc,))
            return
        res.count("collect_mode_compared")
        if bool(collected) != (raising is not None):
            res.viol("M-collect", "modes-disagree", "validate() %s but validate(collect_errors=True) returned %d error(s): %r" % (
                "raised %r" % raising if raising else "returned", len(collected), [str(e) for e in collected][:3]))
            return
        if collected and not all(isinstance(e, cc.ValidationError) for e in collected):
            res.viol("M-collect", "collect-mode-types", "collected errors are %r" % ([type(e).__name__ for e in collected],))
            return
        if call.get("emptied"):
            res.count("loads_with_empty_required_values")
        if call.get("flags_last"):
            res.count("documents_listing_feature_flags_last")
        if err is not None:
            raised += 1
            res.count("calls_raised")
            # exemption: the only unmet requirements belong to disabled sub-configurations
            if kind != "validate" and label is True and not unmet and disabled and not nested_in_disabled(root, pred.values):
                own = []
                own_unmet_of_disabled(root, pred.values, "", own)
                pre_unmet, _d = [], []
                walk_unmet(root, pred.values, "", pre_unmet, _d)
                if own and not pre_unmet and not _failing_field_validator_in_tree(root, call["tree"]):
                    res.count("exemption_cases_judged")
                    res.viol("M-exempt", "disabled-subconfig-not-exempt", "call %d %s raised %s: %s although the only unmet requirements "
                             "(%r) belong to sub-configurations whose feature flag is off" % (idx, kind, type(err).__name__, str(err)[:120], own[:4]))
                    return
            continue
        returned += 1
        res.count("calls_returned_judged")
        res.count("required_walks")
        if kind != "validate" and disabled:
            own = []
            own_unmet_of_disabled(root, values, "", own)
            if own:
                res.count("exemption_cases_judged")
        if unmet:
            kind0, p0, msg = unmet[0]
            res.viol("M-required" if kind0 == "required" else "M-validators", "%s:%s" % (kind, kind0),
                     "call %d %s(%s) returned normally but %s" % (idx, kind, trees and (call.get("fmt") or ""), msg))
            return
        # invocation log: validators of enabled schemas ran during this call
        res.count("validator_log_checks")
        want = []
        enabled_validators(root, values, "", want)
        events = log[mark:]
        for path, n in want:
            seen = [e for e in events if e[0] == "sv" and e[1] == path]
            if len(seen) < n:
                res.viol("M-validators", "%s:schema-validator-not-run" % kind, "call %d %s returned but %d of %d validator(s) of the enabled "
                         "schema %r were not invoked" % (idx, kind, n - len(seen), n, path or "<root>"))
                return
        if kind != "validate":
            for p, nd in _loaded_fields_with_validators(root, call["tree"]):
                if skip_fv is not None and (p == skip_fv or p.startswith(skip_fv + ".")):
                    continue  # that section was filled in before the call
                v = _value_at(values, p)
                if v is None:
                    continue
                if not any(e[0] == "fv" and e[1] == p for e in events):
                    res.viol("M-validators", "%s:field-validator-not-run" % kind, "call %d %s loaded a value for %s but its field "
                             "validator was not invoked" % (idx, kind, p))
                    return
    if returned and (raised or returned >= 2):
        res.nontrivial(case["schema"], case["calls"])


def _take_required_away(cc, cfg, root, tree):
    """Unset, in place, one required value that the tree supplies (top level or one section down).  -> path or None"""
    for ch in model.fields_of(root)["fields"]:
        k = ch["key"]
        if k not in tree:
            continue
        if ch["kind"] == "field" and ch.get("params", {}).get("required") and ch["params"].get("default") is None \
                and ch["family"] not in ("flag", "include", "virtual", "method"):
            v = cfg[k]
            try:
                if ch["family"] in ("list", "dict") and len(v):
                    v.clear()
                else:
                    cc.reset_value(cfg, k)
            except Exception:
                continue
            return k
    return None


def _value_at(values, path):
    cur = values
    for part in path.split("."):
        if not isinstance(cur, dict) or part not in cur:
            return None
        cur = cur[part]
    return cur


def _loaded_fields_with_validators(node, tree, prefix=""):
    out = []
    if not isinstance(tree, dict):
        return out
    kids = {ch["key"]: ch for ch in model.fields_of(node)["fields"]}
    for k, v in tree.items():
        ch = kids.get(k)
        if ch is None:
            continue
        p = (prefix + "." if prefix else "") + k
        if ch["kind"] in ("schema", "ctype"):
            out += _loaded_fields_with_validators(ch, v, p)
        elif ch.get("params", {}).get("validator"):
            out.append((p, ch))
    return out


def _failing_field_validator_in_tree(node, tree):
    for p, ch in _loaded_fields_with_validators(node, tree):
        if ch["params"]["validator"] in ("fail", "boom"):
            return True
    # list items carry their own validators
    if isinstance(tree, dict):
        kids = {ch["key"]: ch for ch in model.fields_of(node)["fields"]}
        for k, v in tree.items():
            ch = kids.get(k)
            if ch is not None and ch["kind"] == "field" and ch["family"] == "list" and ch.get("item") and ch["item"]["kind"] != "field":
                return True  # keep the exemption clause to plain sub-configurations
            if ch is not None and ch["kind"] in ("schema", "ctype") and _failing_field_validator_in_tree(ch, v):
                return True
    return False


def _insert(drv, res, call, idx):
    """Items of configuration lists are held to the same rule when they are inserted."""
    cc = drv.cc
    try:
        lst = spec.get_path(drv.cfg, call["path"])
    except Exception:
        return
    if lst is None:
        try:
            drv.cfg[call["path"]] = []
            lst = spec.get_path(drv.cfg, call["path"])
        except Exception:
            return
    nd = drv.node(call["path"])
    if call["how"] == "reinsert":
        return _reinsert(drv, res, call, idx, lst, nd)
    if call["how"] == "lookalike":
        return _insert_lookalike(drv, res, call, idx, lst, nd)
    item = copy.deepcopy(call["item"])
    ok, norm = model.accepts_tree(nd["item"], call["item"], drv.env)
    if ok is None:
        return
    try:
        if call["how"] == "append" or not len(lst):
            lst.append(item)
        elif call["how"] == "insert":
            lst.insert(0, item)
        else:
            lst[0] = item
        err = None
    except Exception as exc:
        err = exc
    res.count("list_item_insertions_judged")
    if err is None:
        unmet, dis = [], []
        values = plain(lst[-1] if call["how"] == "append" or len(lst) == 1 else lst[0])
        walk_unmet(nd["item"], values, call["path"] + "[]", unmet, dis)
        if unmet:
            res.viol("M-required" if unmet[0][0] == "required" else "M-validators", "insert:" + unmet[0][0],
                     "call %d: %s of %r into %s was accepted but %s" % (idx, call["how"], call["item"], call["path"], unmet[0][2]))


def _reinsert(drv, res, call, idx, lst, nd):
    """A member of the list is made invalid in place (a required field reset to its unset default) and then put back
    into the same list: inserting is held to the same rule as loading."""
    cc = drv.cc
    if not len(lst):
        try:
            lst.append(copy.deepcopy(call["item"]))
        except Exception:
            return
    member = lst[0]
    req = [ch for ch in model.stored_children(nd["item"]) if ch["kind"] == "field" and ch.get("params", {}).get("required")
           and ch["params"].get("default") is None and ch["family"] not in ("flag",)]
    if not req or not model.is_enabled(nd["item"], plain(member)):
        return
    try:
        cc.reset_value(member, req[0]["key"])
    except Exception:
        return
    unmet, dis = [], []
    walk_unmet(nd["item"], plain(member), call["path"] + "[]", unmet, dis)
    if not unmet:
        return
    try:
        via = call.get("via", "setitem")
        if via == "setitem":
            lst[0] = member
        elif via == "append":
            lst.append(member)
        elif via == "insert":
            lst.insert(0, member)
        else:
            lst[0:1] = [member]
        err = None
    except Exception as exc:
        err = exc
    res.count("list_item_insertions_judged")
    res.count("reinsertions_of_invalidated_members")
    # the member was invalidated by this harness step: take it out again so that later calls see a state the
    # library itself could have validated
    try:
        while any(m is member for m in lst):
            del lst[[i for i, m in enumerate(lst) if m is member][0]]
    except Exception:
        pass
    if err is None:
        res.viol("M-required" if unmet[0][0] == "required" else "M-validators", "reinsert:" + unmet[0][0],
                 "call %d: a member of %s made invalid in place was put back with %s and accepted although %s" % (
                     idx, call["path"], via, unmet[0][2]))


# ------------------------------------------------------------------------------------------------
# configurations built from a look-alike schema


def _lookalike_node(node):
    """Spec of a look-alike of a schema / config-type node: the same keys in the same order holding the same kinds of fields
    (what another call of the application's schema factory yields), but nothing is required and no validator is registered."""
    out = {"kind": "schema", "key": "", "fields": []}
    src = model.fields_of(node)
    if src.get("dynamic"):
        out["dynamic"] = True
    for ch in src["fields"]:
        if ch["kind"] == "schema":
            sub = _lookalike_node(ch)
            sub["key"] = ch["key"]
            out["fields"].append(sub)
            continue
        ch = copy.deepcopy(ch)
        if ch["kind"] == "field":
            for name in ("required", "validator", "validator2", "validators_by_one_decorator"):
                ch.get("params", {}).pop(name, None)
            if ch["family"] == "list" and ch.get("item") and ch["item"]["kind"] != "field":
                item = _lookalike_node(ch["item"])
                ch["item"] = item if ch["item"]["kind"] == "schema" else dict(ch["item"], schema=item)
        out["fields"].append(ch)
    return out


def _lookalike_draft(cc, node, tree, drop):
    """A configuration of a look-alike schema of `node`, filled from `tree` (on-disk forms that the declared fields accept);
    with `drop` the values of the fields that the DECLARED schema requires are left out."""
    schema = spec.build(cc, _lookalike_node(node)).schema
    draft = schema()
    sub = dict(tree)
    if drop:
        for ch in model.fields_of(node)["fields"]:
            if ch["kind"] == "field" and ch.get("params", {}).get("required"):
                sub.pop(ch["key"], None)
    try:
        draft.load_tree(sub)
    except Exception:
        draft = schema()  # (its defaults only)
    return draft


def _offer_lookalike_section(drv, res, look):
    """Before the call: a configuration built from a look-alike schema is assigned to a section.  Nothing is demanded of the
    assignment itself (the library may refuse the configuration, or keep it and hold it to the declared fields); the call that
    follows is judged by the walk over the DECLARED schema as every other call is."""
    nd = spec.node_at(drv.root, look["path"])
    if nd is None or nd["kind"] not in ("schema", "ctype"):
        return
    try:
        draft = _lookalike_draft(drv.cc, nd, look["tree"], look.get("drop"))
    except Exception:
        res.count("lookalike_not_applicable")
        return
    res.count("lookalike_configurations_offered_for_a_section")
    try:
        drv.cfg[look["path"]] = draft
        res.count("lookalike_configurations_taken_for_a_section")
    except Exception:
        res.count("lookalike_configurations_refused_for_a_section")


def _insert_lookalike(drv, res, call, idx, lst, nd):
    """A configuration built from a look-alike of the item schema is offered to a configuration list: inserted items are held
    to the rule of the DECLARED item schema."""
    try:
        draft = _lookalike_draft(drv.cc, nd["item"], call["item"], call.get("drop"))
    except Exception:
        res.count("lookalike_not_applicable")
        return
    via = call.get("via", "append")
    try:
        if via == "append":
            lst.append(draft)
        elif via == "extend":
            lst.extend([draft])
        elif via == "insert":
            lst.insert(0, draft)
        elif via == "slice":
            lst[0:0] = [draft]
        elif len(lst):
            lst[0] = draft
        else:
            lst.append(draft)
        err = None
    except Exception as exc:
        err = exc
    res.count("list_item_insertions_judged")
    res.count("lookalike_configurations_offered_for_a_list_item")
    if err is not None:
        return
    members = [m for m in lst if m is draft]
    unmet, dis = [], []
    if members:
        walk_unmet(nd["item"], plain(draft), call["path"] + "[]", unmet, dis)
    # offered by this harness step: taken out again, so that later calls see a list of items that were loaded / inserted
    # through the declared item schema
    try:
        while any(m is draft for m in lst):
            del lst[[i for i, m in enumerate(lst) if m is draft][0]]
    except Exception:
        pass
    if unmet:
        res.viol("M-required" if unmet[0][0] == "required" else "M-validators", "insert-lookalike:" + unmet[0][0],
                 "call %d: a configuration built from a look-alike of the item schema of %s (same keys and kinds of fields, nothing "
                 "required, no validators) was accepted with %s although %s" % (idx, call["path"], via, unmet[0][2]))


# ------------------------------------------------------------------------------------------------
# default items of a configuration list


def _default_items(ctx, res, di, env):
    """A list of configurations whose field declares DEFAULT items (a list, or a callable; maps, or configuration objects of
    the item type).  The items that the library puts into the list - when the configuration is created, when the list is reset
    to its default after the application changed its defaults - are items of a configuration list like any other: once a
    validation / load returns normally the walk must find them complete.  (Nothing is demanded of the creation / the reset:
    the library may refuse there.)"""
    cc = ctx.cc
    item_node = di["item"]
    try:
        item_schema = spec.build(cc, item_node).schema
        item_field = cc.make_type(item_schema, "DefaultItem", module="vf_types") if di["as_type"] else item_schema
    except Exception:
        res.count("default_items_not_applicable")
        return
    objects = di["objects"]
    use_callable = di["callable"] or objects or di["mode"] == "late"
    current = [copy.deepcopy(it) for it in di["items"]]
    if di["mode"] == "bad":
        current.insert(di["bad_at"], copy.deepcopy(di["bad"]))

    def produce():
        out = []
        for it in copy.deepcopy(current):
            if objects:
                obj = item_field()
                obj.load_tree(it, validate=False)
                it = obj
            out.append(it)
        return out

    root = cc.Schema()
    root[di["name_key"]] = cc.StringField(default="app")
    try:
        root[di["list_key"]] = cc.ListField(item_field, default=produce if use_callable else produce())
    except Exception:
        res.count("default_items_not_applicable")
        return
    node = {"kind": "schema", "key": "", "fields": [
        {"kind": "field", "key": di["name_key"], "family": "str", "params": {"default": "app"}},
        {"kind": "field", "key": di["list_key"], "family": "list", "params": {}, "item": item_node}]}
    res.count("default_item_lists_declared")
    res.count("default_item_lists_declared:" + di["mode"])
    try:
        cfg = cc.Config(root, key_filename=os.path.join(ctx.dir, "defitems.key"))
    except Exception:
        res.count("default_item_lists_refused_at_creation")
        return
    if di["mode"] == "late":
        # second use: the defaults were fine when the configuration was created; the application changed them since and the
        # list is reset to its default
        try:
            cfg.load_tree({di["name_key"]: "first"})
        except Exception:
            pass
        current.insert(di["bad_at"], copy.deepcopy(di["bad"]))
        try:
            cc.reset_value(cfg, di["list_key"])
            res.count("default_item_lists_reset_after_the_defaults_changed")
        except Exception:
            res.count("default_item_lists_reset_refused")
    for idx, call in enumerate(di["calls"]):
        kind = call["call"]
        try:
            if kind == "validate":
                cfg.validate()
            elif kind == "load_tree":
                cfg.load_tree(copy.deepcopy(call["tree"]))
            else:
                if not trees.in_domain(call["fmt"], call["tree"]):
                    continue
                cfg.loads(cc.ConfigFormat.get(call["fmt"]).dumps(cfg, copy.deepcopy(call["tree"])), call["fmt"])
        except Exception:
            res.count("default_item_calls_raised")
            continue
        res.count("default_item_calls_returned_judged")
        unmet, dis = [], []
        walk_unmet(node, plain(cfg), "", unmet, dis)
        if unmet:
            kind0, _p0, msg = unmet[0]
            res.viol("M-required" if kind0 == "required" else "M-validators", "default-items:%s:%s" % (kind, kind0),
                     "default items (%s%s, %s): call %d %s returned normally but %s" % (
                         "configuration objects" if objects else "maps", " from a callable" if use_callable else "", di["mode"], idx, kind, msg))
            return
