"""C08 - ciphers invert exactly; AES is standard with a fresh IV; bad input is rejected."""
import base64
import os

from .. import aes_ref
from ..common import weighted

PLAN = {
    "quick": {"shards": 8, "cases": 2000, "min_nontrivial": 8000, "budget_s": 300},
    "thorough": {"shards": 16, "cases": 40000, "min_nontrivial": 224000, "budget_s": 1500},
}
RULE = ("cases are (kind, 32-byte key class, plaintext bytes, method) drawn from boundary lengths 0-80/1000 and "
        "key classes random/zero/ff/one-bit; kinds: session (2-11 mixed encrypt/decrypt operations with mixed methods inside one open, nested key context, each judged), roundtrip (oracle decrypts library output and library decrypts "
        "oracle output, same and new KeyFile object, wrong key), fresh_iv (64 encryptions of one plaintext), "
        "malformed (short/unaligned/empty ciphertext, unknown or non-string method, wrongly shaped stored secrets "
        "through SecureField.to_python); a case is non-trivial when at least one oracle comparison was evaluated; "
        "distinct = distinct case content")
REQUIRED = ("malformed_inputs_labelled_best", "roundtrips_with_mutable_buffers", "stored_secrets_with_equal_plaintext_compared", "aes_oracle_decrypts", "aes_library_decrypts_oracle_output", "xor_oracle_checks", "malformed_rejected",
            "iv_sets_checked", "wrong_key_checks", "stored_secret_shapes_rejected", "sessions_judged", "provider_objects_judged",
            "rekeyed_objects_judged", "key_file_replaced_between_contexts", "iv_checks_under_reseeded_global_random", "large_plaintexts",
            "stored_secret_reloaded_after_rekey")
ASSUMPTIONS = ["the pure-Python AES-256-CBC/PKCS7 oracle (vf/aes_ref.py, self-tested on FIPS-197 C.3 and SP 800-38A "
               "F.2.5/F.2.6) is the 'standard implementation'",
               "base64 text containing characters outside the alphabet is not judged (Python's decoder ignores them)"]
EXCLUDED = ["ciphertext text with non-alphabet characters (lenient base64 decoding makes their status open)",
            "method/ciphertext mismatches (xor applied to AES data)"]
LENS = [0, 1, 2, 15, 16, 17, 31, 32, 33, 47, 48, 49, 63, 64, 65, 80, 1000]


def _key(rng):
    kind = weighted(rng, [(6, "random"), (1, "zero"), (1, "ff"), (1, "onebit"), (1, "ascii")])
    if kind == "zero":
        return bytes(32)
    if kind == "ff":
        return b"\xff" * 32
    if kind == "onebit":
        b = bytearray(32)
        b[rng.randrange(32)] = 1 << rng.randrange(8)
        return bytes(b)
    if kind == "ascii":
        return bytes(rng.choice(b"abcdefghijklmnopqrstuvwxyz0123456789") for _ in range(32))
    return rng.randbytes(32)


def _plaintext(rng):
    n = rng.choice(LENS) if rng.random() < 0.7 else rng.randrange(0, 90)
    kind = weighted(rng, [(5, "random"), (2, "text"), (1, "zeros"), (1, "pad-like")])
    if kind == "text":
        s = "".join(rng.choice("abc xyzé中\U0001f600\n") for _ in range(n))
        return s.encode()[:n] if rng.random() < 0.5 else s  # bytes (maybe cut mid-character) or str
    if kind == "zeros":
        return bytes(n)
    if kind == "pad-like":
        return (bytes([16]) * 16 + bytes([1]) * n)[:n]
    return rng.randbytes(n)


# every rejection the property allows is caught where it is provoked (malformed / stored kinds); anything else the
# library raises on the way (opening a valid 32-byte key file, encrypting, decrypting a genuine ciphertext) is a violation
ESCAPED_LIBRARY_ERROR = ("M-roundtrip", "unexpected-exception")


def generate(rng, ctx):
    kind = weighted(rng, [(6, "roundtrip"), (1, "fresh_iv"), (3, "malformed"), (2, "stored"), (2, "session"), (1.5, "provider"), (1.5, "rekeyed")])
    case = {"kind": kind, "key": _key(rng), "pt": _plaintext(rng),
            "method": rng.choice(["aes", "xor", "best"]), "r": rng.getrandbits(32)}
    if kind == "roundtrip" and rng.random() < (0.02 if ctx.tier == "thorough" else 0.004):
        # sizes around the powers of two where buffers, chunked processing and key streams tend to end
        n = rng.choice([4096, 65535, 65536, 65537, 131072, 70000, 32768, 16384])
        case["pt"] = bytes((case["r"] + i * 7) % 251 for i in range(n))
        case["big"] = n
    if kind == "fresh_iv":
        case["method"] = rng.choice(["aes", "best"])
    if kind == "session":
        case["steps"] = [[rng.choice(["enc", "enc", "dec"]), rng.choice(["aes", "xor", "best", "best"]), rng.choice(LENS)]
                         for _ in range(rng.randrange(2, 12))]
    if kind == "rekeyed":
        # several key contexts on ONE KeyFile object; the file is replaced between some of them; some contexts are left
        # by an exception (a rejected ciphertext, an error of the caller)
        case["blocks"] = [[rng.choice(["aes", "xor", "best"]), rng.choice(LENS), rng.random() < 0.5,
                           rng.choice([None, None, "malformed", "caller-error", "unknown-method"])]
                          for _ in range(rng.randrange(2, 7))]
    if kind == "malformed":
        case["what"] = rng.choice(["short", "unaligned", "empty", "method", "iv_only", "trunc_block", "extended", "wrong_type", "wrong_type"])
        case["bad_method"] = rng.choice(["rot13", "", "AES", "Xor", "aes ", None, 5, ["aes"], "best2", b"aes"])
    if kind == "stored":
        case["what"] = rng.choice(["int", "list", "bool", "bytes", "float", "no_method", "no_ct", "ct_int", "ct_bytes",
                                   "ct_none", "bad_pad_b64", "missing_pad_b64", "method_int", "method_list", "unknown_method",
                                   "short_ct", "unaligned_ct", "empty_dict", "tuple", "not_base64", "foreign_chars_in_b64", "method_bytes", "urlsafe_b64", "method_bytes", "urlsafe_b64",
                                   "text_after_padding"])
    return case


def directed(ctx):
    """Every run sees the sizes at which chunked processing, buffers and prepared key streams end."""
    for n in (4096, 16384, 32768, 65535, 65536, 65537, 70000, 131072):
        for method in ("aes", "xor"):
            yield {"kind": "roundtrip", "key": bytes((7 * i + n) % 256 for i in range(32)), "method": method, "r": n,
                   "pt": bytes((n + i * 7) % 251 for i in range(n)), "big": n}


def abbreviate(case):
    c = dict(case)
    if isinstance(c.get("pt"), (bytes, str)) and len(c["pt"]) > 40:
        c["pt"] = c["pt"][:40]
        c["pt_truncated_for_display"] = True
    return c


def _raises(fn):
    try:
        return False, fn()
    except Exception as exc:  # any error is a rejection here
        return True, exc


def run(case, ctx, res):
    cc = ctx.cc
    key, pt, method = case["key"], case["pt"], case["method"]
    ptb = pt.encode() if isinstance(pt, str) else pt
    path = os.path.join(ctx.dir, "key")
    with open(path, "wb") as fp:
        fp.write(key)
    kf = cc.KeyFile(path)
    kind = case["kind"]
    feat = "%s/%s" % (kind, method)

    if kind == "roundtrip":
        if case.get("big"):
            res.count("large_plaintexts")
        with kf as k:
            sv = k.encrypt(pt, method=method)
            back = k.decrypt(sv)
        res.count("encryptions")
        if sv.method not in ("aes", "xor"):
            res.viol("M-method", feat, "recorded method %r is not a concrete one" % (sv.method,))
        if method != "best" and sv.method != method:
            res.viol("M-method", feat, "asked for %r, recorded %r" % (method, sv.method))
        if not isinstance(sv.ciphertext, bytes):
            res.viol("M-shape", feat, "ciphertext is %s" % type(sv.ciphertext).__name__)
            return
        if back != ptb:
            res.viol("M-roundtrip", feat, "decrypt(encrypt(p)) != p for %d-byte plaintext (same object)" % len(ptb))
        with cc.KeyFile(path) as k2:
            back2 = k2.decrypt(cc.encryption.SecureValue(sv.method, sv.ciphertext))
        if back2 != ptb:
            res.viol("M-roundtrip", feat, "a new KeyFile object decrypts to something else (%d bytes)" % len(ptb))
        res.count("roundtrips")
        # the same with mutable buffers: the caller's plaintext and ciphertext objects are read, not written, and a second
        # decryption of the same stored value gives the same answer
        if ptb and case["r"] % 3 == 0:
            buf = bytearray(ptb)
            with kf as k:
                sv2 = k.encrypt(buf, method=sv.method)
                held = cc.encryption.SecureValue(sv2.method, bytearray(sv2.ciphertext))
                first, second = k.decrypt(held), k.decrypt(held)
            res.count("roundtrips_with_mutable_buffers")
            if bytes(buf) != ptb:
                res.viol("M-roundtrip", feat + ":buffer", "encrypt() changed the bytearray it was given (%d bytes)" % len(ptb))
            if bytes(first) != ptb or bytes(second) != ptb or bytes(held.ciphertext) != bytes(sv2.ciphertext):
                res.viol("M-roundtrip", feat + ":buffer", "decrypting one stored value (a bytearray ciphertext) twice gives %r then %r for a "
                         "%d-byte plaintext" % (bytes(first)[:12], bytes(second)[:12], len(ptb)))
        ct = sv.ciphertext
        if sv.method == "aes":
            if len(ct) < 32 or len(ct) % 16:
                res.viol("M-aes-shape", feat, "AES value of %d bytes is not IV plus whole blocks" % len(ct))
            else:
                want = 16 + 16 * (len(ptb) // 16 + 1)
                if len(ct) != want:
                    res.viol("M-aes-shape", feat, "AES value is %d bytes, PKCS7 gives %d" % (len(ct), want))
                got = aes_ref.aes_decrypt(key, ct)
                res.count("aes_oracle_decrypts")
                if got != ptb:
                    res.viol("M-aes-standard", feat, "standard AES-256-CBC/PKCS7 does not decrypt the library's output")
            iv = bytes((case["r"] >> (i % 4) * 8) & 0xFF ^ i for i in range(16))
            mine = aes_ref.aes_encrypt(key, iv, ptb)
            with kf as k:
                err, val = _raises(lambda: k.decrypt(cc.encryption.SecureValue("aes", mine)))
            res.count("aes_library_decrypts_oracle_output")
            if err or val != ptb:
                res.viol("M-aes-standard", feat, "library cannot decrypt standard AES-256-CBC/PKCS7 output: %r" % (val,))
        else:
            res.count("xor_oracle_checks")
            if ct != aes_ref.xor_stream(key, ptb):
                res.viol("M-xor", feat, "XOR output differs from p[i]^k[i mod 32] (%d bytes)" % len(ptb))
            with kf as k:
                twice = k.encrypt(ct, method="xor").ciphertext
            if twice != ptb:
                res.viol("M-xor", feat, "XOR is not its own inverse")
        # a different key never yields the plaintext
        if len(ptb) > 0:
            other = bytearray(key)
            other[case["r"] % 32] ^= 1 << (case["r"] >> 8) % 8
            opath = os.path.join(ctx.dir, "other")
            with open(opath, "wb") as fp:
                fp.write(bytes(other))
            with cc.KeyFile(opath) as ko:
                err, val = _raises(lambda: ko.decrypt(cc.encryption.SecureValue(sv.method, ct)))
            res.count("wrong_key_checks")
            if not err and val == ptb and (sv.method == "aes" or len(ptb) > case["r"] % 32):
                res.viol("M-wrong-key", feat, "a key differing in one bit decrypts to the plaintext")
        res.nontrivial(kind, method, key.hex(), ptb.hex(), isinstance(pt, str))

    elif kind == "fresh_iv":
        n = 64
        with kf as k:
            svs = [k.encrypt(pt, method=method) for _ in range(n)]
            cts = [sv.ciphertext for sv in svs]
        bad = [sv.method for sv in svs if sv.method != "aes"]
        if bad:
            res.viol("M-method", feat, "recorded methods %r among %d encryptions in one context" % (sorted(set(bad)), n))
            return
        ivs = {c[:16] for c in cts}
        res.count("iv_sets_checked")
        res.count("encryptions", n)
        if len(ivs) != n:
            res.viol("M-iv", feat, "%d distinct IVs among %d encryptions of one plaintext" % (len(ivs), n))
        if len(set(cts)) != n:
            res.viol("M-iv", feat, "equal ciphertexts for equal plaintexts (%d distinct of %d)" % (len(set(cts)), n))
        if any(c[:16] == bytes(16) for c in cts):
            res.viol("M-iv", feat, "all-zero IV")
        # the IV must come from the operating system, not from a reproducible generator: with the process-wide `random`
        # (and numpy-free) state put back to the same seed before each encryption the IVs must still differ
        import random as _random

        saved = _random.getstate()
        try:
            again = []
            for _ in range(4):
                _random.seed(case["r"])
                with kf as k:
                    again.append(k.encrypt(pt, method=method).ciphertext[:16])
        finally:
            _random.setstate(saved)
        res.count("iv_checks_under_reseeded_global_random")
        if len(set(again)) != len(again):
            res.viol("M-iv", feat + ":reseeded", "the IV repeats when the global random module is re-seeded before each encryption "
                     "(%d distinct of %d): it is derived from a reproducible generator" % (len(set(again)), len(again)))
        # the same through a configuration: one plaintext held by two fields, three items of a list of secrets and two
        # entries of a dict of secrets; every stored value has its own IV, within one document and across two documents
        if isinstance(pt, str) and pt:
            schema = cc.Schema()
            schema.one = cc.SecureField(method=method)
            schema.two = cc.SecureField(method=method)
            schema.many = cc.ListField(cc.SecureField(method=method))
            schema.named = cc.DictField(cc.StringField(), cc.SecureField(method=method))
            cfg = cc.Config(schema, key_filename=path)
            cfg.one = cfg.two = pt
            cfg.many = [pt, pt, pt]
            cfg.named = {"a": pt, "b": pt}
            stored = []
            for _ in range(2):
                t = cfg.to_tree()
                stored += [t["one"], t["two"]] + list(t["many"]) + list(t["named"].values())
            res.count("stored_secrets_with_equal_plaintext_compared", len(stored))
            try:
                raw = [base64.b64decode(e["ciphertext"]) for e in stored]
            except Exception as exc:
                res.viol("M-iv", feat + ":stored-shape", "stored secrets are %r (%r)" % (stored[:2], exc))
                return
            if len({c[:16] for c in raw}) != len(raw) or len(set(raw)) != len(raw):
                res.viol("M-iv", feat + ":stored", "equal plaintexts held by several fields / list items / dict entries of one "
                         "configuration are stored with %d distinct IVs and %d distinct ciphertexts among %d values" % (
                             len({c[:16] for c in raw}), len(set(raw)), len(raw)))
                return
        res.nontrivial(kind, method, key.hex(), ptb.hex())

    elif kind == "provider":
        # the provider classes used directly: one object for many values, another object to decrypt
        enc = cc.encryption
        n = 16
        p1, p2 = enc.AesProvider(key), enc.AesProvider(key)
        cts = [p1.encrypt(ptb) for _ in range(n)]
        res.count("provider_objects_judged")
        if len({c[:16] for c in cts}) != n or len(set(cts)) != n:
            res.viol("M-iv", "provider/aes", "one AesProvider object gave %d distinct IVs / %d distinct ciphertexts for %d encryptions" % (
                len({c[:16] for c in cts}), len(set(cts)), n))
            return
        other = p1.encrypt(ptb[:16] + b"-tail") if len(ptb) >= 16 else None
        if other is not None and other[16:32] == cts[0][16:32]:
            res.viol("M-iv", "provider/aes", "two plaintexts with a common first block share their first ciphertext block")
            return
        for c in cts[:3]:
            if p2.decrypt(c) != ptb or aes_ref.aes_decrypt(key, c) != ptb:
                res.viol("M-aes-standard", "provider/aes", "value of one AesProvider object is not decrypted by another / by the oracle")
                return
        res.count("aes_oracle_decrypts", 3)
        x1, x2 = enc.XorProvider(key), enc.XorProvider(key)
        cx = x1.encrypt(ptb)
        res.count("xor_oracle_checks")
        if cx != aes_ref.xor_stream(key, ptb) or x2.decrypt(cx) != ptb or x1.encrypt(ptb) != cx:
            res.viol("M-xor", "provider/xor", "XorProvider objects disagree with p[i]^k[i mod 32] for %d bytes" % len(ptb))
            return
        res.nontrivial(kind, key.hex(), ptb.hex())

    elif kind == "session":
        # several operations inside ONE open key context (nested once): every result is judged
        SV = cc.encryption.SecureValue
        with kf as k:
            with kf:
                for n, (what, m, ln) in enumerate(case["steps"]):
                    data = bytes((case["r"] + 31 * n + j) % 256 for j in range(ln))
                    if what == "enc":
                        sv = k.encrypt(data, method=m)
                        res.count("encryptions")
                        if sv.method not in ("aes", "xor") or (m != "best" and sv.method != m):
                            res.viol("M-method", "session/" + m, "operation %d in one key context: asked for %r, recorded %r" % (n, m, sv.method))
                            return
                        got = aes_ref.aes_decrypt(key, sv.ciphertext) if sv.method == "aes" else aes_ref.xor_stream(key, sv.ciphertext)
                        res.count("aes_oracle_decrypts" if sv.method == "aes" else "xor_oracle_checks")
                        if got != data:
                            res.viol("M-aes-standard" if sv.method == "aes" else "M-xor", "session/" + m,
                                     "operation %d in one key context: the oracle does not recover the plaintext" % n)
                            return
                    else:
                        meth = "xor" if m == "xor" else "aes"
                        ct = aes_ref.xor_stream(key, data) if meth == "xor" else aes_ref.aes_encrypt(key, bytes(range(n, n + 16)), data)
                        back = k.decrypt(SV(meth, ct))
                        res.count("aes_library_decrypts_oracle_output" if meth == "aes" else "xor_oracle_checks")
                        if back != data:
                            res.viol("M-roundtrip", "session/" + meth, "operation %d in one key context: decrypt of oracle output differs" % n)
                            return
        res.count("sessions_judged")
        res.nontrivial(kind, key.hex(), case["steps"], case["r"])

    elif kind == "rekeyed":
        SV = cc.encryption.SecureValue

        class CallerError(Exception):
            pass

        cur = key
        failed_before = False
        for n, (m, ln, rekey, fail) in enumerate(case["blocks"]):
            if rekey and n:
                cur = bytes((b + 17 * n + case["r"]) % 256 for b in cur)
                with open(path, "wb") as fp:
                    fp.write(cur)
                res.count("key_file_replaced_between_contexts")
            data = bytes((case["r"] + 13 * n + j) % 256 for j in range(ln))
            try:
                with kf as k:
                    sv = k.encrypt(data, method=m)
                    res.count("encryptions")
                    got = aes_ref.aes_decrypt(cur, sv.ciphertext) if sv.method == "aes" else aes_ref.xor_stream(cur, sv.ciphertext)
                    res.count("aes_oracle_decrypts" if sv.method == "aes" else "xor_oracle_checks")
                    if got != data:
                        res.viol("M-aes-standard" if sv.method == "aes" else "M-xor", "rekeyed/" + ("after-failed-context" if failed_before else "plain"),
                                 "context %d on one KeyFile object (key file replaced before it: %s, an earlier context was left by an "
                                 "exception: %s): the output does not decrypt under the key that is in the file now" % (n, bool(rekey and n), failed_before))
                        return
                    if fail == "malformed":
                        k.decrypt(SV("aes", sv.ciphertext[:7]))
                    elif fail == "unknown-method":
                        k.decrypt(SV("rot13", b"x" * 32))
                    elif fail == "caller-error":
                        raise CallerError()
                if fail in ("malformed", "unknown-method"):
                    res.viol("M-reject", "rekeyed/" + fail, "a malformed stored value was decrypted instead of rejected")
                    return
            except CallerError:
                failed_before = True
            except Exception:
                if fail not in ("malformed", "unknown-method"):
                    raise
                failed_before = True
                res.count("malformed_rejected")
        res.count("rekeyed_objects_judged")
        res.nontrivial(kind, key.hex(), case["blocks"], case["r"])

    elif kind == "malformed":
        what = case["what"]
        SV = cc.encryption.SecureValue
        with kf as k:
            good = k.encrypt(ptb, method="aes").ciphertext
            # a stored value may carry the label "best" (a hand-written or converted document): it names the same cipher
            # and the same demands
            aes = "best" if case["r"] % 3 == 0 else "aes"
            if aes == "best":
                res.count("malformed_inputs_labelled_best")
                err, val = _raises(lambda: k.decrypt(SV("best", good)))
                if err or val != ptb:
                    res.viol("M-roundtrip", "well-formed-value-labelled-best", "decrypt of a well-formed AES value labelled 'best' gave %r" % (val,))
            if what == "short":
                bad = SV(aes, good[: case["r"] % 32])
            elif what == "empty":
                bad = SV(aes, b"")
            elif what == "iv_only":
                bad = SV(aes, good[:16])
            elif what == "unaligned":
                bad = SV(aes, good + b"\x00" * (1 + case["r"] % 15))
            elif what == "trunc_block":
                bad = SV(aes, good[:-16]) if len(good) > 32 else SV(aes, good[:16])
            elif what == "extended":
                bad = SV(aes, good + bytes(16))
            elif what == "wrong_type":
                # a ciphertext that is no byte string at all, for either method (an int N must not come back as N bytes of key)
                bad = SV(["aes", "xor"][case["r"] % 2], [32, 7, "hello", [1, 2, 3], None, 1.5, ("a",)][case["r"] % 7])
            else:
                bad = SV(case["bad_method"], good)
            err, val = _raises(lambda: k.decrypt(bad))
            feat = "malformed/" + what
            if what in ("trunc_block", "extended"):
                # may unpad by chance: the demand is only "never the plaintext"
                if not err and val == ptb:
                    res.viol("M-malformed", feat, "altered ciphertext decrypts to the plaintext")
                res.count("altered_ciphertext_checks")
            else:
                if not err:
                    res.viol("M-malformed", feat + (":" + bad.method if what == "wrong_type" else ""), "malformed input %r returned %r instead of an error" % (
                        (bad.method, bad.ciphertext if what == "wrong_type" else len(bad.ciphertext)), val))
                else:
                    res.count("malformed_rejected")
            if what == "wrong_type":
                plain_bad = [5, [1, 2], None, 2.5, {"a": 1}][case["r"] % 5]
                err, val = _raises(lambda: k.encrypt(plain_bad, method=bad.method))
                if not err:
                    res.viol("M-malformed", feat + ":encrypt:" + bad.method, "encrypt(%r, method=%r) returned %r instead of an error" % (
                        plain_bad, bad.method, val.ciphertext if hasattr(val, "ciphertext") else val))
                else:
                    res.count("malformed_rejected")
            if what == "method":
                err, val = _raises(lambda: k.encrypt(ptb, method=case["bad_method"]))
                if not err:
                    res.viol("M-malformed", feat, "encrypt with method %r returned %r" % (case["bad_method"], val))
                else:
                    res.count("malformed_rejected")
        res.nontrivial(kind, what, repr(case["bad_method"]) if what == "method" else len(ptb), key.hex()[:8],
                       case["r"] % 32)

    elif kind == "stored":
        what = case["what"]
        schema = cc.Schema()
        schema.s = cc.SecureField(method=method)
        cfg = cc.Config(schema, key_filename=path)
        with kf as k:
            sv = k.encrypt(ptb or b"x", method="aes" if method == "best" else method)
        b64 = base64.b64encode(sv.ciphertext).decode()
        doc = {
            "int": 5, "list": [b64], "bool": True, "bytes": sv.ciphertext, "float": 1.5, "tuple": (sv.method, b64),
            "no_method": {"ciphertext": b64}, "no_ct": {"method": sv.method}, "empty_dict": {},
            "ct_int": {"method": sv.method, "ciphertext": 7}, "ct_bytes": {"method": sv.method, "ciphertext": sv.ciphertext},
            "ct_none": {"method": sv.method, "ciphertext": None},
            "bad_pad_b64": {"method": sv.method, "ciphertext": b64.rstrip("=")[: (len(b64.rstrip("=")) // 4) * 4] + "A"},
            "missing_pad_b64": {"method": sv.method, "ciphertext": b64.rstrip("=")},
            "method_int": {"method": 5, "ciphertext": b64}, "method_list": {"method": ["aes"], "ciphertext": b64},
            "unknown_method": {"method": "rot13", "ciphertext": b64},
            "short_ct": {"method": "aes", "ciphertext": base64.b64encode(sv.ciphertext[:20]).decode()},
            # text that is not base64 at all, or base64 followed / interrupted by other characters (a lenient decoder drops
            # what it does not know and stops at the first complete padding)
            "not_base64": {"method": sv.method, "ciphertext": "!!!! ???? ####"},
            # the method named by a byte string; the ciphertext in the URL-safe alphabet ('-' and '_' are no base64 characters)
            "method_bytes": {"method": sv.method.encode(), "ciphertext": b64},
            "urlsafe_b64": {"method": sv.method, "ciphertext": b64.replace("+", "-").replace("/", "_")},
            "foreign_chars_in_b64": {"method": sv.method, "ciphertext": "@@@" + b64[:6] + "$$ !" + b64[6:]},
            "text_after_padding": {"method": sv.method, "ciphertext": b64 + ("" if b64.endswith("=") else "==") + "QUJDRA== and more"},
            "unaligned_ct": {"method": "aes", "ciphertext": base64.b64encode(sv.ciphertext + b"zz").decode()
                             if sv.method == "aes" else base64.b64encode(bytes(37)).decode()},
        }[what]
        field = schema.s
        if what == "missing_pad_b64" and not b64.endswith("="):
            return  # this ciphertext happens to need no padding
        if what == "urlsafe_b64" and "+" not in b64 and "/" not in b64:
            return  # this ciphertext reads the same in both alphabets
        err, val = _raises(lambda: field.to_python(cfg, doc))
        feat = "stored/" + what
        if not err:
            res.viol("M-stored", feat, "stored secret %r was accepted and gave %r" % (doc, val))
        else:
            res.count("stored_secret_shapes_rejected")
        # the well-formed value must still decrypt (so the rejections above are not vacuous)
        if ptb:
            try:
                text = ptb.decode()
            except UnicodeDecodeError:
                text = None
            if text is not None:
                ok = field.to_python(cfg, {"method": sv.method, "ciphertext": b64})
                res.count("stored_secret_good_decrypts")
                if ok != text:
                    res.viol("M-stored", "stored/good", "well-formed stored secret decrypts to %r, not %r" % (ok, text))
                # the key file is replaced by another key: the SAME configuration reading the SAME stored value again
                # must not come up with the plaintext any more
                if len(ptb) >= 4:
                    with open(path, "wb") as fp:
                        fp.write(bytes((b + 1 + i) % 256 for i, b in enumerate(key)))
                    err2, val2 = _raises(lambda: field.to_python(cfg, {"method": sv.method, "ciphertext": b64}))
                    res.count("stored_secret_reloaded_after_rekey")
                    if not err2 and val2 == text:
                        res.viol("M-wrong-key", "stored/after-rekey", "after the key file was replaced, the same configuration still "
                                 "returns the plaintext of a value stored under the old key")
        res.nontrivial(kind, what, method, len(ptb), key.hex()[:8])
