"""C04 - each format decodes what it encodes, types intact; formats agree; options transparent."""
from .. import trees
from ..common import eqstar

PLAN = {
    "quick": {"shards": 8, "cases": 1200, "min_nontrivial": 5000, "budget_s": 300},
    "thorough": {"shards": 16, "cases": 15000, "min_nontrivial": 84000, "budget_s": 1500},
}
RULE = ("random plain-data trees (depth <= 5, <= 40 leaves) over null/bool/int (32/64-bit edges, big)/float (NaN, "
        "inf, -0.0, subnormal)/strings (empty, blanks, newlines, look-alikes of true/1/null/~, markup, ]]>, astral, "
        "combining, NEL, BOM, control characters)/empty and nested containers with ordinary and odd keys; every "
        "format x every option value whose domain contains the tree: decode(encode(t)) is compared type-strictly "
        "(True!=1, 1!=1.0, ''!=None, []!=None, NaN==NaN, key sets) with t, decoded results are compared across "
        "formats and options, and XML is decoded under every other root tag (must be rejected); out-of-domain "
        "(tree, format) pairs are skipped and counted; non-trivial = tree with >= 3 nodes in the domain of >= 2 "
        "formats; distinct = distinct tree")
REQUIRED = ("trees_nested_30_to_200_levels", "encodes_after_a_failed_encode", "documents_of_chosen_encoded_size", "trees_with_shared_late_objects", "second_decodes_after_mutation", "roundtrip:json", "roundtrip:yaml", "roundtrip:bson", "roundtrip:xml", "roundtrip:pickle",
            "cross_format_comparisons", "option_comparisons", "xml_wrong_root_rejected",
            "xml_roundtrips_of_maps_with_non_ascii_names", "xml_wrong_root_rejected_non_ascii_tags")
ASSUMPTIONS = ["domains are the ones stated in the property (XML: XML 1.0 characters without CR and keys that are "
               "XML names; BSON: signed 64-bit integers, keys without NUL), plus: no lone surrogates, integers "
               "below 10**1000 (CPython's own int/str conversion limit)",
               "the sign of zero is not demanded"]
EXCLUDED = ["lone surrogate code points", "integers of more than 1000 digits", "non-string map keys"]


# Keys that are XML names without being ASCII.  The two sets hold characters that may begin / continue a Name under the
# productions of XML 1.0 in the fourth edition (Letter; CombiningChar, Extender - the rules the expat parser implements) AND
# in the fifth edition (NameStartChar; NameChar), so a key made of them is an XML name whichever edition one reads.  Many of
# them are not stable under some Unicode normal form or case mapping (OHM / KELVIN / ANGSTROM SIGN, GREEK OXIA letters, a
# composition exclusion of Devanagari, LONG S WITH DOT, THAI SARA AM, GREEK BETA SYMBOL, letters followed by combining marks,
# Hangul syllables and conjoining jamo): to a codec two such spellings are two different keys.
_NAME_START = ("\u00e9\u00c5\u00f6\u00f1\u00df\u00dc\u03a9\u0439\u0438\uac00\uac01\u1100\u4e2d\u304c\u304b\u0958\u0915\u03ac\u1f71\u03b1"
               "\u1e9b\u1e61\u0e33\u0e32\u03d0\u03b2\u1fbe\u03b9\u2126\u212a\u212b\u01d5\u0130\u0131\u03c2\u03c3\u1f88\u1e0b\u1e0d")
_NAME_CONT = ("\u0301\u0308\u0327\u0323\u0340\u0341\u0343\u0344\u0306\u3099\u093c\u0387\u00b7\u0e4d\u0313\u0307\u0304"
              "\u1161\u11a8")
_ASCII_START = frozenset("ABCDEFGHIJKLMNOPQRSTUVWXYZabcdefghijklmnopqrstuvwxyz_")
_ASCII_CONT = _ASCII_START | frozenset("0123456789.-")
_START_SET = _ASCII_START | frozenset(_NAME_START)
_CONT_SET = _ASCII_CONT | frozenset(_NAME_START) | frozenset(_NAME_CONT)
_START_ATOMS = list(_NAME_START) + ["r", "e", "A", "K", "u", "o", "n", "s", "_", "k", "sum", "Ohm", "angstrom", "i", "I", "SS", "ss",
                                    "e\u0301", "A\u0308", "u\u0308\u0304", "\u0438\u0306", "\u1100\u1161",
                                    "\u1100\u1161\u11a8", "\u304b\u3099", "\u0915\u093c", "\u03b1\u0301", "d\u0323\u0307", "d\u0307\u0323",
                                    "\u1e0b\u0323", "\u1e0d\u0307", "\u00dc\u0304", "s\u0307", "\u0e32\u0e4d", "c\u0327", "\u03a9\u0313"]
_CONT_ATOMS = _START_ATOMS + list(_NAME_CONT) + ["0", "9", "-", ".", "2"]
_RESPELL = ("NFC", "NFD", "NFKC", "NFKD", "lower", "upper", "casefold", "swapcase", "title")


def _xml_name(key):
    """An XML name by both editions of XML 1.0 (a deliberately small subset; no colon - finding K19)."""
    return bool(key) and key[0] in _START_SET and all(c in _CONT_SET for c in key)


def _uni_key(rng):
    key = rng.choice(_START_ATOMS)
    for _ in range(rng.choice([0, 0, 1, 1, 2, 3])):
        key += rng.choice(_CONT_ATOMS)
    return key


def _respelled(rng, key):
    """Another spelling of the key (a different string that is again an XML name), or None."""
    import unicodedata

    forms = list(_RESPELL)
    rng.shuffle(forms)
    for form in forms:
        other = unicodedata.normalize(form, key) if form.startswith("NF") else getattr(key, form)()
        if other != key and _xml_name(other):
            return other
    return None


def _rename_keys(rng, value, share, out):
    """Give a share of the map keys (at every depth, also inside lists) a non-ASCII XML name; some of them get a sibling
    whose key differs from theirs only in spelling (normal form / case).  out: the keys that were used."""
    if isinstance(value, list):
        return [_rename_keys(rng, v, share, out) for v in value]
    if not isinstance(value, dict):
        return value
    new = {}
    for k, v in value.items():
        v = _rename_keys(rng, v, share, out)
        if rng.random() < share:
            k2 = _uni_key(rng)
            if k2 not in new and k2 not in value:
                k = k2
                out.append(k)
                twin = _respelled(rng, k) if rng.random() < 0.5 else None
                if twin is not None and twin not in new and twin not in value:
                    new[k] = v
                    out.append(twin)
                    k, v = twin, trees.gen_leaf(rng)
        new[k] = v
    return new


def generate(rng, ctx):
    uni = rng.random() < 0.2
    odd = 0.15 if rng.random() < 0.5 and not uni else 0.0  # odd keys push the tree out of the XML domain
    case = {"tree": trees.gen_tree(rng, depth=rng.choice([1, 2, 3, 4, 5]), leaves=rng.choice([5, 15, 40]), odd=odd)}
    if uni:
        used = []
        case["tree"] = _rename_keys(rng, case["tree"], rng.choice([0.2, 0.5, 1.0]), used)
        root = rng.choice(used) if used and rng.random() < 0.5 else _uni_key(rng)
        other = _respelled(rng, root)
        case["roots"] = [root] + ([other] if other else [])
        case["uni"] = 1
    return case


def _in_domain(fmt, value):
    """trees.in_domain, with the XML keys widened from ASCII names to the names of _xml_name."""
    if fmt != "xml":
        return trees.in_domain(fmt, value)
    if isinstance(value, dict):
        return all(isinstance(k, str) and _xml_name(k) and _in_domain(fmt, v) for k, v in value.items())
    if isinstance(value, list):
        return all(_in_domain(fmt, v) for v in value)
    return trees.in_domain(fmt, value, False)


def _non_ascii_keys(value):
    if isinstance(value, dict):
        return any(not k.isascii() or _non_ascii_keys(v) for k, v in value.items())
    if isinstance(value, list):
        return any(_non_ascii_keys(v) for v in value)
    return False


def _magic_sizes():
    magics = [b"\x1f\x8b", b"\x78\x9c", b"\x78\x01", b"\x78\xda", b"BZ", b"PK", b"\xfd7", b"\x28\xb5", b"\xef\xbb", b"\xff\xfe",
              b"\xfe\xff", b'{"', b"<?", b"<c", b"--", b"%Y", b"# ", b"\x80\x04", b"\x80\x05", b"\x89P", b"MZ", b"\x7fE", b"  ", b"\n\n",
              b"\r\n", b"\t\t", b"\x00\x01", b"\xff\xff"]
    out = []
    for m in magics:
        size = m[0] + 256 * m[1]
        if size < 18:
            size += 65536
        out.append(size)
    return sorted(set(out))


_MAGIC_SIZES = _magic_sizes()


def directed(ctx):
    """Small boundary trees every run sees."""
    leaves = [None, True, False, 0, 1, -1, 2**63 - 1, -2**63, 0.0, 1.0, float("nan"), float("inf"), "", " ", "true", "1",
              "null", [], {}, [[]], [{}], {"k0": {}}, [None], ["", None, 0, False, 0.0]]
    yield {"tree": {}, "directed": 1}
    # documents whose encoded size makes a binary length prefix spell the magic number of some other file type (gzip,
    # zlib, bzip2, zip, xz, zstd, byte-order marks, '{"', '<?', pickle, PNG, ...), and every value of its first byte
    for size in _MAGIC_SIZES + list(range(18, 275)):
        yield {"tree": {"k": "x" * (size - 13)}, "directed": 1, "sized": size}
    # many distinct objects, one of the late ones referenced twice by identity (pickle memo beyond 255 entries)
    for n in (40, 150, 300):
        items = [{"name": "srv-%d" % i, "port": 8000 + i, "tags": ["t%d" % i]} for i in range(n)]
        yield {"tree": {"servers": items, "primary": items[-1]["name"], "backup": items[n // 2]["tags"]}, "directed": 1, "shared": n}
    # values that sit inside many containers (chains of maps and lists 30 ... 200 levels deep)
    for depth in (30, 64, 99, 100, 101, 128, 150, 200):
        for shape in ("maps", "lists", "alternating"):
            t = "leaf"
            for level in range(depth):
                as_map = shape == "maps" or (shape == "alternating" and level % 2 == 0)
                t = {"k": t} if as_map else [t]
            yield {"tree": {"deep": t, "n": depth}, "directed": 1, "deep": depth}
    from .c02 import RELATED_STRINGS

    for a, b in RELATED_STRINGS:
        yield {"tree": {"first": a, "second": b, "both": [b, a, {"k": a}]}, "directed": 1}
        yield {"tree": {"first": b, "second": a, "both": [a, b]}, "directed": 1}
    # keys that are XML names but not ASCII, in two spellings that differ only in normal form / case, side by side and nested
    for a, b in (("re\u0301sume\u0301", "r\u00e9sum\u00e9"), ("\u2126hm", "\u03a9hm"), ("\u212bngstrom", "\u00c5ngstrom"), ("\u212a", "K"),
                 ("\u1100\u1161", "\uac00"), ("\u0958", "\u0915\u093c"), ("\u1f71", "\u03ac"), ("x\u1e9b", "x\u1e61"), ("\u03d0eta", "\u03b2eta"),
                 ("k\u0e33", "k\u0e4d\u0e32"), ("stra\u00dfe", "STRASSE"), ("\u0130d", "\u0131d"), ("\u03c3\u03c2", "\u03c3\u03c3"),
                 ("d\u0323\u0307", "d\u0307\u0323"), ("\u304b\u3099", "\u304c"), ("\u0439", "\u0438\u0306")):
        for x, y in ((a, b), (b, a)):
            yield {"tree": {"plain": 1, x: "first", y: "second", "sec": {y: {"x": []}, "list": [{x: 1}, {y: [1.5, None, True]}]}},
                   "directed": 1, "uni": 1, "roots": [x, y]}
            yield {"tree": {x: {x: {y: None}}, "k0": [[{x: ""}]]}, "directed": 1, "uni": 1, "roots": [y]}
    for v in leaves:
        yield {"tree": {"k0": v}}
        yield {"tree": {"CONFIG": v, "config": {"k0": v}}}
        yield {"tree": {"k1": [v, v], "k2": {"k0": v}}}


def _count_nodes(v):
    if isinstance(v, dict):
        return 1 + sum(_count_nodes(x) for x in v.values())
    if isinstance(v, list):
        return 1 + sum(_count_nodes(x) for x in v)
    return 1


class _Unencodable:
    def __reduce_ex__(self, proto):
        raise TypeError("cannot serialise this")


def _scramble(t, depth=0):
    """Change every list / dict of a decoded tree in place (the caller owns what a decode returns)."""
    if depth > 12:
        return
    if isinstance(t, dict):
        for v in list(t.values()):
            _scramble(v, depth + 1)
        for k in list(t)[:1]:
            del t[k]
        t["__scrambled__"] = [1]
    elif isinstance(t, list):
        for v in t:
            _scramble(v, depth + 1)
        t.append("__scrambled__")
        t.reverse()


def run(case, ctx, res):
    if case.get("deep"):
        res.count("trees_nested_30_to_200_levels")
    cc = ctx.cc
    tree = case["tree"]
    if case.get("sized"):
        res.count("documents_of_chosen_encoded_size")
    if case.get("shared"):
        res.count("trees_with_shared_late_objects")
    cfg = ctx.cache.get("cfg")
    if cfg is None:
        cfg = ctx.cache["cfg"] = cc.Schema()()
    decoded = {}
    indomain = 0
    roots = [r for r in case.get("roots", ()) if _xml_name(r)]
    for fmt in trees.FORMATS:
        if not _in_domain(fmt, tree):
            res.count("skipped_out_of_domain:" + fmt)
            continue
        indomain += 1
        per_opt = []
        options = trees.OPTIONS[fmt]
        wide = fmt == "xml" and _non_ascii_keys(tree)
        if fmt == "xml":
            # root tags that are XML names without being ASCII (the case brings one or two spellings of one name)
            options = options + [{"root_tag": r} for r in roots]
        for opts in options:
            label = fmt + ("(%s)" % ",".join("%s=%s" % kv for kv in opts.items()) if opts else "")
            try:
                codec = cc.ConfigFormat.get(fmt, **opts)
                blob = codec.dumps(cfg, tree)
                if not isinstance(blob, bytes):
                    res.viol("M-roundtrip", fmt + ":not-bytes", "%s.dumps returned %s" % (label, type(blob).__name__))
                    continue
                back = cc.ConfigFormat.get(fmt, **opts).loads(cfg, blob)
            except Exception as exc:
                kinds = sorted(_kinds(tree))
                res.viol("M-roundtrip", fmt + ":raises", "%s raised %s: %s on an in-domain tree (leaf kinds %s)" % (
                    label, type(exc).__name__, str(exc)[:150], kinds))
                continue
            res.count("roundtrip:" + fmt)
            if wide:
                res.count("xml_roundtrips_of_maps_with_non_ascii_names")
            diff = trees.first_difference(tree, back)
            if diff:
                res.viol("M-roundtrip", "%s:%s" % (fmt, diff[1]), "%s: at %s %s" % (label, diff[0], diff[2]))
            per_opt.append((label, back))
            # decoding is a function of the bytes alone: the caller changes every container of a first result in place,
            # a second decode of the same bytes (new codec object) must still give the encoded tree, and the input tree
            # must be as it was
            if _count_nodes(tree) >= 2:
                try:
                    first = cc.ConfigFormat.get(fmt, **opts).loads(cfg, blob)
                    _scramble(first)
                    again = cc.ConfigFormat.get(fmt, **opts).loads(cfg, blob)
                except Exception as exc:
                    res.viol("M-roundtrip", fmt + ":second-decode-raises", "%s: decoding the same bytes again raised %r" % (label, exc))
                    continue
                res.count("second_decodes_after_mutation")
                diff = trees.first_difference(tree, again)
                if diff:
                    res.viol("M-roundtrip", "%s:second-decode:%s" % (fmt, diff[1]), "%s: the same bytes decoded again after the first result "
                             "was changed in place: at %s %s" % (label, diff[0], diff[2]))
            # wrong root tag must be rejected
            if fmt == "xml":
                mine = opts.get("root_tag", "config")
                for other in ["config", "cfg", "k0", "Config"] + roots:
                    if other == mine:
                        continue
                    try:
                        cc.ConfigFormat.get("xml", root_tag=other).loads(cfg, blob)
                    except Exception:
                        res.count("xml_wrong_root_rejected")
                        if not (other.isascii() and mine.isascii()):
                            res.count("xml_wrong_root_rejected_non_ascii_tags")
                    else:
                        res.viol("M-root", "xml:wrong-root-accepted", "document with root <%s> accepted under root_tag=%r" % (
                            mine, other))
        for (la, a), (lb, b) in zip(per_opt, per_opt[1:]):
            res.count("option_comparisons")
            if not eqstar(a, b):
                d = trees.first_difference(a, b)
                res.viol("M-options", fmt + ":option-changes-result", "%s vs %s: at %s %s" % (la, lb, d[0], d[2]))
        if per_opt:
            decoded[fmt] = per_opt[0][1]
    # an encode that fails part-way (a value outside the format's domain somewhere in the tree) leaves nothing behind:
    # the very same tree object, with the offending entry taken out again, still encodes and decodes
    if isinstance(tree, dict) and decoded:
        import copy as _copy

        offending = {"bson": [2**70, -2**70, {"nul\x00key": 1}], "xml": ["nul\x00char", {"bad key": 1}], "json": [b"bytes", {1, 2}],
                     "yaml": [_Unencodable()], "pickle": [_Unencodable(), lambda: 0]}
        for fmt in sorted(decoded):
            work = _copy.deepcopy(tree)
            holders = [work] + [v for v in work.values() if isinstance(v, dict)]
            for i, bad in enumerate(offending[fmt]):
                holder = holders[i % len(holders)]
                holder["zzbad"] = bad
                codec = cc.ConfigFormat.get(fmt)
                try:
                    codec.dumps(cfg, work)
                    failed = False
                except Exception:
                    failed = True
                del holder["zzbad"]
                if not failed:
                    continue
                res.count("encodes_after_a_failed_encode")
                try:
                    back = cc.ConfigFormat.get(fmt).loads(cfg, codec.dumps(cfg, work))
                except Exception as exc:
                    res.viol("M-roundtrip", fmt + ":raises-after-failed-encode", "%s: after an encode of this tree object failed (an "
                             "unrepresentable value, removed again), encoding it raised %s: %s" % (fmt, type(exc).__name__, str(exc)[:120]))
                    break
                diff = trees.first_difference(tree, back)
                if diff:
                    res.viol("M-roundtrip", "%s:after-failed-encode:%s" % (fmt, diff[1]), "%s: at %s %s" % (fmt, diff[0], diff[2]))
                    break
    names = sorted(decoded)
    for a, b in zip(names, names[1:]):
        res.count("cross_format_comparisons")
        if not eqstar(decoded[a], decoded[b]):
            d = trees.first_difference(decoded[a], decoded[b])
            res.viol("M-agree", "%s-vs-%s" % (a, b), "formats disagree at %s: %s" % (d[0], d[2]))
    if indomain >= 2 and (_count_nodes(tree) >= 3 or case.get("directed")):
        res.nontrivial(tree)


def _kinds(v, out=None):
    out = out if out is not None else set()
    if isinstance(v, dict):
        for x in v.values():
            _kinds(x, out)
    elif isinstance(v, list):
        for x in v:
            _kinds(x, out)
    out.add(trees.leaf_kind(v))
    return out
