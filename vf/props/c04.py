"""C04 - each format decodes what it encodes, types intact; formats agree; options transparent."""
from .. import trees
from ..common import eqstar

PLAN = {
    "quick": {"shards": 8, "cases": 1200, "min_nontrivial": 5000, "budget_s": 300},
    "thorough": {"shards": 16, "cases": 15000, "min_nontrivial": 84000, "budget_s": 1500},
}
RULE = ("random plain-data trees (depth <= 5, <= 40 leaves) over null/bool/int (32/64-bit edges, big)/float (NaN, "
        "inf, -0.0, subnormal)/strings (empty, blanks, newlines, look-alikes of true/1/null/~, markup, ]]>, astral, "
        "combining, NEL, BOM, control characters)/empty and nested containers with ordinary and odd keys; every "
        "format x every option value whose domain contains the tree: decode(encode(t)) is compared type-strictly "
        "(True!=1, 1!=1.0, ''!=None, []!=None, NaN==NaN, key sets) with t, decoded results are compared across "
        "formats and options, and XML is decoded under every other root tag (must be rejected); out-of-domain "
        "(tree, format) pairs are skipped and counted; non-trivial = tree with >= 3 nodes in the domain of >= 2 "
        "formats; distinct = distinct tree")
REQUIRED = ("trees_nested_30_to_200_levels", "encodes_after_a_failed_encode", "documents_of_chosen_encoded_size", "trees_with_shared_late_objects", "second_decodes_after_mutation", "roundtrip:json", "roundtrip:yaml", "roundtrip:bson", "roundtrip:xml", "roundtrip:pickle",
            "cross_format_comparisons", "option_comparisons", "xml_wrong_root_rejected")
ASSUMPTIONS = ["domains are the ones stated in the property (XML: XML 1.0 characters without CR and keys that are "
               "XML names; BSON: signed 64-bit integers, keys without NUL), plus: no lone surrogates, integers "
               "below 10**1000 (CPython's own int/str conversion limit)",
               "the sign of zero is not demanded"]
EXCLUDED = ["lone surrogate code points", "integers of more than 1000 digits", "non-string map keys"]


def generate(rng, ctx):
    odd = 0.15 if rng.random() < 0.5 else 0.0  # odd keys push the tree out of the XML domain
    return {"tree": trees.gen_tree(rng, depth=rng.choice([1, 2, 3, 4, 5]), leaves=rng.choice([5, 15, 40]), odd=odd)}


def _magic_sizes():
    magics = [b"\x1f\x8b", b"\x78\x9c", b"\x78\x01", b"\x78\xda", b"BZ", b"PK", b"\xfd7", b"\x28\xb5", b"\xef\xbb", b"\xff\xfe",
              b"\xfe\xff", b'{"', b"<?", b"<c", b"--", b"%Y", b"# ", b"\x80\x04", b"\x80\x05", b"\x89P", b"MZ", b"\x7fE", b"  ", b"\n\n",
              b"\r\n", b"\t\t", b"\x00\x01", b"\xff\xff"]
    out = []
    for m in magics:
        size = m[0] + 256 * m[1]
        if size < 18:
            size += 65536
        out.append(size)
    return sorted(set(out))


_MAGIC_SIZES = _magic_sizes()


def directed(ctx):
    """Small boundary trees every run sees."""
    leaves = [None, True, False, 0, 1, -1, 2**63 - 1, -2**63, 0.0, 1.0, float("nan"), float("inf"), "", " ", "true", "1",
              "null", [], {}, [[]], [{}], {"k0": {}}, [None], ["", None, 0, False, 0.0]]
    yield {"tree": {}, "directed": 1}
    # documents whose encoded size makes a binary length prefix spell the magic number of some other file type (gzip,
    # zlib, bzip2, zip, xz, zstd, byte-order marks, '{"', '<?', pickle, PNG, ...), and every value of its first byte
    for size in _MAGIC_SIZES + list(range(18, 275)):
        yield {"tree": {"k": "x" * (size - 13)}, "directed": 1, "sized": size}
    # many distinct objects, one of the late ones referenced twice by identity (pickle memo beyond 255 entries)
    for n in (40, 150, 300):
        items = [{"name": "srv-%d" % i, "port": 8000 + i, "tags": ["t%d" % i]} for i in range(n)]
        yield {"tree": {"servers": items, "primary": items[-1]["name"], "backup": items[n // 2]["tags"]}, "directed": 1, "shared": n}
    # values that sit inside many containers (chains of maps and lists 30 ... 200 levels deep)
    for depth in (30, 64, 99, 100, 101, 128, 150, 200):
        for shape in ("maps", "lists", "alternating"):
            t = "leaf"
            for level in range(depth):
                as_map = shape == "maps" or (shape == "alternating" and level % 2 == 0)
                t = {"k": t} if as_map else [t]
            yield {"tree": {"deep": t, "n": depth}, "directed": 1, "deep": depth}
    from .c02 import RELATED_STRINGS

    for a, b in RELATED_STRINGS:
        yield {"tree": {"first": a, "second": b, "both": [b, a, {"k": a}]}, "directed": 1}
        yield {"tree": {"first": b, "second": a, "both": [a, b]}, "directed": 1}
    for v in leaves:
        yield {"tree": {"k0": v}}
        yield {"tree": {"CONFIG": v, "config": {"k0": v}}}
        yield {"tree": {"k1": [v, v], "k2": {"k0": v}}}


def _count_nodes(v):
    if isinstance(v, dict):
        return 1 + sum(_count_nodes(x) for x in v.values())
    if isinstance(v, list):
        return 1 + sum(_count_nodes(x) for x in v)
    return 1


class _Unencodable:
    def __reduce_ex__(self, proto):
        raise TypeError("cannot serialise this")


def _scramble(t, depth=0):
    """Change every list / dict of a decoded tree in place (the caller owns what a decode returns)."""
    if depth > 12:
        return
    if isinstance(t, dict):
        for v in list(t.values()):
            _scramble(v, depth + 1)
        for k in list(t)[:1]:
            del t[k]
        t["__scrambled__"] = [1]
    elif isinstance(t, list):
        for v in t:
            _scramble(v, depth + 1)
        t.append("__scrambled__")
        t.reverse()


def run(case, ctx, res):
    if case.get("deep"):
        res.count("trees_nested_30_to_200_levels")
    cc = ctx.cc
    tree = case["tree"]
    if case.get("sized"):
        res.count("documents_of_chosen_encoded_size")
    if case.get("shared"):
        res.count("trees_with_shared_late_objects")
    cfg = ctx.cache.get("cfg")
    if cfg is None:
        cfg = ctx.cache["cfg"] = cc.Schema()()
    decoded = {}
    indomain = 0
    for fmt in trees.FORMATS:
        if not trees.in_domain(fmt, tree):
            res.count("skipped_out_of_domain:" + fmt)
            continue
        indomain += 1
        per_opt = []
        for opts in trees.OPTIONS[fmt]:
            label = fmt + ("(%s)" % ",".join("%s=%s" % kv for kv in opts.items()) if opts else "")
            try:
                codec = cc.ConfigFormat.get(fmt, **opts)
                blob = codec.dumps(cfg, tree)
                if not isinstance(blob, bytes):
                    res.viol("M-roundtrip", fmt + ":not-bytes", "%s.dumps returned %s" % (label, type(blob).__name__))
                    continue
                back = cc.ConfigFormat.get(fmt, **opts).loads(cfg, blob)
            except Exception as exc:
                kinds = sorted(_kinds(tree))
                res.viol("M-roundtrip", fmt + ":raises", "%s raised %s: %s on an in-domain tree (leaf kinds %s)" % (
                    label, type(exc).__name__, str(exc)[:150], kinds))
                continue
            res.count("roundtrip:" + fmt)
            diff = trees.first_difference(tree, back)
            if diff:
                res.viol("M-roundtrip", "%s:%s" % (fmt, diff[1]), "%s: at %s %s" % (label, diff[0], diff[2]))
            per_opt.append((label, back))
            # decoding is a function of the bytes alone: the caller changes every container of a first result in place,
            # a second decode of the same bytes (new codec object) must still give the encoded tree, and the input tree
            # must be as it was
            if _count_nodes(tree) >= 2:
                try:
                    first = cc.ConfigFormat.get(fmt, **opts).loads(cfg, blob)
                    _scramble(first)
                    again = cc.ConfigFormat.get(fmt, **opts).loads(cfg, blob)
                except Exception as exc:
                    res.viol("M-roundtrip", fmt + ":second-decode-raises", "%s: decoding the same bytes again raised %r" % (label, exc))
                    continue
                res.count("second_decodes_after_mutation")
                diff = trees.first_difference(tree, again)
                if diff:
                    res.viol("M-roundtrip", "%s:second-decode:%s" % (fmt, diff[1]), "%s: the same bytes decoded again after the first result "
                             "was changed in place: at %s %s" % (label, diff[0], diff[2]))
            # wrong root tag must be rejected
            if fmt == "xml":
                mine = opts.get("root_tag", "config")
                for other in ("config", "cfg", "k0", "Config"):
                    if other == mine:
                        continue
                    try:
                        cc.ConfigFormat.get("xml", root_tag=other).loads(cfg, blob)
                    except Exception:
                        res.count("xml_wrong_root_rejected")
                    else:
                        res.viol("M-root", "xml:wrong-root-accepted", "document with root <%s> accepted under root_tag=%r" % (
                            mine, other))
        for (la, a), (lb, b) in zip(per_opt, per_opt[1:]):
            res.count("option_comparisons")
            if not eqstar(a, b):
                d = trees.first_difference(a, b)
                res.viol("M-options", fmt + ":option-changes-result", "%s vs %s: at %s %s" % (la, lb, d[0], d[2]))
        if per_opt:
            decoded[fmt] = per_opt[0][1]
    # an encode that fails part-way (a value outside the format's domain somewhere in the tree) leaves nothing behind:
    # the very same tree object, with the offending entry taken out again, still encodes and decodes
    if isinstance(tree, dict) and decoded:
        import copy as _copy

        offending = {"bson": [2**70, -2**70, {"nul\x00key": 1}], "xml": ["nul\x00char", {"bad key": 1}], "json": [b"bytes", {1, 2}],
                     "yaml": [_Unencodable()], "pickle": [_Unencodable(), lambda: 0]}
        for fmt in sorted(decoded):
            work = _copy.deepcopy(tree)
            holders = [work] + [v for v in work.values() if isinstance(v, dict)]
            for i, bad in enumerate(offending[fmt]):
                holder = holders[i % len(holders)]
                holder["zzbad"] = bad
                codec = cc.ConfigFormat.get(fmt)
                try:
                    codec.dumps(cfg, work)
                    failed = False
                except Exception:
                    failed = True
                del holder["zzbad"]
                if not failed:
                    continue
                res.count("encodes_after_a_failed_encode")
                try:
                    back = cc.ConfigFormat.get(fmt).loads(cfg, codec.dumps(cfg, work))
                except Exception as exc:
                    res.viol("M-roundtrip", fmt + ":raises-after-failed-encode", "%s: after an encode of this tree object failed (an "
                             "unrepresentable value, removed again), encoding it raised %s: %s" % (fmt, type(exc).__name__, str(exc)[:120]))
                    break
                diff = trees.first_difference(tree, back)
                if diff:
                    res.viol("M-roundtrip", "%s:after-failed-encode:%s" % (fmt, diff[1]), "%s: at %s %s" % (fmt, diff[0], diff[2]))
                    break
    names = sorted(decoded)
    for a, b in zip(names, names[1:]):
        res.count("cross_format_comparisons")
        if not eqstar(decoded[a], decoded[b]):
            d = trees.first_difference(decoded[a], decoded[b])
            res.viol("M-agree", "%s-vs-%s" % (a, b), "formats disagree at %s: %s" % (d[0], d[2]))
    if indomain >= 2 and (_count_nodes(tree) >= 3 or case.get("directed")):
        res.nontrivial(tree)


def _kinds(v, out=None):
    out = out if out is not None else set()
    if isinstance(v, dict):
        for x in v.values():
            _kinds(x, out)
    elif isinstance(v, list):
        for x in v:
            _kinds(x, out)
    out.add(trees.leaf_kind(v))
    return out
