"""C16 - all ways of naming a field agree; command-line overrides touch only what's given."""
import contextlib
import io

from .. import gen, history, model, spec
from ..common import Snapshot, eqstar, plain
from .c05 import env_of

PLAN = {
    "quick": {"shards": 8, "cases": 700, "min_nontrivial": 3000, "budget_s": 300},
    "thorough": {"shards": 16, "cases": 12000, "min_nontrivial": 67200, "budget_s": 1500},
}
RULE = ("schemas of depth <= 4 and width <= 6 with identifier keys whose option names are unique after the '.'/'_' -> '-' "
        "mapping, over all field families (nested schemas, config types, virtual and method fields included); (1) for "
        "every (path, owner, field) of get_all_fields: schema[path] is field, item_ref_path(field) == path, cfg[path] "
        "equals chained attribute access, stored paths are `in cfg`, cfg[path] = v is visible through attributes; (2) "
        "the generated parser's option set equals {--p: scalar field} + {--p, --no-p: boolean field} with destination "
        "p; (3) real argparse parsing of command lines (empty, single, many, repeated option, on/off switches, "
        "invalid values) and cmdline_args_override with ignore lists (none, string, list) on configurations in default "
        "and mutated states: the state afterwards must equal 'supplied and not ignored options set to their normal "
        "form and marked user-defined, every other value and flag untouched'; non-trivial = >= 4 paths and >= 1 "
        "command line applied; distinct = distinct (schema, state, command line)")
REQUIRED = ("fields_or_sections_built_with_a_key_of_their_own", "parser_from_a_configuration_with_state", "parsed_arguments_applied_to_a_fresh_configuration", "instance_methods_looked_up_by_path", "number_fields_declared_with_the_base_class", "membership_negatives", "schema_iterations_compared", "parsed_arguments_reused_with_another_ignore_list", "parser_from_schema_method", "sections_nested_in_a_section_of_the_same_name", "mode_helper_replaces_an_earlier_field", "rejected_command_lines_applied_again", "schemas_with_names_of_schema_methods_or_odd_underscores", "schema_grown_after_enumeration", "paths_checked", "dotted_assignments_checked", "parsers_compared", "overrides_compared", "argv:empty",
            "argv:bool-on", "argv:bool-off", "argv:bool-both-switches", "argv:value", "argv:repeated", "argv:invalid", "ignore:str", "ignore:list",
            "state:mutated", "depth>=3", "older_configuration_overrides_compared",
            "older_configuration:options_for_fields_added_later_applied", "older_configuration:invalid_value_supplied")
ASSUMPTIONS = ["enumeration is judged on root schemas / configurations; membership is demanded of stored fields only",
               "missing paths are never looked up on a schema (that would create them)",
               "the parser's actions are read through argparse's own action list"]
SCALAR_STR = {"str", "loglevel", "appmode", "ipv4", "net", "host", "url", "file", "secure"}
SCALAR_NUM = {"int", "port", "float"}
BOOL = {"bool", "flag"}
SHRINK_KEY = None


def _opt(path):
    return "--" + path.replace(".", "-").replace("_", "-").lower()


def generate(rng, ctx):
    for _ in range(30):
        depth = rng.choice([1, 2, 3, 4] if ctx.tier == "thorough" else [1, 2, 3])
        schema = gen.gen_schema(rng, depth=depth, width=rng.choice([3, 4, 6]), defaults=0.5, lists_of_cfg=True, dynamic=0.0)
        if rng.random() < 0.4:
            extra = gen.pick_keys(rng, 2, avoid={ch["key"] for ch in schema["fields"]})
            schema["fields"].append({"kind": "field", "key": extra[0], "family": "virtual",
                                     # (a computed field is no option of the parser, whatever its getter is annotated with)
                                     "params": {"returns": "v", "ret_annotation": rng.choice([None, "int", "str", "bool", "float", "'str'"])}})
            schema["fields"].append({"kind": "field", "key": extra[1], "family": "method", "params": {"source": "def f(cfg):\n    return 1\n"}})
        if not any(ch["kind"] == "field" and ch["family"] in BOOL for ch in schema["fields"]):
            keys = gen.pick_keys(rng, 1, avoid={ch["key"] for ch in schema["fields"]})
            b = {"kind": "field", "key": keys[0], "family": "bool", "params": {}}
            if rng.random() < 0.5:
                b["params"]["default"] = rng.random() < 0.7
            schema["fields"].append(b)
        # names that coincide with public names of the Schema class, names with doubled / trailing underscores
        odd = ["validator", "make_type", "instance_method", "get_all_fields", "generate_argparse_parser", "dry__run", "class_", "x__y_",
               # identifiers with a leading underscore (declared by item assignment)
               "_ttl", "_internal", "__x"]
        if rng.random() < 0.35:
            nodes = [(spec.node_at(schema, spec.split_parent(p)[0]) if "." in p else schema, nd)
                     for p, nd in spec.walk(schema) if "[]" not in p]
            for owner, nd in rng.sample(nodes, min(len(nodes), rng.choice([1, 1, 2]))):
                taken = {ch["key"] for ch in model.fields_of(owner)["fields"]}
                free = [k for k in odd if k not in taken]
                if free:
                    nd["key"] = rng.choice(free)
                    nd["odd_name"] = True
            schema["odd_names"] = True
        if rng.random() < 0.3:
            # a section inside a section of the same name (log.log.level)
            for p0, nd in spec.walk(schema):
                if nd["kind"] == "schema" and "[]" not in p0:
                    kids = [ch for ch in nd["fields"] if ch["kind"] == "schema"]
                    if kids and all(ch["key"] != nd["key"] for ch in nd["fields"]):
                        rng.choice(kids)["key"] = nd["key"]
                        schema["same_name_nesting"] = True
                        break
        # build styles: sub-schemas created by attribute access / item lookup / dotted item paths, or built and used
        # on their own before being mounted (field paths must not depend on the order of construction)
        for p, nd in spec.walk(schema):
            if nd["kind"] == "schema" and "[]" not in p and rng.random() < 0.4:
                nd["style"] = rng.choice(["mounted", "mounted", "auto", "getitem", "dotted"])
                if nd.get("odd_name") and nd["style"] == "auto":
                    nd["style"] = "getitem"  # attribute access on the schema finds the method of that name
        paths = [p for p, nd in spec.walk(schema) if "[]" not in p]
        opts = set()
        ok = True
        for p in paths:
            for o in (_opt(p), "--no-" + _opt(p)[2:]):
                if o in opts or o in ("--help", "--no-help"):
                    ok = False
                opts.add(o)
        if ok:
            break
    for _p, nd in spec.walk(schema):
        if nd["kind"] == "field" and nd["family"] in ("int", "float") and rng.random() < 0.2:
            nd["params"]["base_class"] = True  # declared as NumberField(int, ...) / NumberField(float, ...)
            schema["number_base_class"] = True
    for _p, nd in spec.walk(schema):
        # fields and sections built with a key of their own (as taken from another schema): the name they are registered
        # under is the one that counts
        if "[]" in _p or rng.random() >= 0.15:
            continue
        if nd["kind"] == "field" and nd["family"] in ("int", "float", "str", "bool"):
            nd["params"]["key"] = "ctor_%d" % rng.randrange(5)
            schema["constructor_keys"] = True
        elif nd["kind"] == "schema" and nd.get("style") == "mounted":
            nd["ctor_key"] = "ctor_%d" % rng.randrange(5)
            schema["constructor_keys"] = True
    env = gen.GEN_ENV
    state_ops = [op for op in history.gen_ops(rng, schema, env, rng.choice([0, 0, 4, 8]), bad=0.0) if op["op"] == "set" and not op.get("dynamic")]
    leaves = [(p, nd) for p, nd in spec.walk(schema) if "[]" not in p and nd["kind"] == "field"]
    cmdlines = []
    for _ in range(rng.choice([2, 3, 4])):
        kind = rng.choice(["empty", "single", "many", "many", "repeated", "invalid"])
        argv, supplied = [], {}
        pick = []
        if kind == "single":
            pick = rng.sample(leaves, 1)
        elif kind in ("many", "repeated", "invalid"):
            pick = rng.sample(leaves, min(len(leaves), rng.randrange(2, 6)))
        for p, nd in pick:
            fam = nd["family"]
            if fam in BOOL:
                on = rng.random() < 0.5
                if kind == "repeated" and rng.random() < 0.6:
                    # both switches of one boolean: the last one wins
                    argv.append("--no-" + _opt(p)[2:] if on else _opt(p))
                    if rng.random() < 0.3:
                        argv.append(_opt(p) if on else "--no-" + _opt(p)[2:])
                        argv.append("--no-" + _opt(p)[2:] if on else _opt(p))
                argv.append(_opt(p) if on else "--no-" + _opt(p)[2:])
                supplied[p] = on
            elif fam in SCALAR_STR | SCALAR_NUM:
                want = "invalid" if kind == "invalid" and rng.random() < 0.6 else "valid"
                for _t in range(12):
                    v = gen.one_value(rng, nd, want, env)
                    if isinstance(v, (int, float)) and not isinstance(v, bool):
                        v = str(v)
                    if isinstance(v, str) and not v.startswith("-") and "\x00" not in v:
                        break
                else:
                    continue
                if want == "valid" and fam in SCALAR_STR and rng.random() < 0.15:
                    # values that mean something to a command-line parser when it is configured that way
                    for special in ("@" + v, "@alice", "=" + v, "+" + v, "/" + v):
                        if model.accepts(nd, special, env)[0] is True:
                            v = special
                            break
                if kind == "repeated" and rng.random() < 0.5:
                    argv += [_opt(p), "zzz-first"]
                argv += [_opt(p), v]
                supplied[p] = v
        ignore = rng.choice([None, None, "str", "list"])
        ign = None
        if ignore and supplied:
            names = rng.sample(sorted(supplied), rng.randrange(1, min(3, len(supplied)) + 1))
            ign = names[0] if ignore == "str" else names
        cmdlines.append({"kind": kind, "argv": argv, "supplied": supplied, "ignore": ign})
    # an application-mode field creates computed is_<mode>_mode helpers; one of those names is already taken by an
    # ordinary field declared earlier in the same section (the helper replaces it)
    if rng.random() < 0.15:
        holders = [schema] + [nd for p, nd in spec.walk(schema) if nd["kind"] == "schema" and "[]" not in p]
        holder = rng.choice(holders)
        taken = {ch["key"] for ch in holder["fields"]}
        if not taken & {"is_dev_mode", "is_prod_mode", "runmode"}:
            holder["fields"].insert(rng.randrange(len(holder["fields"]) + 1), {"kind": "field", "key": "is_dev_mode", "family": "bool",
                                                                                 "params": {"default": False}})
            holder["fields"].append({"kind": "field", "key": "runmode", "family": "appmode",
                                     "params": {"modes": ["dev", "prod"], "create_helpers": True, "default": "prod"}})
            schema["helper_collision"] = True
    case = {"schema": schema, "state_ops": state_ops, "cmdlines": cmdlines, "via_schema_method": rng.random() < 0.3,
            "parser_from_config": rng.random() < 0.5}
    case["older"] = _gen_older(rng, env, cmdlines)
    return case


def _cmdline_text(rng, nd, want, env):
    """A value of the wanted model label that can stand on a command line (text, no leading dash), or None."""
    for _t in range(12):
        v = gen.one_value(rng, nd, want, env)
        if isinstance(v, (int, float)) and not isinstance(v, bool):
            v = str(v)
        if isinstance(v, str) and not v.startswith("-") and "\x00" not in v:
            return v
    return None


def _gen_older(rng, env, cmdlines):
    """Options for the fields the schema gains after a configuration was built from it (see _older_configuration): one
    value per family of the added fields, which of them the user supplies, what is ignored, an optional invalid value
    and an optional command line over the fields the configuration already knew."""
    values, invalid = {"bool": rng.random() < 0.5}, {}
    for fam in ("int", "float", "str"):
        nd = {"kind": "field", "key": "grown", "family": fam, "params": {}}
        values[fam] = _cmdline_text(rng, nd, "valid", env)
        if fam != "str":
            invalid[fam] = _cmdline_text(rng, nd, "invalid", env)
    pick = [rng.random() < 0.7 for _ in range(3)]
    if not any(pick):
        pick[rng.randrange(3)] = True
    known = [i for i, cl in enumerate(cmdlines) if cl["kind"] != "invalid" and cl["argv"]]
    ignore = rng.choice([None, None, None, "str", "list"])
    return {"values": values, "invalid_values": invalid, "invalid": rng.random() < 0.2, "pick": pick, "front": rng.random() < 0.5,
            "with_cmdline": rng.choice(known) if known and rng.random() < 0.5 else None, "mutated": rng.random() < 0.5,
            "ignore": ignore, "ignore_idx": rng.sample([0, 1, 2], rng.choice([1, 1, 2])), "ignore_known": rng.random() < 0.5}


def abbreviate(case):
    return case


def expected_options(root):
    """{option string: destination path} the generated parser must offer."""
    out = {}
    for p, nd in spec.walk(root):
        if "[]" in p or nd["kind"] != "field":
            continue
        # fields inside config types are not enumerated (a config type is one field of the schema)
        if _inside_ctype(root, p):
            continue
        fam = nd["family"]
        if fam in SCALAR_STR | SCALAR_NUM:
            out[_opt(p)] = p
        elif fam in BOOL:
            out[_opt(p)] = p
            out["--no-" + _opt(p)[2:]] = p
    return out


def _inside_ctype(root, path):
    parts = path.split(".")
    for i in range(1, len(parts)):
        nd = spec.node_at(root, ".".join(parts[:i]))
        if nd is not None and nd["kind"] == "ctype":
            return True
    return False


def _expected_view(root):
    """The schema as it is after the application-mode fields created their computed helpers: a helper replaces an
    earlier field of the same name (at its position), others are appended."""
    import copy

    root = copy.deepcopy(root)

    def fix(node):
        fields = model.fields_of(node)["fields"]
        for ch in list(fields):
            if ch["kind"] in ("schema", "ctype"):
                fix(ch)
            elif ch["kind"] == "field" and ch["family"] == "appmode" and ch.get("params", {}).get("create_helpers"):
                for m in ch["params"].get("modes") or model.APPMODES:
                    name = "is_%s_mode" % m
                    virt = {"kind": "field", "key": name, "family": "virtual", "params": {"returns": "helper"}}
                    hit = [i for i, c in enumerate(fields) if c["key"] == name]
                    if hit:
                        fields[hit[0]] = virt
                    else:
                        fields.append(virt)
    fix(root)
    return root


def _chain(cfg, path):
    """Chained attribute access; a segment spelled like an attribute of the configuration class itself can only be
    reached by item access."""
    cur = cfg
    for seg in path.split("."):
        cur = cur[seg] if hasattr(type(cur), seg) else getattr(cur, seg)
    return cur


def run(case, ctx, res):
    cc = ctx.cc
    env = env_of(ctx)
    drv = history.Driver(ctx, res, case["schema"], env)
    root, schema, cfg = _expected_view(drv.root), drv.built.schema, drv.cfg
    if case["schema"].get("same_name_nesting"):
        res.count("sections_nested_in_a_section_of_the_same_name")
    if case["schema"].get("helper_collision"):
        res.count("mode_helper_replaces_an_earlier_field")
    if case["schema"].get("number_base_class"):
        res.count("number_fields_declared_with_the_base_class")
    if case["schema"].get("constructor_keys"):
        res.count("fields_or_sections_built_with_a_key_of_their_own")
    if case["schema"].get("odd_names"):
        res.count("schemas_with_names_of_schema_methods_or_odd_underscores")
    def check_names(stage):
        fields = cc.get_all_fields(schema)
        listed = [p for p, _o, _f in fields]
        want_paths = [p for p, nd in spec.walk(root) if "[]" not in p and not _inside_ctype(root, p)]
        if sorted(listed) != sorted(want_paths) or listed != [p for p, _o, _f in cc.get_all_fields(cfg)]:
            res.viol("M-names", "enumeration" + stage, "get_all_fields lists %r, the schema declares %r" % (listed, want_paths))
            return None
        if max([p.count(".") for p in listed] or [0]) >= 2:
            res.count("depth>=3")
        for path, owner, field in fields:
            res.count("paths_checked")
            nd = spec.node_at(root, path)
            if schema[path] is not field:
                res.viol("M-names", "schema-lookup" + stage, "schema[%r] is not the field enumerated under that path" % path)
                return None
            if cc.item_ref_path(field) != path:
                res.viol("M-names", "ref-path" + stage, "item_ref_path of the field at %r is %r" % (path, cc.item_ref_path(field)))
                return None
            fam = nd["family"] if nd["kind"] == "field" else nd["kind"]
            if fam == "method":
                # an instance method is enumerated like any field: item access gives what attribute access gives - the
                # function bound to the configuration that holds it
                res.count("instance_methods_looked_up_by_path")
                try:
                    via_item, via_attr = cfg[path], _chain(cfg, path)
                except Exception as exc:
                    res.viol("M-names", "config-lookup:method", "reading the instance method %r raised %r" % (path, exc))
                    return None
                if via_item is not via_attr or not callable(via_item):
                    res.viol("M-names", "config-lookup:method", "cfg[%r] is %r, attribute access gives %r" % (path, via_item, via_attr))
                    return None
                continue
            try:
                via_item = cfg[path]
                via_attr = _chain(cfg, path)
            except Exception as exc:
                res.viol("M-names", "config-lookup:" + fam, "reading %r raised %r" % (path, exc))
                return None
            same = via_item is via_attr if isinstance(via_attr, cc.Config) else eqstar(plain(via_item), plain(via_attr))
            if not same and fam != "virtual":
                res.viol("M-names", "config-lookup:" + fam, "cfg[%r] is %r, attribute access gives %r" % (path, via_item, via_attr))
                return None
            if fam != "virtual" and path not in cfg:
                res.viol("M-names", "membership", "%r is enumerated and readable but `in cfg` is False" % path)
                return None
            # ... and names that are not paths of the schema are not members: below a leaf, next to the field
            if not root.get("dynamic") and not any(n.get("dynamic") for _p, n in spec.walk(root) if n["kind"] == "schema"):
                for bogus in ([path + ".nope"] if fam not in ("schema", "ctype") else []) + [path + "_nope_zz"]:
                    if bogus in listed:
                        continue
                    res.count("membership_negatives")
                    try:
                        inside = bogus in cfg
                    except Exception as exc:
                        res.viol("M-names", "membership-raises", "`%r in cfg` raised %r" % (bogus, exc))
                        return None
                    if inside:
                        res.viol("M-names", "membership-of-unknown", "%r is not a path of the schema but `in cfg` is True" % bogus)
                        return None
        # iterating a schema lists its own keys and fields, in declaration order
        res.count("schema_iterations_compared")
        top = [(k, f) for k, f in schema]
        own = [(p, f) for p, _o, f in fields if "." not in p]
        if [k for k, _f in top] != [p for p, _f in own] or any(a[1] is not b[1] for a, b in zip(top, own)):
            res.viol("M-names", "schema-iteration" + stage, "iterating the schema gives %r, its top-level fields are %r" % (
                [k for k, _f in top], [p for p, _f in own]))
            return None
        return fields

    # ---- (1) naming: on the schema as built, and again after the schema has grown (fields added to nested schemas
    # after the first enumeration must show up in the next one)
    fields = check_names("")
    if fields is None:
        return
    listed = [p for p, _o, _f in fields]
    grow = [p for p, nd in spec.walk(root) if nd["kind"] == "schema" and "[]" not in p and not _inside_ctype(root, p)]
    grow_rng = ctx.cache.setdefault("rng16g", __import__("random").Random(61))
    targets = grow_rng.sample(grow, min(len(grow), 2)) + [""]
    # a configuration built (and, for half the cases, assigned to) BEFORE the schema grows: it is older than part of its schema
    older = case.get("older")
    old_cfg, grown = None, []
    if older:
        old_cfg = drv.cfg = cc.Config(schema, key_filename=drv.keyfile)
        if older["mutated"] and case["state_ops"]:
            for op in case["state_ops"]:
                try:
                    drv.step(op)
                except Exception:
                    pass
            res.count("older_configuration:mutated")
        drv.cfg = cfg
    for n, gpath in enumerate(targets):
        holder = schema[gpath] if gpath else schema
        gnode = spec.node_at(root, gpath) if gpath else root
        key = "grown%d" % n
        fam = grow_rng.choice(["int", "bool", "str", "float"])
        setattr(holder, key, {"int": cc.IntField, "bool": cc.BoolField, "str": cc.StringField, "float": cc.FloatField}[fam]())
        gnode["fields"].append({"kind": "field", "key": key, "family": fam, "params": {}})
        grown.append(((gpath + "." if gpath else "") + key, fam))
        res.count("schema_grown_after_enumeration")
    cfg = drv.cfg = cc.Config(schema, key_filename=drv.keyfile)
    fields = check_names(":after-growth")
    if fields is None:
        return
    listed = [p for p, _o, _f in fields]
    # dotted-path assignment is visible through attributes
    for path, owner, field in fields:
        nd = spec.node_at(root, path)
        if nd["kind"] != "field" or nd["family"] in ("virtual", "method", "include"):
            continue
        rng = ctx.cache.setdefault("rng16", __import__("random").Random(16))
        v = spec.resolve(gen.one_value(rng, nd, "valid", env), drv.mapping)
        ok, norm = model.accepts(nd, v, env)
        if ok is not True or v is None:
            continue
        try:
            cfg[path] = spec.realize(cc, v)
        except Exception as exc:
            res.viol("M-names", "dotted-assignment", "cfg[%r] = %r raised %r" % (path, v, exc))
            return
        res.count("dotted_assignments_checked")
        d = model.match(norm, plain(_chain(cfg, path)))
        if d:
            res.viol("M-names", "dotted-assignment", "after cfg[%r] = %r attribute access gives: %s" % (path, v, d))
            return
    # ---- (2) the parser
    cfg = drv.cfg = cc.Config(schema, key_filename=drv.keyfile)
    for op in case["state_ops"]:
        try:
            drv.step(op)
        except Exception:
            pass
    if case["state_ops"]:
        res.count("state:mutated")
    try:
        if case.get("via_schema_method"):
            import warnings

            # the (deprecated) method of the schema is the same parser by another door
            with warnings.catch_warnings():
                warnings.simplefilter("ignore")
                parser = schema.generate_argparse_parser()
            res.count("parser_from_schema_method")
        elif case.get("parser_from_config"):
            # the parser is made from the configuration (in the state it has now) instead of from the schema
            parser = cc.generate_argparse_parser(cfg)
            res.count("parser_from_a_configuration_with_state")
        else:
            parser = cc.generate_argparse_parser(schema)
    except Exception as exc:
        res.viol("M-parser", "raises", "generate_argparse_parser raised %r" % (exc,))
        return
    got = {}
    for action in parser._actions:
        for o in action.option_strings:
            if o in ("-h", "--help"):
                continue
            got[o] = action.dest
    want = expected_options(root)
    res.count("parsers_compared")
    if got != want:
        missing = sorted(set(want) - set(got))
        extra = sorted(set(got) - set(want))
        wrongdest = sorted(o for o in set(want) & set(got) if want[o] != got[o])
        res.viol("M-parser", "option-set", "parser options differ: missing %r, unexpected %r, wrong destination %r" % (
            missing[:6], extra[:6], [(o, got[o], want[o]) for o in wrongdest[:4]]))
        return
    # ---- (3a) overrides applied to the configuration that is older than the fields the schema gained
    if old_cfg is not None and not _older_configuration(cc, res, spec.resolve(older, drv.mapping), root, env, old_cfg, grown, parser, want,
                                                         spec.resolve(case["cmdlines"], drv.mapping)):
        return
    # ---- (3) overrides
    applied = 0
    for cl in spec.resolve(case["cmdlines"], drv.mapping):
        argv = [a for a in cl["argv"]]
        supplied = {p: v for p, v in cl["supplied"].items() if _opt(p) in want}
        argv = _filter_argv(argv, want)
        try:
            with contextlib.redirect_stderr(io.StringIO()):
                args = parser.parse_args(argv)
        except SystemExit:
            # every generated option is a plain store / store_true / store_false: a command line made of generated
            # options, each value option followed by one value, must parse
            res.count("argparse_rejected_command_line")
            res.viol("M-parser", "rejects-command-line", "the generated parser rejected %r, a command line over its own options" % (argv,))
            return
        ign = cl["ignore"]
        ign_list = [ign] if isinstance(ign, str) else (ign or [])
        before = Snapshot(cfg)
        expect_vals = history.clone(before.values)
        expect_flags = dict(before.flags)
        unknown = False
        invalid = False
        for p, v in supplied.items():
            if p in ign_list:
                continue
            nd = spec.node_at(root, p)
            ok, norm = model.accepts(nd, v, env)
            if ok is None:
                unknown = True
            elif ok is False:
                invalid = True
            else:
                history.pset(expect_vals, p, norm)
                expect_flags[p] = True
        try:
            cc.cmdline_args_override(cfg, args, ignore=ign)
            err = None
        except Exception as exc:
            err = exc
        if any(argv.count(_opt(p)) + argv.count("--no-" + _opt(p)[2:]) > 1 for p, v in supplied.items() if isinstance(v, bool)):
            res.count("argv:bool-both-switches")
        res.count("argv:" + ("empty" if not argv else cl["kind"] if cl["kind"] in ("repeated", "invalid") else "value"))
        if any(isinstance(v, bool) and v for v in supplied.values()):
            res.count("argv:bool-on")
        if any(isinstance(v, bool) and not v for v in supplied.values()):
            res.count("argv:bool-off")
        if isinstance(ign, str):
            res.count("ignore:str")
        elif ign:
            res.count("ignore:list")
        if unknown:
            continue
        if invalid:
            if err is None:
                res.viol("M-override", "invalid-value-accepted", "command line %r carries an invalid value but the override returned" % (argv,))
                return
            # the same rejected command line again: to the same configuration and to a second one built from the schema
            second = cc.Config(drv.built.schema, key_filename=drv.keyfile)
            for which, target in (("the same configuration", cfg), ("a second configuration of the schema", second)):
                try:
                    cc.cmdline_args_override(target, args, ignore=ign)
                    again = None
                except Exception as exc:
                    again = exc
                res.count("rejected_command_lines_applied_again")
                if again is None:
                    res.viol("M-override", "invalid-value-accepted:second-application", "command line %r was rejected (%s) but accepted when "
                             "applied again to %s" % (argv, str(err)[:80], which))
                    return
            continue
        if err is not None:
            res.viol("M-override", "raises", "override with %r (ignore %r) raised %s: %s" % (argv, ign, type(err).__name__, str(err)[:150]))
            return
        after = Snapshot(cfg)
        res.count("overrides_compared")
        applied += 1
        d = model.match(expect_vals, after.values)
        feat = "empty-command-line" if not argv else ("ignored-option-applied" if ign_list else "values")
        if d:
            res.viol("M-override", feat, "command line %r (ignore %r): %s" % (argv, ign, d))
            return
        fd = [p for p in sorted(set(expect_flags) | set(after.flags)) if expect_flags.get(p) != after.flags.get(p)]
        if fd:
            res.viol("M-override", feat + ":flags", "command line %r (ignore %r) changed the user-defined status of %r" % (argv, ign, fd[:5]))
            return
        if case.get("parser_from_config"):
            # the same parsed arguments applied to a configuration that was just built: only what the user supplied arrives
            from ..common import defined_map

            fourth = cc.Config(drv.built.schema, key_filename=drv.keyfile)
            try:
                cc.cmdline_args_override(fourth, args, ignore=ign)
            except Exception as exc:
                res.viol("M-override", "fresh-configuration:raises", "applying %r to a configuration that was just built raised %r" % (argv, exc))
                return
            stray = [p for p, on in defined_map(fourth).items() if on is True and p not in supplied and
                     (spec.node_at(root, p) or {}).get("kind") == "field"]
            res.count("parsed_arguments_applied_to_a_fresh_configuration")
            if stray:
                res.viol("M-override", "fresh-configuration:values-not-supplied", "command line %r parsed with a parser made from a configuration "
                         "and applied to a freshly built one: %r became user-defined although the user did not supply them" % (argv, stray[:5]))
                return
        if ign_list and not invalid and not unknown and all(
                model.accepts(spec.node_at(root, p), v, env)[0] is True for p, v in supplied.items()):
            # the SAME parsed arguments applied again, this time ignoring nothing: everything the user supplied arrives
            third = cc.Config(drv.built.schema, key_filename=drv.keyfile)
            try:
                cc.cmdline_args_override(third, args)
            except Exception as exc:
                res.viol("M-override", "reuse-of-parsed-arguments:raises", "applying the parsed arguments of %r a second time (nothing "
                         "ignored) raised %r" % (argv, exc))
                return
            res.count("parsed_arguments_reused_with_another_ignore_list")
            for p, v in supplied.items():
                nd = spec.node_at(root, p)
                ok, norm = model.accepts(nd, v, env)
                if ok is True and model.match(norm, plain(third[p])):
                    res.viol("M-override", "reuse-of-parsed-arguments", "command line %r: applied once ignoring %r, then again to another "
                             "configuration ignoring nothing: %s was supplied as %r but reads %r" % (argv, ign, p, v, plain(third[p])))
                    return
    if len(listed) >= 4 and applied:
        res.nontrivial(case["schema"], case["state_ops"], case["cmdlines"])


def _older_configuration(cc, res, older, root, env, old_cfg, grown, parser, want, cmdlines):
    """The application built its configuration first, further fields were declared afterwards (`grown`: their paths and
    families) and the parser was generated from the grown schema.  An option the user supplies for such a field - alone or
    next to options for fields the configuration already knew - is an option like any other: supplied and not ignored, it
    is applied in its normal form through normal validation; everything else stays as it was.  False after a violation."""
    argv, supplied = [], {}
    base = older.get("with_cmdline")
    if base is not None and base < len(cmdlines):
        argv = _filter_argv(list(cmdlines[base]["argv"]), want)
        supplied = {p: v for p, v in cmdlines[base]["supplied"].items() if _opt(p) in want}
    extra, late = [], []
    for n, (path, fam) in enumerate(grown):
        if not older["pick"][n % len(older["pick"])] or _opt(path) not in want:
            continue
        if fam == "bool":
            on = bool(older["values"]["bool"]) ^ (n % 2 == 1)
            extra.append(_opt(path) if on else "--no-" + _opt(path)[2:])
            supplied[path] = on
        else:
            v = older["invalid_values"].get(fam) if older["invalid"] else None
            if v is None:
                v = older["values"].get(fam)
            if v is None:
                continue
            extra += [_opt(path), v]
            supplied[path] = v
        late.append(path)
    if not late:
        return True
    argv = extra + argv if older["front"] else argv + extra
    try:
        with contextlib.redirect_stderr(io.StringIO()):
            args = parser.parse_args(argv)
    except SystemExit:
        res.viol("M-parser", "rejects-command-line", "the generated parser rejected %r, a command line over its own options" % (argv,))
        return False
    ign = None
    if older["ignore"]:
        names = [grown[i][0] for i in older["ignore_idx"] if i < len(grown) and grown[i][0] in supplied]
        if older["ignore_known"]:
            names += sorted(p for p in supplied if p not in late)[:1]
        if names:
            ign = names[0] if older["ignore"] == "str" else names
    ign_list = [ign] if isinstance(ign, str) else (ign or [])
    before = Snapshot(old_cfg)
    expect_vals = history.clone(before.values)
    expect_flags = dict(before.flags)
    unknown = invalid = False
    late_applied = 0
    for p, v in supplied.items():
        if p in ign_list:
            continue
        ok, norm = model.accepts(spec.node_at(root, p), v, env)
        if ok is None:
            unknown = True
        elif ok is False:
            invalid = True
        else:
            history.pset(expect_vals, p, norm)
            expect_flags[p] = True
            late_applied += p in late
    try:
        cc.cmdline_args_override(old_cfg, args, ignore=ign)
        err = None
    except Exception as exc:
        err = exc
    if unknown:
        return True
    if invalid:
        res.count("older_configuration:invalid_value_supplied")
        if err is None:
            res.viol("M-override", "older-configuration:invalid-value-accepted", "command line %r (ignore %r) carries an invalid value but the "
                     "override of a configuration built before the schema gained %r returned" % (argv, ign, late))
            return False
        return True
    if err is not None:
        res.viol("M-override", "older-configuration:raises", "override with %r (ignore %r) of a configuration built before the schema gained "
                 "%r raised %s: %s" % (argv, ign, late, type(err).__name__, str(err)[:150]))
        return False
    after = Snapshot(old_cfg)
    res.count("older_configuration_overrides_compared")
    if late_applied:
        res.count("older_configuration:options_for_fields_added_later_applied")
    if ign_list:
        res.count("older_configuration:ignore")
    d = model.match(expect_vals, after.values)
    if d:
        res.viol("M-override", "older-configuration:values", "configuration built before the schema gained %r, command line %r (ignore %r): %s" % (
            late, argv, ign, d))
        return False
    fd = [p for p in sorted(set(expect_flags) | set(after.flags)) if expect_flags.get(p) != after.flags.get(p)]
    if fd:
        res.viol("M-override", "older-configuration:flags", "configuration built before the schema gained %r, command line %r (ignore %r) changed "
                 "the user-defined status of %r" % (late, argv, ign, fd[:5]))
        return False
    return True


def _filter_argv(argv, want):
    """Drop options the parser does not offer (fields inside config types etc.) together with their value."""
    out, i = [], 0
    while i < len(argv):
        a = argv[i]
        if a.startswith("--") and a not in want:
            i += 1
            if i < len(argv) and not argv[i].startswith("--"):
                i += 1
            continue
        out.append(a)
        i += 1
    return out
