"""C05 - field validation is exact and idempotent; the on-disk encoding is invertible."""
import copy
import os

from .. import gen, model, spec
from ..common import eqstar, plain, Digest

PLAN = {
    "quick": {"shards": 8, "cases": 3000, "min_nontrivial": 12000, "budget_s": 300},
    "thorough": {"shards": 16, "cases": 20000, "min_nontrivial": 112000, "budget_s": 1500},
}
RULE = ("a case is one field spec (family x boundary-valued constructor options; containers with every item/key/value "
        "family) attached to a real schema/configuration with a sandbox key file, plus 30-80 candidate values (each "
        "bound +-1, every Python type, look-alikes) labelled by the reference model; for every candidate: accept/"
        "reject and normal form against the model, determinism (two calls), idempotence (validate the result again), "
        "and to_python(to_basic(w)) == w with w accepted again; candidates whose status the documentation leaves open "
        "are skipped and counted; non-trivial = at least one accepted and one rejected candidate judged; distinct = "
        "distinct (spec, candidates)")
REQUIRED = ("stored_values_revalidated_after_the_world_changed", "sibling_proxy_arguments_judged", "judged_accept", "judged_reject", "idempotence_checks", "encode_decode_checks", "determinism_checks")
ASSUMPTIONS = ["the reference model (vf/model.py) states the declared constraints of each field family as documented",
               "exception types of rejections are not judged here (C15)"]
EXCLUDED = ["number strings with underscores, non-ASCII digits or > 400 characters", "NaN against bounds",
            "IPv4 text with leading zeros", "hostmask / 0.0.0.0 mask notation for networks",
            "digits-and-dots strings that are not a dotted quad as host names", "non-ASCII host names", "resolve=True",
            "URLs containing characters <= U+0020, brackets or non-ASCII", "paths starting with ~ or containing a backslash",
            "'' for FilenameField with exists=...", "base64 text with characters outside the alphabet",
            "tuples in untyped positions (encode law)", "'' for a required SecureField (accepted, stored as unset)", "non-string values of SecureField (encode law)"]


def env_of(ctx):
    fx = ctx.sb.fx
    return {"root": ctx.sb.root, "cwd": ctx.sb.root,
            "paths": {fx: "dir", fx + "/file.txt": "file", fx + "/dir": "dir", fx + "/dir/inner.txt": "file",
                      ctx.sb.root: "dir"}}


def tags(f):
    """Mechanism tags of a field spec (used in violation features)."""
    out = []
    p = model._str_params(f) if f["family"] in ("str", "loglevel", "appmode", "ipv4", "net", "host", "url", "file") else f.get("params", {})
    strip = p.get("transform_strip")
    if isinstance(strip, str) and p.get("transform_case") and any(c.lower() != c.upper() for c in strip):
        out.append("strip-cased+case")
    for sub in ("item", "keyf", "valf"):
        if f.get(sub) and f[sub].get("kind") == "field":
            out.append("%s=%s" % (sub, f[sub]["family"]))
            out += ["%s.%s" % (sub, t) for t in tags(f[sub]) if "strip-cased" in t]
    return out


def generate(rng, ctx):
    fam = rng.choice(gen.SCALAR_FAMILIES + ["list", "list", "list", "dict", "dict"])
    f = gen.gen_field(rng, fam, depth=2 if rng.random() < 0.3 else 1, families=gen.SCALAR_FAMILIES + ["list", "dict"])
    f["key"] = "f0"
    n = rng.randrange(30, 81 if ctx.tier == "thorough" else 50)
    return {"field": f, "values": gen.candidates(rng, f, n, gen.GEN_ENV), "seed": rng.getrandbits(32)}


def probes(ctx):
    # K5: strip characters with cased letters + case transform -> validation is not idempotent
    f = {"kind": "field", "key": "f0", "family": "str",
         "params": {"transform_strip": "A", "transform_case": "upper", "min_len": 2}}
    yield "K5", {"field": f, "values": ["xa", "XA", "aXa", "abc"], "seed": 0}


def abbreviate(case):
    c = dict(case)
    c["values"] = case["values"][:8]
    c["values_total"] = len(case["values"])
    return c


def _same(a, b):
    """Equality of two library results (digest values: structurally)."""
    return eqstar(plain(a), plain(b), zero_sign=False)


def run(case, ctx, res):
    cc = ctx.cc
    env = env_of(ctx)
    mapping = {"$FX": ctx.sb.fx, "$CWD": ctx.sb.root}
    f = spec.resolve(case["field"], mapping)
    values = spec.resolve(case["values"], mapping)
    root = {"kind": "schema", "key": "", "fields": [f]}
    # a looser sibling (same shape, no constraints or transforms): its live typed value is offered to the field as well
    sibling = None
    SIMPLE = ("str", "int", "float", "bool", "port", "host", "loglevel", "ipv4", "net", "url")
    if f["family"] in ("list", "dict"):
        from .c17 import _loosen

        inner = [f.get(k) for k in ("item", "keyf", "valf") if f.get(k)]
        if inner and all(n.get("kind") == "field" and n["family"] in SIMPLE for n in inner):
            sibling = _loosen(f)
            sibling["key"] = "f1"
            sibling["params"] = {}
            root["fields"].append(sibling)
    built = spec.build(cc, root)
    keypath = os.path.join(ctx.dir, "k.key")
    cfg = cc.Config(built.schema, key_filename=keypath)
    field = built.schema.f0
    fam = f["family"]
    tg = tags(f)
    tagtxt = (":" + "+".join(tg)) if tg else ""
    acc = rej = 0

    for v in values:
        rv = spec.realize(cc, v)
        if sibling is not None and isinstance(rv, (list, dict)) and rv:
            # the same data, held by the sibling field of the same configuration
            try:
                cfg.f1 = rv
                live = cfg.f1
            except Exception:
                live = None
            if isinstance(live, (cc.ListProxy, cc.DictProxy)):
                pv = plain(live)
                ok2, norm2 = model.accepts(f, pv, env)
                if ok2 is not None:
                    res.count("sibling_proxy_arguments_judged")
                    try:
                        r = field.validate(cfg, live)
                        raised = None
                    except Exception as exc:
                        r, raised = None, exc
                    if raised is None and not ok2:
                        res.viol("M-exact", fam + ":accepts-invalid:via-sibling-proxy" + tagtxt, "params %r accept the live value %r of a looser "
                                 "sibling field -> %r" % (f.get("params"), pv, plain(r)))
                        continue
                    if raised is not None and ok2:
                        res.viol("M-exact", fam + ":rejects-valid:via-sibling-proxy" + tagtxt, "params %r reject the live value %r of a looser "
                                 "sibling field (%s)" % (f.get("params"), pv, str(raised)[:100]))
                        continue
                    if raised is None and model.match(norm2, plain(r)):
                        res.viol("M-normal", fam + ":normal-form:via-sibling-proxy" + tagtxt, "params %r, live value %r of a looser sibling "
                                 "field: %s" % (f.get("params"), pv, model.match(norm2, plain(r))))
                        continue
        ok, norm = model.accepts(f, v, env)
        if ok is None:
            res.count("skipped_open_status")
            continue
        outs = []
        for _ in range(2):
            arg = rv
            try:
                outs.append(("ok", field.validate(cfg, arg)))
            except Exception as exc:
                outs.append(("raised", exc))
        res.count("determinism_checks")
        (k1, r1), (k2, r2) = outs
        if k1 != k2:
            res.viol("M-determinism", fam + ":flaky" + tagtxt, "validate(%r) %s then %s" % (v, k1, k2))
            continue
        if k1 == "raised":
            if ok:
                res.viol("M-exact", fam + ":rejects-valid" + tagtxt, "params %r reject %r (%s: %s); model normal form %r" % (
                    f.get("params"), v, type(r1).__name__, str(r1)[:100], norm))
            else:
                rej += 1
                res.count("judged_reject")
            continue
        if not ok:
            res.viol("M-exact", fam + ":accepts-invalid" + tagtxt, "params %r accept %r -> %r" % (f.get("params"), v, r1))
            continue
        acc += 1
        res.count("judged_accept")
        p1 = plain(r1)
        d = model.match(norm, p1)
        if d:
            res.viol("M-normal", fam + ":normal-form" + tagtxt, "params %r, value %r: %s" % (f.get("params"), v, d))
            continue
        if fam != "challenge" and not _contains_digest(p1) and not _same(r1, r2):
            res.viol("M-determinism", fam + ":two-results-differ" + tagtxt, "validate(%r) gave %r then %r" % (v, r1, r2))
        # idempotence
        res.count("idempotence_checks")
        try:
            r3 = field.validate(cfg, r1)
        except Exception as exc:
            res.viol("M-idempotent", _idem_feature(fam, "revalidate-rejects", tg), "params %r: %r -> %r, and %r is then rejected (%s)" % (
                f.get("params"), v, r1, r1, str(exc)[:100]))
            continue
        d = model.match(norm, plain(r3))
        if d or not _same(r1, r3):
            res.viol("M-idempotent", _idem_feature(fam, "revalidate-differs", tg), "params %r: %r -> %r -> %r" % (
                f.get("params"), v, r1, r3))
            continue
        # encode / decode law (an unset value is not a value)
        if r1 is None:
            continue
        if fam == "secure" and not isinstance(r1, str):
            continue
        if fam == "any" or (fam == "list" and f.get("item") is None and isinstance(r1, tuple)):
            continue
        if fam == "list" and f.get("item") is None and not _basic(p1):
            continue
        if fam == "dict" and f.get("keyf") is None and f.get("valf") is None and not _basic(p1):
            continue
        if _untyped_inside(f, p1) or _has_tuple(p1) or _empty_required_secret(f, p1):
            res.count("encode_law_not_judged")
            continue
        res.count("encode_decode_checks")
        try:
            basic = field.to_basic(cfg, r1)
            back = field.to_python(cfg, basic)
        except Exception as exc:
            res.viol("M-encode", fam + ":encode-decode-raises" + tagtxt, "params %r: accepted %r cannot be encoded and decoded: "
                     "%s: %s" % (f.get("params"), r1, type(exc).__name__, str(exc)[:120]))
            continue
        pb = plain(back)
        want = p1
        if not eq_disk(f, want, pb):
            res.viol("M-encode", fam + ":encode-decode-differs" + tagtxt, "params %r: %r -> on disk %r -> %r" % (
                f.get("params"), r1, basic, back))
            continue
        try:
            again = field.validate(cfg, back)
        except Exception as exc:
            res.viol("M-encode", fam + ":decoded-rejected" + tagtxt, "params %r: decoded %r is rejected: %s" % (
                f.get("params"), back, str(exc)[:100]))
            continue
        if not _contains_digest(pb) and not eq_disk(f, want, plain(again)):
            res.viol("M-encode", fam + ":decoded-revalidates-differently" + tagtxt, "%r -> %r" % (back, again))
    if fam == "file" and f.get("params", {}).get("exists") in (True, "file", "dir", False):
        _stale_state(cc, ctx, res, f["params"]["exists"])
    if acc and rej:
        res.nontrivial(case["field"], case["values"])


def _stale_state(cc, ctx, res, kind):
    """Validation is a function of the value AND the world at the time of the call: a stored value that was fine when it
    was assigned is rejected by a later validation once the file system no longer agrees."""
    import shutil

    sch = cc.Schema()
    sch.p = cc.FilenameField(exists=kind)
    sch.other = cc.IntField(default=1)
    cfg = sch()
    target = os.path.join(ctx.dir, "stale-target")

    def put(present):
        if os.path.isdir(target):
            shutil.rmtree(target)
        elif os.path.exists(target):
            os.unlink(target)
        if present == "dir":
            os.mkdir(target)
        elif present:
            with open(target, "w") as fp:
                fp.write("x")

    put("dir" if kind == "dir" else (False if kind is False else True))
    try:
        cfg.p = target
    except Exception as exc:
        res.viol("M-exact", "file:rejects-valid:stale-state-setup", "exists=%r rejects %s although the file system agrees: %s" % (kind, target, exc))
        return
    stored = cfg.p
    put(True if kind is False else False)  # the world changes: created for exists=False, removed otherwise
    res.count("stored_values_revalidated_after_the_world_changed")
    for how, fn in (("Config.validate()", lambda: cfg.validate()), ("field.validate(cfg, stored value)", lambda: sch.p.validate(cfg, stored)),
                    ("re-assigning the stored value", lambda: setattr(cfg, "p", stored))):
        try:
            fn()
        except Exception:
            continue
        res.viol("M-exact", "file:accepts-invalid:stored-value-after-change", "exists=%r: %s accepted the stored path after the file system "
                 "changed (it %s)" % (kind, how, "now exists" if kind is False else "is gone"))
        return


def _idem_feature(fam, what, tg):
    if any("strip-cased+case" in t for t in tg):
        return "not-idempotent:strip-cased+case"
    return "%s:%s%s" % (fam, what, (":" + "+".join(tg)) if tg else "")


def eq_disk(f, want, got):
    """Equality after a trip through the on-disk form, with the two stated normalisations applied at every
    depth: an empty secret comes back unset, an unset typed list/dict may come back empty."""
    if f is None or f.get("kind") != "field":
        return eqstar(want, got)
    fam = f["family"]
    if fam == "secure":
        return got is None if want in ("", None) else eqstar(want, got)
    typed_list = fam == "list" and f.get("item") is not None and f["item"].get("kind") == "field" and f["item"]["family"] != "any"
    typed_dict = fam == "dict" and (f.get("keyf") or f.get("valf"))
    if want is None and (typed_list or typed_dict):
        return got is None or (isinstance(got, (list, dict)) and len(got) == 0)
    if typed_list and isinstance(want, list) and isinstance(got, list):
        return len(want) == len(got) and all(eq_disk(f["item"], a, b) for a, b in zip(want, got))
    if typed_dict and isinstance(want, dict) and isinstance(got, dict):
        if len(want) != len(got):
            return False
        for k, a in want.items():
            hit = [kk for kk in got if (type(kk) is type(k) or (isinstance(kk, str) and isinstance(k, str))) and kk == k]
            if not hit or not eq_disk(f.get("valf"), a, got[hit[0]]):
                return False
        return True
    return eqstar(want, got)


def _has_tuple(v):
    if isinstance(v, Digest):
        return False
    if isinstance(v, tuple):
        return True
    if isinstance(v, dict):
        return any(_has_tuple(x) for x in v.values())
    if isinstance(v, list):
        return any(_has_tuple(x) for x in v)
    return False


def _empty_required_secret(f, value):
    """'' is accepted by a required SecureField but is stored as unset: status left open."""
    if f["family"] == "secure":
        return bool(f.get("params", {}).get("required")) and value == ""
    for sub in ("item", "keyf", "valf"):
        node = f.get(sub)
        if node and node.get("kind") == "field":
            vals = value.values() if isinstance(value, dict) and sub != "keyf" else (
                list(value) if isinstance(value, (list, dict)) else [])
            if any(_empty_required_secret(node, x) for x in vals if x is not None):
                return True
    return False


def _contains_digest(v):
    if isinstance(v, Digest):
        return True
    if isinstance(v, dict):
        return any(_contains_digest(x) for x in v.values())
    if isinstance(v, (list, tuple)):
        return any(_contains_digest(x) for x in v)
    return False


def _basic(v):
    if v is None or isinstance(v, (bool, int, float, str)):
        return True
    if isinstance(v, list):
        return all(_basic(x) for x in v)
    if isinstance(v, dict):
        return all(isinstance(k, str) and _basic(x) for k, x in v.items())
    return False


def _untyped_inside(f, value):
    """Typed containers whose item/key/value field is untyped (any / secure holding non-strings) carry arbitrary
    python objects; the encode law is only judged when those are plain data."""
    for sub in ("item", "keyf", "valf"):
        node = f.get(sub)
        if node and node.get("kind") == "field" and node["family"] in ("any", "secure"):
            return not _basic_strs(value, node["family"])
        if node and node.get("kind") == "field" and node["family"] in ("list", "dict"):
            if isinstance(value, list):
                if any(_untyped_inside(node, x) for x in value if x is not None):
                    return True
            elif isinstance(value, dict):
                if any(_untyped_inside(node, x) for x in value.values() if x is not None):
                    return True
    return False


def _basic_strs(value, fam):
    vals = value.values() if isinstance(value, dict) else (value if isinstance(value, (list, tuple)) else [value])
    if fam == "secure":
        return all(v is None or isinstance(v, str) for v in vals)
    return all(_basic(v) for v in vals)
