"""C12 - defaults, user-defined status and reset behave as a consistent state machine."""
from .. import gen, history, model, spec
from ..model import Unknown
from .c05 import env_of

PLAN = {
    "quick": {"shards": 8, "cases": 700, "min_nontrivial": 2500, "budget_s": 300},
    "thorough": {"shards": 16, "cases": 10000, "min_nontrivial": 56000, "budget_s": 1500},
}
RULE = ("schemas with constant, callable and absent defaults on every field family at depth <= 3 (typed lists/dicts "
        "wrapped, challenge defaults hashed, sub-configurations rebuilt; ~30% of the scalar defaults are valid but not in "
        "normal form - 'INFO', '4', ' x ' below transform_strip); (1) two fresh configurations: every field "
        "exposes its declared default, nothing is user-defined, every callable default was evaluated at least once per "
        "configuration; (2) a history of assignments (accepted and rejected), dict/Config assigned to sub-"
        "configurations, load_tree / loads of valid trees, resets, constructor keywords and in-place list/dict "
        "mutations: after each step the values AND the user-defined flag of every path (all depths, list items) are "
        "compared with a prediction computed from the state observed before the step; non-trivial = >= 1 accepted "
        "assignment, >= 1 rejected one and >= 1 reset judged; distinct = distinct (schema, history)")
REQUIRED = ("items_moved_to_a_second_configuration", "trees_loaded_without_the_final_validation", "schemas_with_keys_named_like_config_methods", "forwarding_setter_assignments_judged:partly-rejected", "equal_items_with_other_status_judged", "dynamic_sections_reset_after_runtime_fields", "callable_object_defaults", "dotted_status_queries", "schemas_with_unnormalised_defaults", "fresh_default_checks", "callable_default_checks", "flag_maps_compared", "accepted_assignments_judged",
            "rejected_ops_judged", "resets_judged", "loads_judged")
ASSUMPTIONS = ["in-place mutation of a default list/dict does not make it user-defined (the statement says 'assigned or "
               "loaded')", "loads that fail are not judged (their partial effect is unspecified)"]
SHRINK_KEY = "ops"


def _add_callables(rng, node):
    for ch in model.fields_of(node)["fields"]:
        if ch["kind"] in ("schema", "ctype"):
            _add_callables(rng, ch)
        elif "default" in ch.get("params", {}) and ch["family"] not in ("challenge",) and rng.random() < 0.35:
            ch["params"]["default_callable"] = rng.choice([True, True, "partial", "object"])


RAW_FAMILIES = ("str", "loglevel", "appmode", "int", "float", "port", "bool", "ipv4", "net", "host", "url", "bytes")


def _add_raw_defaults(rng, node, env):
    """Declared defaults that are valid but not a fixed point of their own validation chain ('INFO' for a
    log level, '4' for an integer, ' x ' below transform_strip): the library exposes them as declared, and
    neither a load nor validate() may replace them or make the field user-defined."""
    n = 0
    for ch in model.fields_of(node)["fields"]:
        if ch["kind"] in ("schema", "ctype"):
            n += _add_raw_defaults(rng, ch, env)
        elif ch["kind"] == "field" and ch["family"] in RAW_FAMILIES and rng.random() < 0.3:
            for _ in range(8):
                v = gen.one_value(rng, ch, "valid", env)
                if v is None or isinstance(v, (bytearray, tuple)) or (isinstance(v, float) and v != v):
                    continue
                ok, norm = model.accepts(ch, v, env)
                if ok is True and not isinstance(norm, model.Hashed) and (type(norm) is not type(v) or norm != v):
                    ch["params"]["default"] = v
                    n += 1
                    break
    return n


def generate(rng, ctx):
    thorough = ctx.tier == "thorough"
    schema = gen.gen_schema(rng, depth=rng.choice([1, 2, 3] if thorough else [1, 2, 2]), width=rng.choice([3, 4, 5]),
                            defaults=0.8, dynamic=0.25)
    # sections and fields may be named like methods of the Config class (reachable by item / dotted path only)
    if rng.random() < 0.3:
        names = ["save", "load", "validate", "dumps", "loads", "to_tree", "load_tree"]
        nodes = [nd for p, nd in history.all_paths(schema) if "[]" not in p]
        owners = {id(nd): (spec.node_at(schema, spec.split_parent(p)[0]) if "." in p else schema) for p, nd in history.all_paths(schema) if "[]" not in p}
        for nd in rng.sample(nodes, min(len(nodes), 2)):
            taken = {ch["key"] for ch in model.fields_of(owners[id(nd)])["fields"]}
            free = [n for n in names if n not in taken]
            if free:
                nd["key"] = rng.choice(free)
        schema["method_like_names"] = True
    env = gen.GEN_ENV
    raw = _add_raw_defaults(rng, schema, env)
    _add_callables(rng, schema)
    n = rng.randrange(4, 50 if thorough else 26)
    ops = history.gen_ops(rng, schema, env, n, bad=rng.choice([0.15, 0.3]))
    # more resets, and loads use valid trees only
    out = []
    for op in ops:
        if op["op"] in ("load_tree", "loads"):
            op["tree"] = gen.tree_for(rng, schema, env, valid=True, partial=0.5)
            op.pop("corrupt", None)
        if op["op"] == "cmdline":
            continue
        out.append(op)
        if rng.random() < 0.15:
            nodes = history.all_paths(schema)
            if nodes:
                p, _nd = rng.choice(nodes)
                out.append({"op": "reset", "path": p, "route": rng.choice(["parent", "dotted"])})
    # a computed field whose setter forwards a pair of values to two real fields of its configuration
    for holder_path, holder in [("", schema)] + [(p, nd) for p, nd in history.all_paths(schema) if nd["kind"] == "schema" and "[]" not in p]:
        leaves = [ch for ch in holder["fields"] if ch["kind"] == "field" and ch["family"] in ("int", "str", "port", "float", "bool", "host")
                  and not ch["params"].get("default_callable")]
        if len(leaves) >= 2 and rng.random() < 0.5 and all(ch["key"] != "vpair" for ch in holder["fields"]):
            a, b = rng.sample(leaves, 2)
            holder["fields"].append({"kind": "field", "key": "vpair", "family": "virtual", "params": {"returns": "v", "forward": [a["key"], b["key"]]}})
            vp = (holder_path + "." if holder_path else "") + "vpair"
            for _ in range(3):
                good1 = gen.one_value(rng, a, "valid", env)
                second = gen.one_value(rng, b, rng.choice(["invalid", "invalid", "valid"]), env)
                if good1 is not None:
                    out.insert(rng.randrange(len(out) + 1), {"op": "set_forward", "path": vp, "value": [good1, second]})
    # lists of configuration types: an item at its defaults, then the same position loaded from a document that spells
    # those very defaults out (equal content, other user-defined status), and the other way round
    for p, nd in history.all_paths(schema):
        if nd["kind"] == "field" and nd["family"] == "list" and "[]" not in p and nd.get("item") and nd["item"]["kind"] == "ctype":
            dflt = model.defaults_tree(nd["item"], env)
            if not isinstance(dflt, dict) or any(v is Unknown or isinstance(v, (dict, list, model.Hashed)) or v is None for v in dflt.values()):
                continue
            if model.accepts_tree(nd["item"], dflt, env)[0] is not True:
                continue
            parts = p.split(".")

            def nest(v, parts=parts):
                for seg in reversed(parts):
                    v = {seg: v}
                return v
            pair = [{"op": "set", "route": "attr", "path": p, "value": [{}, {}]}, {"op": "load_tree", "tree": nest([dict(dflt), {}]), "equal_items": True}]
            if rng.random() < 0.5:
                pair = [{"op": "load_tree", "tree": nest([dict(dflt), dict(dflt)])}, {"op": "set", "route": "attr", "path": p, "value": [{}, dict(dflt)], "equal_items": True}]
            at = rng.randrange(len(out) + 1)
            out[at:at] = pair
    # dynamic sections: a field the schema does not declare is added at run time, then the SECTION is reset
    for p, nd in history.all_paths(schema):
        if nd["kind"] == "schema" and nd.get("dynamic") and "[]" not in p and rng.random() < 0.8:
            at = rng.randrange(len(out) + 1)
            out[at:at] = [{"op": "set", "route": "attr", "path": p + "." + rng.choice(["extra1", "zz9"]), "value": rng.choice([1, "x", [1, 2]]),
                           "dynamic": True},
                          {"op": "reset", "path": p, "route": rng.choice(["parent", "dotted"]), "after_dynamic": True}]
    return {"schema": schema, "ops": out, "raw_defaults": raw}


def abbreviate(case):
    return {"schema": case["schema"], "ops": case["ops"][:6], "ops_total": len(case["ops"])}


def flag_diff(expected, observed, loose=None):
    out = []
    for path in sorted(set(expected) | set(observed)):
        if loose and path != loose and history.under(path, loose):
            continue
        a, b = expected.get(path, "<absent>"), observed.get(path, "<absent>")
        if a is Unknown:
            continue
        if a != b:
            out.append("%s: expected user-defined=%r, observed %r" % (path, a, b))
    return out


def dotted_flags_problem(cc, cfg, flags, res):
    """The user-defined status asked by dotted path from the root and from every ancestor must be the one the owning
    (sub)configuration reports."""
    from .. import spec as _spec

    for path, flag in flags.items():
        if "[" in path or "." not in path or not isinstance(flag, bool):
            continue
        segs = path.split(".")
        for up in range(len(segs) - 1):
            holder_path, rel = ".".join(segs[:up]), ".".join(segs[up:])
            if "." not in rel:
                continue
            try:
                holder = _spec.get_path(cfg, holder_path) if holder_path else cfg
            except Exception:
                break
            res.count("dotted_status_queries")
            try:
                got = cc.is_value_defined(holder, rel)
            except Exception as exc:
                return "is_value_defined(%s, %r) raised %r" % (holder_path or "<root>", rel, exc)
            if got != flag:
                return "is_value_defined(%s, %r) is %r, the owning configuration reports %r" % (holder_path or "<root>", rel, got, flag)
    return None


def run(case, ctx, res):
    env = env_of(ctx)
    drv = history.Driver(ctx, res, case["schema"], env)
    cc = ctx.cc
    # (1) fresh configurations
    first = drv.cfg
    second = cc.Config(drv.built.schema, key_filename=drv.keyfile)
    expect = model.defaults_tree(drv.root, env)
    for which, cfg in (("first", first), ("second", second)):
        snap = drv.snapshot(cfg)
        res.count("fresh_default_checks")
        d = model.match(expect, snap.values)
        if d:
            res.viol("M-fresh", "default-value", "%s fresh configuration does not expose the declared defaults: %s" % (which, d))
            return
        bad = [p for p, f in snap.flags.items() if f is not False]
        if bad:
            res.viol("M-fresh", "default-flag", "%s fresh configuration reports %r as user-defined" % (which, bad[:5]))
            return
        d = dotted_flags_problem(cc, cfg, snap.flags, res)
        if d:
            res.viol("M-fresh", "dotted-status", "%s fresh configuration: %s" % (which, d))
            return
    for path, nd in history.all_paths(case["schema"]):
        if nd["kind"] == "field" and nd.get("params", {}).get("default_callable") in ("partial", "object"):
            res.count("callable_object_defaults")
    for path, n in drv.built.calls.items():
        res.count("callable_default_checks")
        if n < 2:
            res.viol("M-fresh", "callable-default", "callable default of %s evaluated %d time(s) for two configurations" % (path, n))
            return
    if case.get("raw_defaults"):
        res.count("schemas_with_unnormalised_defaults")
    if case["schema"].get("method_like_names"):
        res.count("schemas_with_keys_named_like_config_methods")
    # (2) the history
    acc = rej = resets = 0
    for idx, op in enumerate(case["ops"]):
        out = drv.step(op)
        if out is None:
            res.count("ops_skipped")
            continue
        after = drv.snapshot()
        kind = out["kind"].split(":")[0]
        pred = out["pred"]
        if kind == "set-forward":
            if (out["raised"] is None) != out["label"]:
                res.count("forwarding_setter_outcome_not_as_modelled")
                continue
            res.count("forwarding_setter_assignments_judged" + (":partly-rejected" if out.get("partial") else ""))
            d = model.match(pred.values, after.values)
            fd = flag_diff(pred.flags, after.flags)
            if d or fd:
                res.viol("M-state", "forwarding-setter:" + ("partial" if out.get("partial") else "full"), "step %d: a computed field forwards %r "
                         "to two fields (%s): %s" % (idx, op["value"], "the second was rejected" if out.get("partial") else "both accepted",
                                                     d or "; ".join(fd[:4])))
                return
            continue
        if out["raised"] is not None and kind == "reset":
            res.viol("M-state", "reset-raises", "step %d: reset_value of the declared field %r (route %s) raised %r" % (
                idx, out["path"], op.get("route"), out["raised"]))
            return
        if idx % 5 == 4 or idx == len(case["ops"]) - 1:
            d = dotted_flags_problem(cc, drv.cfg, after.flags, res)
            if d:
                res.viol("M-state", "dotted-status", "step %d: after %s at %r: %s" % (idx, out["kind"], out["path"], d))
                return
        if out["raised"] is not None:
            if kind in ("set", "set-sub", "set-dynamic", "ctor") or (out.get("listed") and kind in ("listop", "dictop")):
                rej += 1
                res.count("rejected_ops_judged")
                res.count("flag_maps_compared")
                d = flag_diff(out["before"].flags, after.flags)
                if d:
                    res.viol("M-state", "rejected:%s" % out["kind"], "step %d: rejected %s at %r changed user-defined status: %s" % (
                        idx, out["kind"], out["path"], "; ".join(d[:4])))
                    return
            continue
        if pred.unpredicted or pred.values is None or out["label"] is not True:
            res.count("ops_not_predicted")
            continue
        feat = "%s:%s" % (out["kind"], (out.get("node") or {}).get("family", (out.get("node") or {}).get("kind", "")))
        d = model.match(pred.values, after.values)
        if d:
            res.viol("M-state", "value:" + feat, "step %d: after %s at %r: %s" % (idx, out["kind"], out["path"], d))
            return
        res.count("flag_maps_compared")
        fd = flag_diff(pred.flags, after.flags, getattr(pred, "loose_flags_under", None))
        if fd:
            res.viol("M-state", "flag:" + feat, "step %d: after %s at %r: %s" % (idx, out["kind"], out["path"], "; ".join(fd[:4])))
            return
        if op.get("equal_items"):
            res.count("equal_items_with_other_status_judged")
        if kind in ("set", "set-sub", "ctor"):
            acc += 1
            res.count("accepted_assignments_judged")
        elif kind == "reset":
            resets += 1
            res.count("resets_judged")
            if op.get("after_dynamic"):
                res.count("dynamic_sections_reset_after_runtime_fields")
        elif kind in ("load_tree", "loads"):
            res.count("loads_judged")
        else:
            res.count("inplace_ops_judged")
    # ---- items of a configuration list that travel, as objects, to the same list of a second configuration keep their
    # values and their status: what nobody assigned is still not user-defined after the move
    from ..common import defined_map, eqstar, plain as _plain

    twin = None
    for p, nd in spec.walk(drv.root):
        if nd["kind"] != "field" or nd["family"] != "list" or "[]" in p or not nd.get("item") or nd["item"]["kind"] == "field":
            continue
        try:
            lst = spec.get_path(drv.cfg, p)
        except Exception:
            continue
        if not isinstance(lst, list) or not len(lst) or not all(isinstance(it, cc.Config) for it in lst):
            continue
        want = [(defined_map(it), _plain(it)) for it in lst]
        items = list(lst)
        try:
            if twin is None:
                twin = cc.Config(drv.built.schema, key_filename=drv.keyfile)
            route = ("assign", "append", "extend")[len(p) % 3]
            if route == "assign":
                twin[p] = lst
            else:
                if spec.get_path(twin, p) is None:
                    twin[p] = []
                tl = spec.get_path(twin, p)
                del tl[:]
                if route == "append":
                    for it in items:
                        tl.append(it)
                else:
                    tl.extend(items)
            arrived = list(spec.get_path(twin, p))
        except Exception:
            res.count("item_moves_not_applicable")
            continue
        res.count("items_moved_to_a_second_configuration")
        if len(arrived) != len(want):
            res.viol("M-state", "moved-items:count", "%s: %d item(s) handed to a second configuration (%s), it holds %d" % (p, len(want), route, len(arrived)))
            return
        for i, (it, (flags, values)) in enumerate(zip(arrived, want)):
            got_flags, got_values = defined_map(it), _plain(it)
            if not eqstar(got_values, values):
                res.viol("M-state", "moved-items:value", "%s[%d] handed to a second configuration (%s): values %r -> %r" % (p, i, route, values, got_values))
                return
            if got_flags != flags:
                diff = sorted(k for k in set(flags) | set(got_flags) if flags.get(k) != got_flags.get(k))
                res.viol("M-state", "moved-items:flag", "%s[%d] handed to a second configuration (%s): user-defined status of %s changed "
                         "(%r -> %r)" % (p, i, route, diff[:4], [flags.get(k) for k in diff[:4]], [got_flags.get(k) for k in diff[:4]]))
                return
    if acc and rej and resets:
        res.nontrivial(case["schema"], case["ops"])
