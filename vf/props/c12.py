"""C12 - defaults, user-defined status and reset behave as a consistent state machine."""
from .. import gen, history, model, spec
from ..model import Unknown
from .c05 import env_of

PLAN = {
    "quick": {"shards": 8, "cases": 700, "min_nontrivial": 2500, "budget_s": 300},
    "thorough": {"shards": 16, "cases": 10000, "min_nontrivial": 56000, "budget_s": 1500},
}
RULE = ("schemas with constant, callable and absent defaults on every field family at depth <= 3 (typed lists/dicts "
        "wrapped, challenge defaults hashed, sub-configurations rebuilt; ~30% of the scalar defaults are valid but not in "
        "normal form - 'INFO', '4', ' x ' below transform_strip); (1) two fresh configurations: every field "
        "exposes its declared default, nothing is user-defined, every callable default was evaluated at least once per "
        "configuration; (2) a history of assignments (accepted and rejected), dict/Config assigned to sub-"
        "configurations, load_tree / loads of valid trees, resets, constructor keywords and in-place list/dict "
        "mutations: after each step the values AND the user-defined flag of every path (all depths, list items) are "
        "compared with a prediction computed from the state observed before the step; non-trivial = >= 1 accepted "
        "assignment, >= 1 rejected one and >= 1 reset judged; distinct = distinct (schema, history)")
REQUIRED = ("documents_with_includes_judged", "kept_sections_assigned_back_judged:after-replacement",
            "items_moved_to_a_second_configuration", "trees_loaded_without_the_final_validation", "schemas_with_keys_named_like_config_methods", "forwarding_setter_assignments_judged:partly-rejected", "equal_items_with_other_status_judged", "dynamic_sections_reset_after_runtime_fields", "callable_object_defaults", "dotted_status_queries", "schemas_with_unnormalised_defaults", "fresh_default_checks", "callable_default_checks", "flag_maps_compared", "accepted_assignments_judged",
            "rejected_ops_judged", "resets_judged", "loads_judged")
ASSUMPTIONS = ["in-place mutation of a default list/dict does not make it user-defined (the statement says 'assigned or "
               "loaded')", "loads that fail are not judged (their partial effect is unspecified)"]
SHRINK_KEY = "ops"


def _add_callables(rng, node):
    for ch in model.fields_of(node)["fields"]:
        if ch["kind"] in ("schema", "ctype"):
            _add_callables(rng, ch)
        elif "default" in ch.get("params", {}) and ch["family"] not in ("challenge",) and rng.random() < 0.35:
            ch["params"]["default_callable"] = rng.choice([True, True, "partial", "object"])


RAW_FAMILIES = ("str", "loglevel", "appmode", "int", "float", "port", "bool", "ipv4", "net", "host", "url", "bytes")


def _add_raw_defaults(rng, node, env):
    """Declared defaults that are valid but not a fixed point of their own validation chain ('INFO' for a
    log level, '4' for an integer, ' x ' below transform_strip): the library exposes them as declared, and
    neither a load nor validate() may replace them or make the field user-defined."""
    n = 0
    for ch in model.fields_of(node)["fields"]:
        if ch["kind"] in ("schema", "ctype"):
            n += _add_raw_defaults(rng, ch, env)
        elif ch["kind"] == "field" and ch["family"] in RAW_FAMILIES and rng.random() < 0.3:
            for _ in range(8):
                v = gen.one_value(rng, ch, "valid", env)
                if v is None or isinstance(v, (bytearray, tuple)) or (isinstance(v, float) and v != v):
                    continue
                ok, norm = model.accepts(ch, v, env)
                if ok is True and not isinstance(norm, model.Hashed) and (type(norm) is not type(v) or norm != v):
                    ch["params"]["default"] = v
                    n += 1
                    break
    return n


INC_KEY = "inc0"


def _add_include_holders(rng, schema):
    """Include fields in nested scopes of every shape: in existing sections / configuration types (not through lists), at
    the root, and at the bottom (sometimes also half-way) of a new chain of sections below the root whose levels are plain
    sections or configuration types in any order (a type inside a type, a type inside a section inside a type, ...).
    Returns the paths of the scopes that have an include field ('' = the root)."""
    def inc_field():
        return {"kind": "field", "key": INC_KEY, "family": "include", "params": ({"startdir": "$DIR"} if rng.random() < 0.5 else {})}

    holders = []
    if rng.random() < 0.7 and all(ch["key"] != "incl0" for ch in schema["fields"]):
        kinds = [rng.choice(["schema", "ctype"]) for _ in range(rng.choice([1, 2, 2, 3, 3]))]
        top = cur = None
        path = ""
        for lv, kind in enumerate(kinds):
            body = gen.gen_schema(rng, depth=0, width=rng.choice([2, 3]), defaults=0.8, dynamic=0)
            key = "incl0" if lv == 0 else "lv%d" % lv
            body["key"] = key
            node = body if kind == "schema" else {"kind": "ctype", "key": key, "name": "TI%d" % lv, "schema": dict(body, key="")}
            path = (path + "." if path else "") + key
            if lv == len(kinds) - 1 or rng.random() < 0.25:
                model.fields_of(node)["fields"].insert(rng.randrange(len(body["fields"]) + 1), inc_field())
                holders.append(path)
            if cur is None:
                top = node
            else:
                model.fields_of(cur)["fields"].insert(rng.randrange(len(model.fields_of(cur)["fields"]) + 1), node)
            cur = node
        schema["fields"].insert(rng.randrange(len(schema["fields"]) + 1), top)
    old = [(p, nd) for p, nd in history.all_paths(schema) if nd["kind"] in ("schema", "ctype") and "[]" not in p
           and not history.under(p, "incl0") and all(ch["key"] != INC_KEY for ch in model.fields_of(nd)["fields"])]
    if old and rng.random() < 0.5:
        p, nd = rng.choice(old)
        model.fields_of(nd)["fields"].append(inc_field())
        holders.append(p)
    if rng.random() < 0.25 and all(ch["key"] != INC_KEY for ch in schema["fields"]):
        schema["fields"].append(inc_field())
        holders.append("")
    return holders


def _include_ops(rng, schema, env, holders):
    """Document loads whose document names, in one or several scopes, a file to include; the file gives values for fields
    of that scope the document itself does not mention (so the two never disagree)."""
    ops = []
    for n in range(rng.choice([1, 2, 2, 3])):
        tree = gen.tree_for(rng, schema, env, valid=True, partial=0.5)
        chosen = [h for h in holders if rng.random() < 0.7] or [rng.choice(holders)]
        scopes = []
        for i, hp in enumerate(chosen):
            scope = tree
            for seg in (hp.split(".") if hp else []):
                scope = scope.setdefault(seg, {})
            node = spec.node_at(schema, hp) if hp else schema
            incf = [ch for ch in model.fields_of(node)["fields"] if ch["key"] == INC_KEY][0]
            name = "c12inc%d_%d.cfg" % (n, i)
            scope[INC_KEY] = name if incf["params"].get("startdir") and rng.random() < 0.5 else "$DIR/" + name
            scopes.append((hp, scope, node, name))
        incs = []
        for hp, scope, node, name in scopes:
            given = {}
            for k in list(scope):
                if k != INC_KEY and not isinstance(scope[k], dict) and rng.random() < 0.5:
                    given[k] = scope.pop(k)
            for k, v in gen.tree_for(rng, node, env, valid=True, partial=0.4).items():
                if k not in scope and k not in given:
                    given[k] = v
            incs.append({"holder": hp, "file": name, "tree": given})
        ops.append({"op": "loads_include", "tree": tree, "fmt": rng.choice(history.FORMATS), "includes": incs})
    return ops


def _section_back_ops(rng, schema, env):
    """A section object is kept, the section is replaced (a map assigned, a tree loaded, a reset - or nothing at all) and
    the kept object is assigned back."""
    subs = [(p, nd) for p, nd in history.all_paths(schema) if nd["kind"] in ("schema", "ctype")]
    ops = []
    for _ in range(rng.choice([1, 2, 3]) if subs else 0):
        p, nd = rng.choice(subs)
        hows = ["dict", "dict", "reset", "reset", "none"] + (["load_tree", "load_tree"] if "[]" not in p else [])
        op = {"op": "section_back", "path": p, "how": rng.choice(hows), "route": rng.choice(["attr", "item"]),
              "tree": gen.tree_for(rng, nd, env, valid=True, partial=0.5)}
        leaves = [ch for ch in model.stored_children(nd)
                  if ch["kind"] == "field" and ch["family"] in ("int", "str", "port", "float", "bool", "host")]
        if leaves and rng.random() < 0.8:
            ch = rng.choice(leaves)
            v = gen.one_value(rng, ch, "valid", env)
            if v is not None:
                op["touch"] = [ch["key"], v]
        ops.append(op)
    return ops


def generate(rng, ctx):
    thorough = ctx.tier == "thorough"
    schema = gen.gen_schema(rng, depth=rng.choice([1, 2, 3] if thorough else [1, 2, 2]), width=rng.choice([3, 4, 5]),
                            defaults=0.8, dynamic=0.25)
    # sections and fields may be named like methods of the Config class (reachable by item / dotted path only)
    if rng.random() < 0.3:
        names = ["save", "load", "validate", "dumps", "loads", "to_tree", "load_tree"]
        nodes = [nd for p, nd in history.all_paths(schema) if "[]" not in p]
        owners = {id(nd): (spec.node_at(schema, spec.split_parent(p)[0]) if "." in p else schema) for p, nd in history.all_paths(schema) if "[]" not in p}
        for nd in rng.sample(nodes, min(len(nodes), 2)):
            taken = {ch["key"] for ch in model.fields_of(owners[id(nd)])["fields"]}
            free = [n for n in names if n not in taken]
            if free:
                nd["key"] = rng.choice(free)
        schema["method_like_names"] = True
    inc_holders = _add_include_holders(rng, schema) if rng.random() < 0.4 else []
    env = gen.GEN_ENV
    raw = _add_raw_defaults(rng, schema, env)
    _add_callables(rng, schema)
    n = rng.randrange(4, 50 if thorough else 26)
    ops = history.gen_ops(rng, schema, env, n, bad=rng.choice([0.15, 0.3]))
    # more resets, and loads use valid trees only
    out = []
    for op in ops:
        if op["op"] in ("load_tree", "loads"):
            op["tree"] = gen.tree_for(rng, schema, env, valid=True, partial=0.5)
            op.pop("corrupt", None)
        if op["op"] == "cmdline":
            continue
        out.append(op)
        if rng.random() < 0.15:
            nodes = history.all_paths(schema)
            if nodes:
                p, _nd = rng.choice(nodes)
                out.append({"op": "reset", "path": p, "route": rng.choice(["parent", "dotted"])})
    # a computed field whose setter forwards a pair of values to two real fields of its configuration
    for holder_path, holder in [("", schema)] + [(p, nd) for p, nd in history.all_paths(schema) if nd["kind"] == "schema" and "[]" not in p]:
        leaves = [ch for ch in holder["fields"] if ch["kind"] == "field" and ch["family"] in ("int", "str", "port", "float", "bool", "host")
                  and not ch["params"].get("default_callable")]
        if len(leaves) >= 2 and rng.random() < 0.5 and all(ch["key"] != "vpair" for ch in holder["fields"]):
            a, b = rng.sample(leaves, 2)
            holder["fields"].append({"kind": "field", "key": "vpair", "family": "virtual", "params": {"returns": "v", "forward": [a["key"], b["key"]]}})
            vp = (holder_path + "." if holder_path else "") + "vpair"
            for _ in range(3):
                good1 = gen.one_value(rng, a, "valid", env)
                second = gen.one_value(rng, b, rng.choice(["invalid", "invalid", "valid"]), env)
                if good1 is not None:
                    out.insert(rng.randrange(len(out) + 1), {"op": "set_forward", "path": vp, "value": [good1, second]})
    # lists of configuration types: an item at its defaults, then the same position loaded from a document that spells
    # those very defaults out (equal content, other user-defined status), and the other way round
    for p, nd in history.all_paths(schema):
        if nd["kind"] == "field" and nd["family"] == "list" and "[]" not in p and nd.get("item") and nd["item"]["kind"] == "ctype":
            dflt = model.defaults_tree(nd["item"], env)
            if not isinstance(dflt, dict) or any(v is Unknown or isinstance(v, (dict, list, model.Hashed)) or v is None for v in dflt.values()):
                continue
            if model.accepts_tree(nd["item"], dflt, env)[0] is not True:
                continue
            parts = p.split(".")

            def nest(v, parts=parts):
                for seg in reversed(parts):
                    v = {seg: v}
                return v
            pair = [{"op": "set", "route": "attr", "path": p, "value": [{}, {}]}, {"op": "load_tree", "tree": nest([dict(dflt), {}]), "equal_items": True}]
            if rng.random() < 0.5:
                pair = [{"op": "load_tree", "tree": nest([dict(dflt), dict(dflt)])}, {"op": "set", "route": "attr", "path": p, "value": [{}, dict(dflt)], "equal_items": True}]
            at = rng.randrange(len(out) + 1)
            out[at:at] = pair
    # dynamic sections: a field the schema does not declare is added at run time, then the SECTION is reset
    for p, nd in history.all_paths(schema):
        if nd["kind"] == "schema" and nd.get("dynamic") and "[]" not in p and rng.random() < 0.8:
            at = rng.randrange(len(out) + 1)
            out[at:at] = [{"op": "set", "route": "attr", "path": p + "." + rng.choice(["extra1", "zz9"]), "value": rng.choice([1, "x", [1, 2]]),
                           "dynamic": True},
                          {"op": "reset", "path": p, "route": rng.choice(["parent", "dotted"]), "after_dynamic": True}]
    # documents that include files, in scopes of every nesting shape
    if inc_holders:
        for op in _include_ops(rng, schema, env, inc_holders):
            out.insert(rng.randrange(len(out) + 1), op)
    # kept section objects assigned back after the section was replaced
    if rng.random() < 0.5:
        for op in _section_back_ops(rng, schema, env):
            out.insert(rng.randrange(len(out) + 1), op)
    return {"schema": schema, "ops": out, "raw_defaults": raw}


def abbreviate(case):
    return {"schema": case["schema"], "ops": case["ops"][:6], "ops_total": len(case["ops"])}


def flag_diff(expected, observed, loose=None):
    out = []
    for path in sorted(set(expected) | set(observed)):
        if loose and path != loose and history.under(path, loose):
            continue
        a, b = expected.get(path, "<absent>"), observed.get(path, "<absent>")
        if a is Unknown:
            continue
        if a != b:
            out.append("%s: expected user-defined=%r, observed %r" % (path, a, b))
    return out


def dotted_flags_problem(cc, cfg, flags, res):
    """The user-defined status asked by dotted path from the root and from every ancestor must be the one the owning
    (sub)configuration reports."""
    from .. import spec as _spec

    for path, flag in flags.items():
        if "[" in path or "." not in path or not isinstance(flag, bool):
            continue
        segs = path.split(".")
        for up in range(len(segs) - 1):
            holder_path, rel = ".".join(segs[:up]), ".".join(segs[up:])
            if "." not in rel:
                continue
            try:
                holder = _spec.get_path(cfg, holder_path) if holder_path else cfg
            except Exception:
                break
            res.count("dotted_status_queries")
            try:
                got = cc.is_value_defined(holder, rel)
            except Exception as exc:
                return "is_value_defined(%s, %r) raised %r" % (holder_path or "<root>", rel, exc)
            if got != flag:
                return "is_value_defined(%s, %r) is %r, the owning configuration reports %r" % (holder_path or "<root>", rel, got, flag)
    return None


def _op_loads_include(drv, op, res):
    """cfg.loads of a document that names include files; predicted as the load of the one tree in which every included
    file's (disjoint) entries stand in the scope that names the file."""
    import copy
    import os

    from ..trees import in_domain

    cc = drv.cc
    op = spec.resolve(op, drv.mapping)
    fmt, tree = op["fmt"], op["tree"]
    merged = copy.deepcopy(tree)
    if not history._plain_tree(tree) or not in_domain(fmt, tree):
        return None
    try:
        codec = cc.ConfigFormat.get(fmt)
        for inc in op["includes"]:
            if not history._plain_tree(inc["tree"]) or not in_domain(fmt, inc["tree"]):
                return None
            scope = merged
            for seg in (inc["holder"].split(".") if inc["holder"] else []):
                scope = scope[seg]
            if set(scope) & set(inc["tree"]):
                return None
            scope.update(copy.deepcopy(inc["tree"]))
            path = os.path.join(drv.ctx.dir, inc["file"])
            with open(path, "wb") as fp:
                fp.write(codec.dumps(drv.cfg, inc["tree"]))
            drv.env["paths"][path] = "file"
        doc = codec.dumps(drv.cfg, tree)
    except Exception:
        return None
    before = drv.snapshot()
    label, pred = drv._predict_load(merged, before)
    if pred is None:
        pred = history.Prediction(None, None)
        pred.unpredicted = True
    if fmt in ("json", "yaml", "xml") and len(doc) % 3 == 0:
        try:
            doc = doc.decode()
        except UnicodeDecodeError:
            pass
    exc = drv._run(lambda: drv.cfg.loads(doc, fmt))
    return {"kind": "loads", "path": "", "raised": exc, "label": label, "pred": pred, "before": before, "listed": False, "fmt": fmt,
            "node": {"kind": "document-with-includes"}, "tag": "documents_with_includes_judged"}


def _op_section_back(drv, op, res):
    """old = cfg.sub; the section is replaced; cfg.sub = old: the assigned object is the section's value again - its
    values, and the status of each of its fields - and the section reads user-defined."""
    import copy

    from ..common import defined_map, plain as _plain

    cc, cfg = drv.cc, drv.cfg
    op = spec.resolve(op, drv.mapping)
    path = drv.concrete(op["path"])
    if path is None:
        return None
    nd = drv.node(path)
    parent_path, key = spec.split_parent(path)
    try:
        parent = spec.get_path(cfg, parent_path) if parent_path else cfg
        saved = spec.get_path(cfg, path)
    except Exception:
        return None
    if nd is None or not isinstance(parent, cc.Config) or not isinstance(saved, cc.Config):
        return None
    if op.get("touch"):
        try:
            saved[op["touch"][0]] = spec.realize(cc, op["touch"][1])
        except Exception:
            pass
    how = op["how"]
    try:
        if how == "dict":
            parent[key] = spec.realize(cc, copy.deepcopy(op["tree"]))
        elif how == "reset":
            cc.reset_value(parent, key)
        elif how == "load_tree":
            tree = spec.realize(cc, copy.deepcopy(op["tree"]))
            for seg in reversed(path.split(".")):
                tree = {seg: tree}
            cfg.load_tree(tree)
    except Exception:
        pass
    try:
        # (a tree load builds the enclosing sections anew as well: the holder is looked up again)
        parent = spec.get_path(cfg, parent_path) if parent_path else cfg
        replaced = spec.get_path(cfg, path) is not saved
    except Exception:
        return None
    if not isinstance(parent, cc.Config):
        return None
    before = drv.snapshot()
    want_values, want_flags = _plain(saved), defined_map(saved, path)
    if op["route"] == "attr" or "[" in path:
        exc = drv._run(lambda: setattr(parent, key, saved))
    else:
        exc = drv._run(lambda: cfg.__setitem__(path, saved))
    pred = history.Prediction(history.clone(before.values), dict(before.flags))
    history.pset(pred.values, path, want_values)
    history.drop_flags(pred.flags, path)
    pred.flags.update(want_flags)
    pred.flags[path] = True
    return {"kind": "set-sub", "path": path, "raised": exc, "label": True, "pred": pred, "before": before, "listed": True,
            "node": {"kind": "kept-section-%s" % (("after-" + how) if replaced else "still-in-place")},
            "tag": "kept_sections_assigned_back_judged" + (":after-replacement" if replaced else "")}


LOCAL_OPS = {"loads_include": _op_loads_include, "section_back": _op_section_back}


def run(case, ctx, res):
    env = env_of(ctx)
    drv = history.Driver(ctx, res, case["schema"], env)
    cc = ctx.cc
    # (1) fresh configurations
    first = drv.cfg
    second = cc.Config(drv.built.schema, key_filename=drv.keyfile)
    expect = model.defaults_tree(drv.root, env)
    for which, cfg in (("first", first), ("second", second)):
        snap = drv.snapshot(cfg)
        res.count("fresh_default_checks")
        d = model.match(expect, snap.values)
        if d:
            res.viol("M-fresh", "default-value", "%s fresh configuration does not expose the declared defaults: %s" % (which, d))
            return
        bad = [p for p, f in snap.flags.items() if f is not False]
        if bad:
            res.viol("M-fresh", "default-flag", "%s fresh configuration reports %r as user-defined" % (which, bad[:5]))
            return
        d = dotted_flags_problem(cc, cfg, snap.flags, res)
        if d:
            res.viol("M-fresh", "dotted-status", "%s fresh configuration: %s" % (which, d))
            return
    for path, nd in history.all_paths(case["schema"]):
        if nd["kind"] == "field" and nd.get("params", {}).get("default_callable") in ("partial", "object"):
            res.count("callable_object_defaults")
    for path, n in drv.built.calls.items():
        res.count("callable_default_checks")
        if n < 2:
            res.viol("M-fresh", "callable-default", "callable default of %s evaluated %d time(s) for two configurations" % (path, n))
            return
    if case.get("raw_defaults"):
        res.count("schemas_with_unnormalised_defaults")
    if case["schema"].get("method_like_names"):
        res.count("schemas_with_keys_named_like_config_methods")
    # (2) the history
    acc = rej = resets = 0
    for idx, op in enumerate(case["ops"]):
        out = LOCAL_OPS[op["op"]](drv, op, res) if op["op"] in LOCAL_OPS else drv.step(op)
        if out is None:
            res.count("ops_skipped")
            continue
        after = drv.snapshot()
        kind = out["kind"].split(":")[0]
        pred = out["pred"]
        if kind == "set-forward":
            if (out["raised"] is None) != out["label"]:
                res.count("forwarding_setter_outcome_not_as_modelled")
                continue
            res.count("forwarding_setter_assignments_judged" + (":partly-rejected" if out.get("partial") else ""))
            d = model.match(pred.values, after.values)
            fd = flag_diff(pred.flags, after.flags)
            if d or fd:
                res.viol("M-state", "forwarding-setter:" + ("partial" if out.get("partial") else "full"), "step %d: a computed field forwards %r "
                         "to two fields (%s): %s" % (idx, op["value"], "the second was rejected" if out.get("partial") else "both accepted",
                                                     d or "; ".join(fd[:4])))
                return
            continue
        if out["raised"] is not None and kind == "reset":
            res.viol("M-state", "reset-raises", "step %d: reset_value of the declared field %r (route %s) raised %r" % (
                idx, out["path"], op.get("route"), out["raised"]))
            return
        if idx % 5 == 4 or idx == len(case["ops"]) - 1:
            d = dotted_flags_problem(cc, drv.cfg, after.flags, res)
            if d:
                res.viol("M-state", "dotted-status", "step %d: after %s at %r: %s" % (idx, out["kind"], out["path"], d))
                return
        if out["raised"] is not None:
            if kind in ("set", "set-sub", "set-dynamic", "ctor") or (out.get("listed") and kind in ("listop", "dictop")):
                rej += 1
                res.count("rejected_ops_judged")
                res.count("flag_maps_compared")
                d = flag_diff(out["before"].flags, after.flags)
                if d:
                    res.viol("M-state", "rejected:%s" % out["kind"], "step %d: rejected %s at %r changed user-defined status: %s" % (
                        idx, out["kind"], out["path"], "; ".join(d[:4])))
                    return
            continue
        if pred.unpredicted or pred.values is None or out["label"] is not True:
            res.count("ops_not_predicted")
            continue
        feat = "%s:%s" % (out["kind"], (out.get("node") or {}).get("family", (out.get("node") or {}).get("kind", "")))
        d = model.match(pred.values, after.values)
        if d:
            res.viol("M-state", "value:" + feat, "step %d: after %s at %r: %s" % (idx, out["kind"], out["path"], d))
            return
        res.count("flag_maps_compared")
        fd = flag_diff(pred.flags, after.flags, getattr(pred, "loose_flags_under", None))
        if fd:
            res.viol("M-state", "flag:" + feat, "step %d: after %s at %r: %s" % (idx, out["kind"], out["path"], "; ".join(fd[:4])))
            return
        if op.get("equal_items"):
            res.count("equal_items_with_other_status_judged")
        if out.get("tag"):
            res.count(out["tag"])
        if kind in ("set", "set-sub", "ctor"):
            acc += 1
            res.count("accepted_assignments_judged")
        elif kind == "reset":
            resets += 1
            res.count("resets_judged")
            if op.get("after_dynamic"):
                res.count("dynamic_sections_reset_after_runtime_fields")
        elif kind in ("load_tree", "loads"):
            res.count("loads_judged")
        else:
            res.count("inplace_ops_judged")
    # ---- items of a configuration list that travel, as objects, to the same list of a second configuration keep their
    # values and their status: what nobody assigned is still not user-defined after the move
    from ..common import defined_map, eqstar, plain as _plain

    twin = None
    for p, nd in spec.walk(drv.root):
        if nd["kind"] != "field" or nd["family"] != "list" or "[]" in p or not nd.get("item") or nd["item"]["kind"] == "field":
            continue
        try:
            lst = spec.get_path(drv.cfg, p)
        except Exception:
            continue
        if not isinstance(lst, list) or not len(lst) or not all(isinstance(it, cc.Config) for it in lst):
            continue
        want = [(defined_map(it), _plain(it)) for it in lst]
        items = list(lst)
        try:
            if twin is None:
                twin = cc.Config(drv.built.schema, key_filename=drv.keyfile)
            route = ("assign", "append", "extend")[len(p) % 3]
            if route == "assign":
                twin[p] = lst
            else:
                if spec.get_path(twin, p) is None:
                    twin[p] = []
                tl = spec.get_path(twin, p)
                del tl[:]
                if route == "append":
                    for it in items:
                        tl.append(it)
                else:
                    tl.extend(items)
            arrived = list(spec.get_path(twin, p))
        except Exception:
            res.count("item_moves_not_applicable")
            continue
        res.count("items_moved_to_a_second_configuration")
        if len(arrived) != len(want):
            res.viol("M-state", "moved-items:count", "%s: %d item(s) handed to a second configuration (%s), it holds %d" % (p, len(want), route, len(arrived)))
            return
        for i, (it, (flags, values)) in enumerate(zip(arrived, want)):
            got_flags, got_values = defined_map(it), _plain(it)
            if not eqstar(got_values, values):
                res.viol("M-state", "moved-items:value", "%s[%d] handed to a second configuration (%s): values %r -> %r" % (p, i, route, values, got_values))
                return
            if got_flags != flags:
                diff = sorted(k for k in set(flags) | set(got_flags) if flags.get(k) != got_flags.get(k))
                res.viol("M-state", "moved-items:flag", "%s[%d] handed to a second configuration (%s): user-defined status of %s changed "
                         "(%r -> %r)" % (p, i, route, diff[:4], [flags.get(k) for k in diff[:4]], [got_flags.get(k) for k in diff[:4]]))
                return
    if acc and rej and resets:
        res.nontrivial(case["schema"], case["ops"])
