"""C06 - a rejected operation leaves the configuration exactly as it was."""
import os
import random
import zlib

from .. import gen, history, model, spec
from ..common import weighted
from ..monitors import Failpoints, InjectedFault
from .c05 import env_of

PLAN = {
    "quick": {"shards": 8, "cases": 600, "min_nontrivial": 2500, "budget_s": 300},
    "thorough": {"shards": 16, "cases": 8000, "min_nontrivial": 44800, "budget_s": 1500},
}
RULE = ("C01's schemas and reachable states (a valid prefix history), then failing operations of the listed kinds: "
        "attribute / dotted-path / constructor-keyword assignment of rejected values, a map (invalid at depth 1-3) or "
        "a non-map assigned to a sub-configuration, append / insert / l[i]= and d[k]= / setdefault with invalid items, "
        "documents that cannot be parsed (truncated at k/8, wrong XML root, invalid UTF-8, empty, garbage) and "
        "documents whose include file is missing / a directory / under a missing start directory, in every format; "
        "plus line-level failpoints: an exception injected at line events inside cincoconfig/formats/*.py and "
        "fields/include_field.py during loads/load; whenever such an operation raises, M-same compares values at all "
        "depths, user-defined flags and identities of nested configurations before/after; non-trivial = >= 2 "
        "raising listed operations judged; distinct = distinct (schema, history)")
REQUIRED = ("own_sections_and_items_offered_to_a_list_rejected", "own_maps_offered_to_sections_and_lists_rejected",
            "roots_that_are_sequences_of_pairs_rejected", "section_objects_refused_by_a_list", "failed_loads_with_late_or_chained_includes", "failed_loads_after_the_environment_changed", "foreign_items_rejected_by_a_second_configuration", "readonly_assignments_rejected", "rejected_replacements_through_an_equal_key_of_another_type", "dotted_continuations_into_nested_dicts_rejected", "derived_containers_rejected_by_field_validator", "list_reuse_rejections", "wrong_root_documents_rejected", "incomplete_objects_rejected", "incomplete_maps_rejected", "dotted_into_dict_rejections", "corrupt_include_files", "same_checks", "raised:set", "raised:set-sub", "raised:ctor", "raised:listop", "raised:dictop",
            "raised:loads-unparsable", "raised:loads-include", "failpoint_injections_raised")
ASSUMPTIONS = ["only the kinds of operation listed in the property are judged (a tree that parses but fails validation "
               "half way, extend / slice / update with a bad element are outside the statement)",
               "mutation of the rejected argument itself is not a change of the configuration"]
SHRINK_KEY = "ops"
LEVEL = "exploration"


def generate(rng, ctx):
    thorough = ctx.tier == "thorough"
    schema = gen.gen_schema(rng, depth=rng.choice([1, 2, 3] if thorough else [1, 2]), width=rng.choice([3, 4, 5]))
    env = gen.GEN_ENV
    if rng.random() < 0.35:
        # computed fields without a setter and instance methods: names of the configuration that cannot be assigned
        from .c20 import gen_method

        holders = [schema] + [nd for p0, nd in history.all_paths(schema) if nd["kind"] == "schema" and "[]" not in p0]
        for _ in range(rng.choice([1, 2])):
            h = rng.choice(holders)
            k = gen.pick_keys(rng, 1, avoid={ch["key"] for ch in h["fields"]})[0]
            h["fields"].append({"kind": "field", "key": k, "family": "virtual", "params": {"returns": "v"}} if rng.random() < 0.6
                               else gen_method(rng, k))
    # some typed lists / dicts carry a field-level validator callback that limits their size
    for path, nd in history.all_paths(schema):
        if "[]" not in path and nd["kind"] == "field" and nd["family"] in ("list", "dict") and history._typed(nd) and rng.random() < 0.5:
            if nd["family"] == "list" and nd["item"]["kind"] != "field":
                continue
            nd["params"]["validator"] = "maxlen2"
            d = nd["params"].get("default")
            if isinstance(d, (list, dict)) and len(d) > 2:
                nd["params"].pop("default")
    # feature flags in some sections (a document may switch a section off or on)
    for p0, nd in history.all_paths(schema):
        if nd["kind"] == "schema" and "[]" not in p0 and rng.random() < 0.5 and all(ch["key"] != "enabled0" for ch in nd["fields"]):
            nd["fields"].insert(rng.randrange(len(nd["fields"]) + 1), {"kind": "field", "key": "enabled0", "family": "flag",
                                                                         "params": {"default": rng.random() < 0.5}})
    # a typed dict of typed dicts (dotted paths may continue into it, or be taken for a key)
    if rng.random() < 0.5:
        inner = {"kind": "field", "family": "dict", "params": {}, "keyf": {"kind": "field", "family": "str", "params": {}},
                 "valf": {"kind": "field", "family": "int", "params": {"max": 100}}}
        holder = schema
        if subs0 := [ch for ch in schema["fields"] if ch["kind"] == "schema"]:
            if rng.random() < 0.5:
                holder = rng.choice(subs0)
        if not any(ch["key"] == "dd0" for ch in holder["fields"]):
            holder["fields"].append({"kind": "field", "key": "dd0", "family": "dict", "params": {},
                                     "keyf": {"kind": "field", "family": "str", "params": {}}, "valf": inner})
    # include fields at the root and/or in one nested schema
    inc = []
    if rng.random() < 0.6:
        schema["fields"].append({"kind": "field", "key": "inc0", "family": "include",
                                 "params": ({"startdir": rng.choice(["$DIR", "$DIR/nodir"])} if rng.random() < 0.6 else {})})
        inc.append("inc0")
    subs = [ch for ch in schema["fields"] if ch["kind"] == "schema"]
    if subs and rng.random() < 0.5:
        sub = rng.choice(subs)
        sub["fields"].append({"kind": "field", "key": "inc1", "family": "include", "params": {"startdir": "$DIR"}})
        inc.append(sub["key"] + ".inc1")
    nprefix = rng.randrange(0, 12)
    prefix = history.gen_ops(rng, schema, env, nprefix, bad=0.1)
    nfail = rng.randrange(3, 25 if thorough else 14)
    fail = history.gen_ops(rng, schema, env, nfail, bad=0.85)
    ops = []
    for op in fail:
        ops.append(op)
        if rng.random() < 0.25 and prefix:
            ops.append(rng.choice(prefix))
    ops += targeted_ops(rng, schema, env)
    for path in inc:
        for _ in range(rng.choice([1, 2])):
            tree = gen.tree_for(rng, schema, env, valid=True, partial=0.6)
            target = weighted(rng, [(3, "missing.cfg"), (2, "$DIR"), (1, "$DIR/nodir/x.cfg"), (1, "sub/missing.cfg"), (1, 5),
                                    (1, ""), (3, "$DIR/inc_corrupt.cfg"), (2, "$DIR/inc_good.cfg")])
            holder = tree
            parts = path.split(".")
            for ppart in parts[:-1]:
                holder = holder.setdefault(ppart, {})
                if not isinstance(holder, dict):
                    break
            else:
                holder[parts[-1]] = target
                op = {"op": "loads", "tree": tree, "fmt": rng.choice(history.FORMATS), "include_fail": target not in ("", 5)}
                if target == "$DIR/inc_corrupt.cfg":
                    op["make_files"] = {"inc_corrupt.cfg": "corrupt"}
                if target == "$DIR/inc_good.cfg":
                    # this include resolves; the load is made to fail by another include of the same document (a chain)
                    op["make_files"] = {"inc_good.cfg": {}}
                    others = [q for q in inc if q != path]
                    if not others:
                        continue
                    h2 = tree
                    parts2 = others[0].split(".")
                    for pp in parts2[:-1]:
                        h2 = h2.setdefault(pp, {})
                        if not isinstance(h2, dict):
                            break
                    else:
                        h2[parts2[-1]] = "missing-second.cfg"
                    if not isinstance(h2, dict):
                        continue
                ops.insert(rng.randrange(len(ops) + 1), op)
    for path in inc:
        if "." in path or rng.random() < 0.4:
            continue
        # a document whose include file resolves and supplies values, then - right after it - a document that sets nothing
        # itself and names an include file that is not there: the failed load leaves what the first one brought
        fmt = rng.choice(history.FORMATS)
        vals = gen.tree_for(rng, schema, env, valid=True, partial=0.5)
        vals.pop(path, None)
        at = rng.randrange(len(ops) + 1)
        ops[at:at] = [{"op": "loads", "tree": {path: "$DIR/inc_vals.cfg"}, "fmt": fmt, "make_files": {"inc_vals.cfg": vals},
                       "unpredicted": True, "include_supplies_values": True},
                      {"op": "loads", "tree": {path: "$DIR/not-there.cfg"}, "fmt": fmt, "include_fail": True, "unpredicted": True}]
    for _ in range(rng.choice([1, 2, 3])):
        tree = gen.tree_for(rng, schema, env, valid=True, partial=0.5)
        ops.insert(rng.randrange(len(ops) + 1), {"op": "loads", "tree": tree, "fmt": rng.choice(history.FORMATS),
                                                 "corrupt": rng.choice(["truncate:%d" % rng.randrange(1, 8), "wrongroot", "badutf8",
                                                                        "empty", "garbage", "seqroot", "seqroot", "multidoc",
                                                                        "scalarroot", "pairsroot", "pairsroot"])})
    if rng.random() < (0.6 if thorough else 0.25):
        tree = gen.tree_for(rng, schema, env, valid=True, partial=0.5)
        ops.append({"op": "loads", "tree": tree, "fmt": rng.choice(history.FORMATS), "failpoints": rng.getrandbits(30)})
    own = own_spec(random.Random(zlib.crc32(repr((len(prefix), ops)).encode("ascii", "backslashreplace"))))
    return {"schema": schema, "prefix": prefix, "ops": ops, "own": own}


_OWN_KEYS = ("log_level", "max_size", "base_port", "display_name", "is_on", "time_out", "rate_limit", "mode_x", "tag", "x_y_z")
_OWN_DECLS = {
    # defaults written the way people write them in a declaration or copy them from a document; the library stores a declared
    # default as it is, validation gives the field's own form (which nothing may write back while it rejects)
    "loglevel": ["INFO", "Debug", "WARNING", "Error", "info"],
    "int": ["8080", "7", " 12 ", 5],
    "port": ["80", "8443", 22],
    "float": ["1.5", "2", 3, 0.25],
    "bool": ["yes", "on", "true", "1", True],
    "lower": ["MiXed", "UPPER", "lower"],
    "upper": ["MiXed", "lower"],
    "strip": ["  padded ", "\ttab", "plain"],
    "str": ["plain", "text"],
}
_OWN_GOOD = {"loglevel": ["debug", "error"], "int": [1, 65], "port": [81, 8080], "float": [0.5, 2.0], "bool": [True, False],
             "lower": ["abc"], "upper": ["ABC"], "strip": ["abc"], "str": ["abc", "d e"], "required": ["given", "n2"]}
_OWN_BAD = {"loglevel": ["loud", 5], "int": ["many", [1]], "port": [70000, "p"], "float": ["x", [2.0]], "bool": ["perhaps", [True]],
            "lower": [5, ["a"]], "upper": [5, None], "strip": [7, {"a": 1}], "str": [5, ["a"]], "required": [None, 5]}


def _own_spelling(rng, key):
    how = rng.choice(["exact", "exact", "dash", "dash", "dash", "upper", "capital", "space", "dot", "camel"])
    if how == "dash":
        return key.replace("_", "-")
    if how == "upper":
        return key.upper()
    if how == "capital":
        return key.capitalize()
    if how == "space":
        return rng.choice([key + " ", " " + key, key.replace("_", " ")])
    if how == "dot":
        return key.replace("_", ".")
    if how == "camel":
        parts = key.split("_")
        return parts[0] + "".join(x.capitalize() for x in parts[1:])
    return key


def own_spec(rng):
    """Spec of the directed scenario `_own_objects_offered_again`: a configuration type (fields whose declared defaults are not
    in the field's own form, a required field without a default, a nested section), sections and a list of that type, holders
    of raw maps; then operations whose rejected argument is an object the configuration ITSELF holds."""
    keys = rng.sample(_OWN_KEYS, rng.choice([2, 3, 4, 5]))
    fields = [{"key": k, "decl": (d := rng.choice(sorted(_OWN_DECLS))), "default": rng.choice(_OWN_DECLS[d])} for k in keys]
    fields.insert(rng.choice([len(fields), len(fields), rng.randrange(len(fields) + 1)]), {"key": "name_of", "decl": "required"})
    inner = [{"key": k, "decl": (d := rng.choice(sorted(_OWN_DECLS))), "default": rng.choice(_OWN_DECLS[d])}
             for k in rng.sample(("retry_count", "back_off", "deep_x"), rng.choice([0, 1, 2]))]

    def a_map(want_bad):
        chosen = [f for f in fields if rng.random() < 0.7] or [fields[0]]
        rng.shuffle(chosen)
        pairs = []
        for f in chosen:
            pool = _OWN_BAD if want_bad and rng.random() < 0.5 else _OWN_GOOD
            pairs.append([_own_spelling(rng, f["key"]), rng.choice(pool[f["decl"]])])
        if inner and rng.random() < 0.5:
            f = rng.choice(inner)
            pool = _OWN_BAD if want_bad and rng.random() < 0.5 else _OWN_GOOD
            pairs.insert(rng.randrange(len(pairs) + 1),
                         [_own_spelling(rng, "opts_in"), [[_own_spelling(rng, f["key"]), rng.choice(pool[f["decl"]])]], "nested"])
        return pairs

    steps = []
    for _ in range(rng.choice([3, 4, 5])):
        steps.append({"what": rng.choice(["section", "section", "reset-section", "reset-item", "reset-item"]),
                      "route": rng.choice(["append", "insert", "setitem", "assign-attr", "assign-item"]),
                      "i": rng.choice([0, 1, -1, -2, 2, 7]), "keep": rng.random() < 0.5})
    for _ in range(rng.choice([3, 4, 5])):
        steps.append({"what": "map", "holder": rng.choice(["dict", "dict", "any", "list", "dynamic"]), "pairs": a_map(rng.random() < 0.7),
                      "route": rng.choice(["append", "insert", "setitem", "assign-attr", "assign-item", "section-attr", "section-attr",
                                           "section-item", "section-item"]),
                      "i": rng.choice([0, 1, -1, 2, 7])})
    rng.shuffle(steps)
    return {"fields": fields, "inner": inner, "nest": rng.random() < 0.4, "astype": rng.random() < 0.7, "prefill": rng.choice([0, 1, 2, 3]),
            "steps": steps}


def late_invalid(rng, node, env):
    """A complete tree for a schema node in which only a LATE entry is rejected (the entries before it are fine)."""
    tree = gen.tree_for(rng, node, env, valid=True, partial=0.0)
    kids = [ch for ch in model.stored_children(node) if ch["kind"] == "field" and ch["family"] not in ("include", "any", "secure")
            and ch["key"] in tree]
    if len(tree) < 2 or not kids:
        return None
    for ch in reversed(kids):
        bad = gen.one_value(rng, ch, "invalid", env)
        if model.accepts_disk(ch, bad, env)[0] is False and list(tree).index(ch["key"]) > 0:
            tree[ch["key"]] = bad
            return tree
    return None


def targeted_ops(rng, schema, env):
    """Populate lists of configurations and typed dicts, then reject late: the part applied before the rejected entry
    must not stay behind."""
    ops = []
    for path, nd in history.all_paths(schema):
        if "[]" in path:
            continue
        if nd["kind"] == "field" and nd.get("params", {}).get("validator") == "maxlen2":
            # the field's own validator callback rejects more than two entries: fill it with two, then assign containers
            # derived from the live one (the callback runs after the items were validated)
            two = None
            for _ in range(6):
                cand = gen.one_value(rng, nd, "valid", env)
                if isinstance(cand, (list, dict)) and len(cand) == 2:
                    two = cand
                    break
            if two is None and nd["family"] == "list":
                xs = [gen.one_value(rng, nd["item"], "valid", env) for _ in range(2)]
                two = xs if all(x is not None for x in xs) else None
            if two is not None:
                ops.append({"op": "set", "route": "attr", "path": path, "value": two})
                for how in rng.sample(["add", "copy", "plain", "add", "copy"], 3):
                    op = {"op": "set_grown_copy", "path": path, "how": how, "route": rng.choice(["attr", "item"])}
                    if nd["family"] == "list":
                        op["x"] = gen.one_value(rng, nd["item"], "valid", env)
                    else:
                        kf, vf = nd.get("keyf"), nd.get("valf")
                        op["kv"] = [gen.one_value(rng, kf, "valid", env) if kf else "zg%d" % rng.randrange(99),
                                    gen.one_value(rng, vf, "valid", env) if vf else 1]
                    ops.append(op)
        if nd["kind"] == "field" and nd["key"] == "dd0" and nd["family"] == "dict":
            # rejected entries addressed by a dotted continuation: no part of the way may stay behind
            if rng.random() < 0.5:
                ops.append({"op": "set", "route": "attr", "path": path, "value": {"web": {"burst": 1}}})
            for k in rng.sample(["web.burst", "us.east.rate", "db.pool", "web.rate"], 3):
                bad = rng.choice(["notint", 1000, None, [1], {"x": "y"}])
                ops.append({"op": "set_dict_dotted", "path": path, "kv": [k, bad], "deep": True})
                ops.append({"op": "dictop", "path": path, "name": "setitem", "kv": [k, bad], "pairs": [[k, bad]], "kind": "dict"})
        if nd["kind"] in ("schema", "ctype"):
            # a map whose every value is fine but which leaves a required field of the sub-configuration out (also one
            # level further down): rejected only by the whole-configuration validation at the very end
            req = [ch for ch in model.stored_children(nd) if ch["kind"] == "field" and ch.get("params", {}).get("required")
                   and ch["params"].get("default") is None and ch["family"] not in ("include",)]
            if req and rng.random() < 0.8:
                t = gen.tree_for(rng, nd, env, valid=True, partial=0.3)
                t.pop(rng.choice(req)["key"], None)
                ops.append({"op": "set", "route": rng.choice(["attr", "item"]), "path": path, "value": t, "incomplete_map": True})
            continue
        if nd["kind"] != "field":
            continue
        if nd["family"] == "list" and nd.get("item") and nd["item"]["kind"] != "field" and rng.random() < 0.8:
            for _ in range(2):
                ops.append({"op": "listop", "path": path, "name": "append", "i": 0, "n": 0, "xs": [], "iter": "list", "a": None, "b": None,
                            "x": gen.tree_for(rng, nd["item"], env, valid=True, partial=0.2)})
            for _ in range(3):
                t = late_invalid(rng, nd["item"], env)
                if t is not None:
                    ops.append({"op": "listop", "path": path, "name": rng.choice(["setitem", "setitem", "insert", "append"]),
                                "i": rng.choice([0, 1, -1, -2]), "n": 0, "xs": [], "iter": "list", "a": None, "b": None, "x": t,
                                "as_config": False})
            # whole-list assignments that re-use the live item objects of this list (or of another list with the same item
            # type) and end with a rejected element
            for _ in range(2):
                t = late_invalid(rng, nd["item"], env)
                if t is not None:
                    ops.append({"op": "list_reuse", "path": path, "bad": t, "route": rng.choice(["attr", "item"]), "src": None})
            # configuration *objects* whose values are all fine but which are incomplete (a required field left out),
            # inserted / assigned at negative and past-the-end positions of the populated list
            req = [ch for ch in model.stored_children(nd["item"]) if ch["kind"] == "field" and ch.get("params", {}).get("required")
                   and ch["params"].get("default") is None]
            for _ in range(3 if req else 0):
                t = gen.tree_for(rng, nd["item"], env, valid=True, partial=0.2)
                t.pop(rng.choice(req)["key"], None)
                ops.append({"op": "listop", "path": path, "name": rng.choice(["insert", "insert", "setitem", "append"]),
                            "i": rng.choice([-1, -2, -3, 1, 2, 5, 99]), "n": 0, "xs": [], "iter": "list", "a": None, "b": None, "x": t,
                            "as_config": True, "incomplete_object": True})
        if nd["family"] == "dict" and nd.get("keyf") is None and nd.get("valf") and nd["valf"]["family"] not in ("any", "secure", "list", "dict"):
            # keys of any type: an entry is addressed through an equal key of another type (1 / 1.0 / True) and the new
            # value is rejected
            vf = nd["valf"]
            g1, g2 = gen.one_value(rng, vf, "valid", env), gen.one_value(rng, vf, "valid", env)
            bad = gen.one_value(rng, vf, "invalid", env)
            if g1 is not None and g2 is not None and model.accepts(vf, bad, env)[0] is False:
                ops.append({"op": "set", "route": "attr", "path": path, "value": {1: g1, 0: g2, "x": g1}})
                for k in (True, 1.0, False, 0.0):
                    ops.append({"op": "dictop", "path": path, "name": "setitem", "kv": [k, bad], "pairs": [[k, bad]], "kind": "dict",
                                "equal_key_other_type": True})
        if nd["family"] == "dict" and nd.get("valf") and nd["valf"]["family"] not in ("any", "secure") and rng.random() < 0.8:
            kf, vf = nd.get("keyf"), nd["valf"]

            def kv(want):
                k = gen.one_value(rng, kf, "valid", env) if kf else "k%d" % rng.randrange(99)
                return [k, gen.one_value(rng, vf, want, env)]

            start = dict((str(k), v) if kf is None else (k, v) for k, v in (kv("valid") for _ in range(2)) if k is not None)
            if rng.random() < 0.5:
                # the field holds no map at all when an entry is addressed through a dotted path
                ops.append({"op": "set", "route": "attr", "path": path, "value": None, "emptied_before_dotted_entry": True})
            for _ in range(2):
                k, bad = kv("invalid")
                if isinstance(k, str) and k and "." not in k:
                    ops.append({"op": "set_dict_dotted", "path": path, "kv": [k, bad]})
            if start:
                ops.append({"op": "set", "route": "attr", "path": path, "value": start})
                good, bad = kv("valid"), kv("invalid")
                if good[0] is not None and bad[0] is not None and good[0] != bad[0]:
                    ops.append({"op": "dict_superset", "path": path, "add": [good, bad], "route": rng.choice(["attr", "item"])})
    return ops


def abbreviate(case):
    return {"schema": case["schema"], "prefix_ops": len(case["prefix"]), "ops": case["ops"][:6], "ops_total": len(case["ops"]),
            "own": case.get("own")}


def _in_anchor_files(rel):
    return rel.startswith("formats" + os.sep) or rel == os.path.join("fields", "include_field.py")


def run(case, ctx, res):
    env = env_of(ctx)
    mapping = {"$DIR": ctx.dir}
    drv = history.Driver(ctx, res, spec.resolve(case["schema"], mapping), env)
    for op in case["prefix"]:
        try:
            drv.step(spec.resolve(op, mapping))
        except Exception:
            res.count("prefix_op_errors")
    judged = 0
    for idx, op in enumerate(case["ops"]):
        op = spec.resolve(op, mapping)
        if op.get("failpoints") is not None:
            judged += _failpoint_runs(drv, ctx, res, op, idx)
            continue
        out = drv.step(op)
        if out is None:
            res.count("ops_skipped")
            continue
        if op.get("equal_key_other_type") and out["raised"] is not None:
            res.count("rejected_replacements_through_an_equal_key_of_another_type")
        if op.get("deep") and out["raised"] is not None:
            res.count("dotted_continuations_into_nested_dicts_rejected")
        if out.get("grown_copy") and out["raised"] is not None:
            res.count("derived_containers_rejected_by_field_validator")
        if out.get("reuse") and out["raised"] is not None:
            res.count("list_reuse_rejections")
        if op.get("corrupt") in ("seqroot", "multidoc", "scalarroot") and out["raised"] is not None:
            res.count("wrong_root_documents_rejected")
        if op.get("corrupt") == "pairsroot" and out["raised"] is not None:
            res.count("roots_that_are_sequences_of_pairs_rejected")
        if op.get("incomplete_object") and out["raised"] is not None:
            res.count("incomplete_objects_rejected")
        if op.get("incomplete_map") and out["raised"] is not None:
            res.count("incomplete_maps_rejected")
        if out["raised"] is None:
            res.count("ops_accepted")
            continue
        kind = out["kind"].split(":")[0]
        listed = out["listed"]
        if kind == "loads":
            if op.get("include_fail"):
                listed, kind = True, "loads-include"
            elif out.get("parse_fails"):
                kind = "loads-unparsable"
            else:
                listed = False
        if kind == "set-dynamic":
            kind = "set"
        if out.get("dotted_into_dict"):
            res.count("dotted_into_dict_rejections")
        if op.get("make_files") and "corrupt" in op["make_files"].values():
            res.count("corrupt_include_files")
        if not listed:
            res.count("raised_not_listed:" + kind)
            continue
        res.count("raised:" + kind)
        res.count("same_checks")
        judged += 1
        after = drv.snapshot()
        diff = out["before"].diff(after)
        if diff:
            fam = ""
            if out.get("node"):
                fam = out["node"].get("family", out["node"]["kind"])
            res.viol("M-same", "%s:%s" % (out["kind"], fam), "step %d: %s at %r raised %s: %s but the configuration changed: %s" % (
                idx, out["kind"], out["path"], type(out["raised"]).__name__, str(out["raised"])[:120], "; ".join(diff[:4])))
            return
    # a configuration object held by a list of THIS configuration is offered to the same list of a second configuration and
    # rejected there (it lacks a required value): it stays with the configuration that holds it - same parent, same
    # container - and this configuration is unchanged
    if _foreign_item_rejections(drv, ctx, res) is False:
        return
    if not _section_object_offered_to_a_list(ctx, res, len(case["ops"])):
        return
    if case.get("own") and not _own_objects_offered_again(ctx, res, case["own"]):
        return
    if len(case["ops"]) % 5 == 0 and not _failed_loads_after_environment_change(ctx, res, len(case["prefix"])):
        return
    if len(case["ops"]) % 5 == 1 and not _late_and_chained_includes(ctx, res, len(case["prefix"]) + len(case["ops"])):
        return
    # first assignments to names a dynamic configuration does not know yet: whatever is refused (a field object, a schema,
    # a class ...) leaves no trace of the name
    holders = [("", drv.cfg)] if drv.root.get("dynamic") else []
    for p, nd in spec.walk(drv.root):
        if nd["kind"] == "schema" and nd.get("dynamic") and "[]" not in p:
            try:
                h = spec.get_path(drv.cfg, p)
            except Exception:
                continue
            if isinstance(h, ctx.cc.Config):
                holders.append((p, h))
    for hp, holder in holders[:3]:
        for n, value in enumerate((ctx.cc.IntField(), ctx.cc.Schema(), ctx.cc.StringField(default="x"), ctx.cc.Config, object())):
            key = "zz_unknown_%d" % n
            before = drv.snapshot()
            had = key in holder
            route = ("attr", "dotted", "item")[n % 3]
            try:
                if route == "attr":
                    setattr(holder, key, value)
                elif route == "item":
                    holder[key] = value
                else:
                    drv.cfg[(hp + "." if hp else "") + key] = value
            except Exception:
                res.count("first_assignments_to_unknown_dynamic_names_rejected")
                d = before.diff(drv.snapshot())
                if d or ((key in holder) and not had):
                    res.viol("M-same", "set-dynamic-unknown", "the first assignment to the unknown name %s of a dynamic configuration (%s, a %s) "
                             "raised, but the configuration changed: %s" % ((hp + "." if hp else "") + key, route, type(value).__name__,
                                                                            "; ".join(d[:4]) or "the name is now a member"))
                    return
            else:
                res.count("first_assignments_to_unknown_dynamic_names_accepted")
    # assignments to names that cannot be assigned at all - computed fields without a setter, instance methods - are rejected
    # assignments by attribute / dotted path like any other, and leave the configuration as it was
    for p, nd in spec.walk(drv.root):
        if nd["kind"] != "field" or "[]" in p or nd["family"] not in ("virtual", "method"):
            continue
        if nd["family"] == "virtual" and (nd["params"].get("setter") or nd["params"].get("forward")):
            continue
        try:
            holder = spec.get_path(drv.cfg, p.rpartition(".")[0]) if "." in p else drv.cfg
        except Exception:
            continue
        if not isinstance(holder, ctx.cc.Config):
            continue
        key = p.rpartition(".")[2]
        for route in ("attr", "dotted"):
            before = drv.snapshot()
            try:
                if route == "attr":
                    setattr(holder, key, 5)
                else:
                    drv.cfg[p] = 5
            except Exception:
                res.count("readonly_assignments_rejected")
                d = before.diff(drv.snapshot())
                if d:
                    res.viol("M-same", "set-readonly:" + nd["family"], "assigning to the %s %s (%s) raised, but the configuration changed: %s" % (
                        "computed field" if nd["family"] == "virtual" else "instance method", p, route, "; ".join(d[:4])))
                    return
    if judged >= 2:
        res.nontrivial(case["schema"], case["prefix"], case["ops"])


def _own_field(cc, f):
    decl, kw = f["decl"], ({"default": f["default"]} if "default" in f else {})
    if decl == "required":
        return cc.StringField(required=True)
    if decl == "loglevel":
        return cc.LogLevelField(**kw)
    if decl == "int":
        return cc.IntField(**kw)
    if decl == "port":
        return cc.PortField(**kw)
    if decl == "float":
        return cc.FloatField(**kw)
    if decl == "bool":
        return cc.BoolField(**kw)
    if decl in ("lower", "upper"):
        return cc.StringField(transform_case=decl, **kw)
    if decl == "strip":
        return cc.StringField(transform_strip=True, **kw)
    return cc.StringField(**kw)


def _own_objects_offered_again(ctx, res, own):
    """The rejected argument is an object the configuration itself holds: (A) a section of a list's item type, or an item of
    the list whose required value was reset, offered to that list (append / insert / l[i]= / a whole-list assignment ending
    with it); (B) a raw map stored by an untyped dict / any / untyped list / dynamic field, offered to a section (attribute,
    dotted path) or to the list, with keys spelled almost like the fields' keys and / or a rejected entry.  Whatever raises
    leaves every value - the offered object's and the raw map's included - as it was."""
    from ..common import Snapshot

    cc = ctx.cc
    item = cc.Schema()
    for f in own["fields"]:
        item[f["key"]] = _own_field(cc, f)
    if own["inner"]:
        for f in own["inner"]:
            item["opts_in." + f["key"]] = _own_field(cc, f)
    t = cc.make_type(item, "OwnOfferedT", module="vf_types") if own["astype"] else item
    schema = cc.Schema(dynamic=True)
    schema.first = cc.StringField(default="f")
    home = schema.home if own["nest"] else schema
    home.tpl = t
    home.tpl2 = t
    home.many = cc.ListField(t, default=lambda: [])
    home.raw_dict = cc.DictField()
    home.raw_any = cc.AnyField()
    home.raw_list = cc.ListField()
    schema.last = cc.IntField(default=1)
    try:
        cfg = schema()
        holder = cfg.home if own["nest"] else cfg
        pre = "home." if own["nest"] else ""
        for n in range(own["prefill"]):
            holder.many.append({"name_of": "item%d" % n})
        holder.tpl2.name_of = "second"
    except Exception:
        res.count("own_objects_setup_failed")
        return True

    def offer(route, i, value, as_list):
        many = holder.many
        if route == "append":
            many.append(value)
        elif route == "insert":
            many.insert(i, value)
        elif route == "setitem":
            many[i] = value
        elif route == "assign-attr":
            holder.many = as_list
        elif route == "assign-item":
            cfg[pre + "many"] = as_list
        elif route == "section-attr":
            holder.tpl = value
        else:
            cfg[pre + "tpl"] = value

    for n, st in enumerate(own["steps"]):
        many = holder.many
        undo = None
        try:
            if st["what"] == "map":
                m = {pr[0]: (dict(pr[1]) if len(pr) == 3 else pr[1]) for pr in st["pairs"]}
                if st["holder"] == "dict":
                    holder.raw_dict = m
                    held = holder.raw_dict
                elif st["holder"] == "any":
                    holder.raw_any = m
                    held = holder.raw_any
                elif st["holder"] == "list":
                    holder.raw_list = ["x", m]
                    held = holder.raw_list[1]
                else:
                    cfg.extra_raw = m
                    held = cfg.extra_raw
                if held is not m:
                    res.count("own_maps_not_held_by_reference")
                obj, what = held, "the map held by the configuration's own %s field" % st["holder"]
                counter = "own_maps_offered_to_sections_and_lists_rejected"
            else:
                if st["what"] == "section":
                    obj, what = holder.tpl, "an incomplete section of the list's item type"
                elif st["what"] == "reset-section":
                    obj, what = holder.tpl2, "a section of the list's item type whose required value was reset"
                    cc.reset_value(obj, "name_of")
                    undo = obj
                else:
                    if not len(many):
                        many.append({"name_of": "late"})
                    obj, what = many[st["i"] % len(many)], "an item of the list whose required value was reset"
                    cc.reset_value(obj, "name_of")
                    undo = obj
                counter = "own_sections_and_items_offered_to_a_list_rejected"
            as_list = (list(many) if st.get("keep", True) else []) + [obj]
        except Exception:
            res.count("own_objects_step_setup_failed")
            continue
        before = Snapshot(cfg)
        try:
            offer(st["route"], st["i"], obj, as_list)
        except Exception as exc:
            res.count(counter)
            res.count("same_checks")
            d = before.diff(Snapshot(cfg))
            if d:
                res.viol("M-same", "own-object:%s:%s" % (st["what"] if st["what"] != "map" else "map-in-" + st["holder"], st["route"]),
                         "own-object step %d: %s was offered (%s, position %r) and refused with %s: %s but the configuration changed: %s" % (
                             n, what, st["route"], st["i"], type(exc).__name__, str(exc)[:100], "; ".join(d[:4])))
                return False
        else:
            res.count("own_objects_offered_and_accepted")
        if undo is not None:
            try:
                undo.name_of = "again%d" % n
            except Exception:
                pass
    return True


def _failed_loads_after_environment_change(ctx, res, seed):
    """Fields bound to environment variables; the variables change after the configuration was built; documents that cannot be
    parsed / whose include cannot be resolved are loaded: the configuration stays as it was built."""
    import os

    from ..common import Snapshot

    cc = ctx.cc
    names = ("VFC06E_PORT", "VFC06E_NAME", "VFC06E_DB_TIMEOUT")
    if any(n in os.environ for n in names):
        return True
    schema = cc.Schema()
    schema.port = cc.IntField(default=1, env="VFC06E_PORT")
    schema.host = cc.StringField(default="example.com")
    schema.inc = cc.IncludeField()
    db = cc.Schema(env="VFC06E_DB")
    schema.db = db
    schema.db.name = cc.StringField(default="d", env="VFC06E_NAME")
    schema.db.timeout = cc.IntField(default=30, env=True)
    os.environ.update({"VFC06E_PORT": "8080", "VFC06E_NAME": "first", "VFC06E_DB_TIMEOUT": "30"})
    cfg = schema()
    if seed % 3 == 0:
        cfg.host = "assigned.example.com"
    # the environment changes after the configuration has been built
    os.environ.update({"VFC06E_PORT": "9090", "VFC06E_DB_TIMEOUT": "5"})
    if seed % 2:
        os.environ["VFC06E_NAME"] = "second"
    else:
        del os.environ["VFC06E_NAME"]
    for fmt in ("json", "yaml", "xml", "pickle", "bson"):
        codec = cc.ConfigFormat.get(fmt)
        good = codec.dumps(cfg, {"host": "h2", "db": {"name": "x"}})
        docs = []
        for how in ("truncate:4", "garbage", "empty"):
            bad, fails = history.corrupt_doc(good, fmt, how)
            if bad is not None and fails:
                docs.append((how, bad))
        docs.append(("missing-include", codec.dumps(cfg, {"host": "h3", "inc": os.path.join(ctx.dir, "no-such-include-file")})))
        for how, bad in docs:
            before = Snapshot(cfg)
            try:
                cfg.loads(bad, fmt)
            except Exception:
                res.count("failed_loads_after_the_environment_changed")
                d = before.diff(Snapshot(cfg))
                if d:
                    res.viol("M-same", "loads-after-environment-change:" + how, "%s: the variables of bound fields changed after the "
                             "configuration was built; a document that cannot be loaded (%s) raised, but the configuration changed: %s" % (
                                 fmt, how, "; ".join(d[:4])))
                    return False
    return True


def _late_and_chained_includes(ctx, res, seed):
    """(A) an include field is added to a nested section after the configuration has loaded documents; (B) a section that has
    its own include field is declared before the include field of the enclosing level, and the file included there gives the
    section's include key the name of a missing file.  Either way the missing file is noticed before anything is applied."""
    import os

    from ..common import Snapshot

    cc, d = ctx.cc, ctx.dir
    fmt = ("json", "yaml", "xml", "pickle", "bson")[seed % 5]
    codec = cc.ConfigFormat.get(fmt)
    missing = os.path.join(d, "no-such-include-file")
    # (A)
    schema = cc.Schema()
    schema.name = cc.StringField(default="n")
    schema.port = cc.IntField(default=80)
    schema.db.host = cc.StringField(default="h")
    cfg = schema()
    try:
        cfg.loads(codec.dumps(cfg, {"port": 81}), fmt)
        schema.db.include = cc.IncludeField()
        doc = codec.dumps(cfg, {"name": "changed", "port": 9000, "db": {"host": "h2", "include": missing}})
    except Exception:
        doc = None
    if doc is not None:
        before = Snapshot(cfg)
        try:
            cfg.loads(doc, fmt)
        except Exception:
            res.count("failed_loads_with_late_or_chained_includes")
            diff = before.diff(Snapshot(cfg))
            if diff:
                res.viol("M-same", "loads-include:field-added-after-earlier-loads", "%s: an include field was added to a nested section after "
                         "the configuration had loaded a document; a document naming a missing file there raised, but the configuration "
                         "changed: %s" % (fmt, "; ".join(diff[:4])))
                return False
    # (B)
    s2 = cc.Schema()
    s2.sub.v = cc.IntField(default=1)
    s2.sub.include = cc.IncludeField()
    s2.port = cc.IntField(default=80)
    s2.inc = cc.IncludeField()
    c2 = s2()
    part = os.path.join(d, "chained-part.cfg")
    try:
        with open(part, "wb") as fp:
            fp.write(codec.dumps(c2, {"sub": {"include": missing, "v": 5}}))
        doc = codec.dumps(c2, {"port": 9000, "inc": part})
    except Exception:
        return True
    before = Snapshot(c2)
    try:
        c2.loads(doc, fmt)
    except Exception:
        res.count("failed_loads_with_late_or_chained_includes")
        diff = before.diff(Snapshot(c2))
        if diff:
            res.viol("M-same", "loads-include:section-include-named-by-the-enclosing-include", "%s: the file included at the root gives the "
                     "include key of a section (declared before the root's include field) the name of a missing file; the load raised, but "
                     "the configuration changed: %s" % (fmt, "; ".join(diff[:4])))
            return False
    return True


def _section_object_offered_to_a_list(ctx, res, seed):
    """A configuration-type SECTION of one tree (or a free-standing object of the type), incomplete, is offered to a list of the
    same type in a second tree and refused: it stays where it was - same parent, no container."""
    from ..common import Snapshot

    cc = ctx.cc
    item = cc.Schema()
    item.n = cc.IntField(required=True)
    item.s = cc.StringField(default="s")
    t = cc.make_type(item, "OfferedT", module="vf_types")
    schema = cc.Schema()
    schema.one = t
    schema.many = cc.ListField(t, default=lambda: [])
    a, b = schema(), schema()
    obj = a.one if seed % 2 else t()
    owner = (obj._parent, obj._container)
    before_a, before_b = Snapshot(a), Snapshot(b)
    for route in ("append", "insert", "extend", "slice"):
        try:
            if route == "append":
                b.many.append(obj)
            elif route == "insert":
                b.many.insert(0, obj)
            elif route == "extend":
                b.many.extend([obj])
            else:
                b.many[0:0] = [obj]
        except Exception:
            res.count("section_objects_refused_by_a_list")
            if obj._parent is not owner[0] or obj._container is not owner[1]:
                res.viol("M-same", "foreign-item-ownership:section-object:" + route, "an incomplete %s of the list's item type was offered to "
                         "a list of a second configuration (%s) and refused, but now it names %s as its parent" % (
                             "section of another configuration" if seed % 2 else "free-standing object", route,
                             "the second configuration" if obj._parent is b else "another object"))
                return False
            d = before_a.diff(Snapshot(a)) + before_b.diff(Snapshot(b))
            if d:
                res.viol("M-same", "foreign-item:section-object:" + route, "a refused %s changed a configuration: %s" % (route, "; ".join(d[:3])))
                return False
    return True


def _foreign_item_rejections(drv, ctx, res):
    cc = ctx.cc
    twin = None
    for p, nd in spec.walk(drv.root):
        if nd["kind"] != "field" or nd["family"] != "list" or "[]" in p or not nd.get("item") or nd["item"]["kind"] == "field":
            continue
        req = [ch["key"] for ch in model.stored_children(nd["item"]) if ch["kind"] == "field" and ch.get("params", {}).get("required")
               and ch["params"].get("default") is None and ch["family"] not in ("flag", "include", "virtual", "method")]
        try:
            lst = spec.get_path(drv.cfg, p)
        except Exception:
            continue
        if not req or not isinstance(lst, list) or not len(lst) or not isinstance(lst[0], cc.Config):
            continue
        it = lst[len(lst) // 2]
        try:
            if twin is None:
                twin = cc.Config(drv.built.schema, key_filename=drv.keyfile)
            target = spec.get_path(twin, p)
            if target is None:
                twin[p] = []
                target = spec.get_path(twin, p)
            if target is None:
                continue
            saved = it[req[0]]
            cc.reset_value(it, req[0])
        except Exception:
            continue
        if it[req[0]] is not None:
            continue
        before = drv.snapshot()
        owner = (it._parent, it._container)
        for route in ("append", "insert", "slice", "extend"):
            try:
                if route == "append":
                    target.append(it)
                elif route == "insert":
                    target.insert(0, it)
                elif route == "slice":
                    target[0:0] = [it]
                else:
                    target.extend([it])
            except Exception:
                res.count("foreign_items_rejected_by_a_second_configuration")
                if it._parent is not owner[0] or it._container is not owner[1]:
                    res.viol("M-same", "foreign-item-ownership:" + route, "the item %s[%d] of this configuration was offered to the same "
                             "list of a second configuration (%s) and rejected, but now it names %s as its parent and %s as its "
                             "container" % (p, len(lst) // 2, route, "the second configuration" if it._parent is twin else "another object",
                                            "the second configuration's list" if it._container is target else "another list"))
                    return False
                d = before.diff(drv.snapshot())
                if d:
                    res.viol("M-same", "foreign-item:" + route, "offering %s[%d] to a second configuration raised, but this configuration "
                             "changed: %s" % (p, len(lst) // 2, "; ".join(d[:4])))
                    return False
        try:
            it[req[0]] = saved
        except Exception:
            pass
    return True


def _caused_by_injection(exc):
    seen = 0
    while exc is not None and seen < 10:
        if isinstance(exc, InjectedFault):
            return True
        exc = exc.__cause__ or exc.__context__
        seen += 1
    return False


def _failpoint_runs(drv, ctx, res, op, idx):
    """Inject an exception at line events inside the format modules / include field while a good document is being
    loaded: a simulated parse failure.  The load must either complete or leave the state untouched."""
    cc = ctx.cc
    from ..trees import in_domain

    tree, fmt = op["tree"], op["fmt"]
    if not history._plain_tree(tree) or not in_domain(fmt, tree):
        return 0
    try:
        doc = cc.ConfigFormat.get(fmt).dumps(drv.cfg, tree)
    except Exception:
        return 0
    fp = ctx.failpoints
    if fp is None:
        fp = ctx.failpoints = Failpoints(ctx.pkgdir)
    path = os.path.join(ctx.dir, "fp.doc")
    with open(path, "wb") as fh:
        fh.write(doc)
    use_load = op["failpoints"] % 2 == 0
    call = (lambda: drv.cfg.load(path, fmt)) if use_load else (lambda: drv.cfg.loads(doc, fmt))
    # trace a clean run on a twin to count the events (the real configuration is not touched by the trace)
    twin = cc.Config(drv.built.schema, key_filename=drv.keyfile)
    tcall = (lambda: twin.load(path, fmt)) if use_load else (lambda: twin.loads(doc, fmt))
    outcome, _val, events = fp.run(tcall, pred=_in_anchor_files)
    n = len(events)
    res.count("failpoint_traces")
    if n == 0:
        return 0
    ks = list(range(n))
    if ctx.tier != "thorough" and n > 12:
        seen, ks = set(), []
        for k, ev in enumerate(events):  # first occurrence of every distinct line
            if ev not in seen:
                seen.add(ev)
                ks.append(k)
        ks = ks[:16]
    elif n > 60:
        step = max(1, n // 60)
        ks = ks[::step]
    judged = 0
    for k in ks:
        before = drv.snapshot()
        outcome, val, _ev = fp.run(call, pred=_in_anchor_files, k=k, exc=InjectedFault("injected parse fault #%d" % k))
        res.count("failpoint_injections")
        if outcome != "raised":
            res.count("failpoint_swallowed_load_completed")
            continue
        if not _caused_by_injection(val):
            # the library swallowed the injected fault (bare except in a parser), went on with another parse result and
            # failed later for another reason: a tree that parses but fails validation half way is outside the statement
            res.count("failpoint_swallowed_other_error_later")
            continue
        res.count("failpoint_injections_raised")
        res.count("same_checks")
        judged += 1
        diff = before.diff(drv.snapshot())
        if diff:
            res.viol("M-same", "failpoint:%s" % fmt, "step %d: fault injected at %s:%d during %s(%s) surfaced as %s, but the "
                     "configuration changed: %s" % (idx, fp.fired[0] if fp.fired else "?", fp.fired[1] if fp.fired else 0,
                                                    "load" if use_load else "loads", fmt, type(val).__name__, "; ".join(diff[:4])))
            return judged
    return judged
