"""C13 - configurations of one schema share no state and never alter the schema."""
import re

from .. import gen, history, model
from ..common import Snapshot, eqstar, plain, rng_for, sighash
from .c05 import env_of

PLAN = {
    "quick": {"shards": 8, "cases": 400, "min_nontrivial": 1500, "budget_s": 300},
    "thorough": {"shards": 16, "cases": 6000, "min_nontrivial": 33600, "budget_s": 1500},
}
RULE = ("schemas with mutable defaults on typed lists/dicts (scalars, dict items for lists of schemas), nested schemas, "
        "config types and dynamic parts; configuration `a` receives a history of assignments, loads, resets and "
        "in-place list/dict mutations; after EVERY operation M-twin compares (1) the snapshot of twin `b` built before, "
        "(2) a structural fingerprint of the schema (field set, vars() of every field recursively, defaults), and "
        "periodically (3) a twin built *after* the mutations against the declared defaults; a second scenario reuses "
        "one sub-schema / config type as the item type of two lists in two configurations; a third has two configurations "
        "load the SAME document with include files (untyped lists/dicts, key-typed dicts, dynamic extras, all five "
        "formats), mutates every reachable container of one in place at any depth and compares the other and a later "
        "load of the unchanged files; hand-made argparse namespaces (known options, options a dynamic or fixed section "
        "does not declare) go through cmdline_args_override; non-trivial = >= 3 "
        "operations applied with >= 1 in-place mutation or dynamic field; distinct = distinct (schema, history)")
REQUIRED = ("operations_through_a_configuration_older_than_its_schema_fields",
            "typed_containers_assigned_between_equal_configurations", "setdefault_results_changed_in_place", "schemas_with_a_tuple_default_on_a_typed_list", "asdict_with_computed_fields", "schemas_with_encoded_values_in_default_items", "hand_written_documents_with_unknown_names", "inner_containers_changed_in_place", "asdict_results_changed_in_place", "failed_include_loads", "foreign_method_secrets_loaded", "schemas_with_environment_prefix", "resets_then_inplace_mutations", "cmdline_namespaces_applied", "same_document_loads", "cross_assignments", "serialisations_applied", "twin_before_checks", "twin_after_checks", "fingerprint_checks", "shared_item_checks", "ops_applied",
            "inplace_mutations", "dynamic_fields_added")
ASSUMPTIONS = ["deep mutation inside an *untyped* default (ListField(default=[[1]]), Field(default=[...])) is out of "
               "scope: the property quantifies over mutable defaults on typed fields"]
SHRINK_KEY = "ops"


def generate(rng, ctx):
    thorough = ctx.tier == "thorough"
    if rng.random() < 0.15:
        return {"scenario": "same-document", "seed": rng.getrandbits(32), "n": rng.randrange(3, 20), "ops": []}
    if rng.random() < 0.2:
        return {"scenario": "shared-item", "seed": rng.getrandbits(32), "n": rng.randrange(5, 40), "ops": []}
    schema = gen.gen_schema(rng, depth=rng.choice([1, 2, 3] if thorough else [1, 2]), width=rng.choice([3, 4, 5]),
                            defaults=0.85, dynamic=0.35)
    if rng.random() < 0.35:
        # environment support switched on (no variable is ever set): every code path that treats env-bound fields
        # differently must still copy / wrap mutable defaults per configuration
        schema["env"] = rng.choice(["VFC13", "VFC13", "vfc13x"])
    env = gen.GEN_ENV
    # defaults for lists of schemas: dict items (each configuration must get its own item objects)
    for path, nd in list(history.all_paths(schema)):
        if nd["kind"] == "field" and nd["family"] == "list" and nd.get("item") and nd["item"]["kind"] != "field" and rng.random() < 0.5:
            items = [_no_untyped(nd["item"], gen.tree_for(rng, nd["item"], env, valid=True)) for _ in range(rng.choice([1, 2]))]
            if all(model.accepts_tree(nd["item"], t, env)[0] is True for t in items):
                nd["params"]["default"] = items
    # typed containers of typed containers
    nested = []
    if rng.random() < 0.6:
        I = {"kind": "field", "family": "int", "params": {}}
        S = {"kind": "field", "family": "str", "params": {}}
        L = lambda item: {"kind": "field", "family": "list", "params": {}, "item": item}  # noqa: E731
        D = lambda valf: {"kind": "field", "family": "dict", "params": {}, "keyf": dict(S), "valf": valf}  # noqa: E731
        for key, node, x in (("nl0", L(L(dict(I))), 7), ("nd0", D(L(dict(S))), "zz"), ("dd1", D(D(dict(I))), 5)):
            if rng.random() < 0.7 and all(ch["key"] != key for ch in schema["fields"]):
                node["key"] = key
                schema["fields"].append(node)
                nested.append((key, x))
        if rng.random() < 0.5 and all(ch["key"] != "nt0" for ch in schema["fields"]):
            # the declared default of a typed list of typed lists is written as a TUPLE of lists
            node = L(L(dict(I)))
            node["key"] = "nt0"
            node["params"] = {"default": ([1, 2], [3])}
            schema["fields"].append(node)
            schema["tuple_default"] = True
    if rng.random() < 0.3:
        k = gen.pick_keys(rng, 1, avoid={ch["key"] for ch in schema["fields"]})[0]
        schema["fields"].append({"kind": "field", "key": k, "family": "virtual", "params": {"returns": "v"}})
    if rng.random() < 0.4 and all(ch["key"] != "lc0" for ch in schema["fields"]):
        # a list of configurations whose declared default gives, as mappings, items that hold typed lists of values with
        # an on-disk form of their own (bytes as base64 / hex text) - also one level further down
        enc = rng.choice(["base64", "hex"])
        B = {"kind": "field", "family": "bytes", "params": {"encoding": enc}}
        texts = ["AP8=", "eHl6"] if enc == "base64" else ["00ff", "78797a"]
        item = {"kind": "schema", "key": "", "fields": [
            {"kind": "field", "key": "rows", "family": "list", "params": {}, "item": dict(B)},
            {"kind": "field", "key": "grid", "family": "list", "params": {}, "item": {"kind": "field", "family": "list", "params": {}, "item": dict(B)}},
            {"kind": "field", "key": "tag", "family": "str", "params": {"default": "t"}}]}
        default = [{"rows": list(texts), "grid": [list(texts), [texts[0]]], "tag": "one"}, {"rows": [texts[1]]}]
        if all(model.accepts_tree(item, t, env)[0] is True for t in default):
            schema["fields"].append({"kind": "field", "key": "lc0", "family": "list", "params": {"default": default}, "item": item})
            schema["encoded_item_defaults"] = True
    n = rng.randrange(4, 40 if thorough else 22)
    ops = history.gen_ops(rng, schema, env, n, bad=0.15)
    ops = [op for op in ops if op["op"] != "cmdline"]
    # the twin takes over live typed list/dict values of `a` by assignment; later in-place changes of `a` must not reach it
    cross = []
    for path, nd in history.all_paths(schema):
        if "[]" in path or nd["kind"] != "field" or nd["family"] not in ("list", "dict") or not history._typed(nd):
            continue
        if rng.random() < 0.6:
            cross.append(path)
            for _ in range(2):
                if nd["family"] == "list":
                    ops.insert(rng.randrange(len(ops) + 1), {
                        "op": "listop", "path": path, "name": rng.choice(["append", "insert", "extend"]), "i": 0, "n": 1, "iter": "list",
                        "a": None, "b": None, "x": gen.one_value(rng, nd["item"], "valid", env),
                        "xs": [gen.one_value(rng, nd["item"], "valid", env)]})
                else:
                    kf, vf = nd.get("keyf"), nd.get("valf")
                    k = gen.one_value(rng, kf, "valid", env) if kf else "zk%d" % rng.randrange(9)
                    v = gen.one_value(rng, vf, "valid", env) if vf else 1
                    ops.insert(rng.randrange(len(ops) + 1), {"op": "dictop", "path": path, "name": rng.choice(["setitem", "update"]),
                                                             "kv": [k, v], "pairs": [[k, v]], "kind": "dict"})
    # command-line namespaces naming options a section does not declare (dynamic sections take them as extra fields of
    # that configuration only; fixed sections reject them) next to known ones
    sections = [""] + [p for p, nd in history.all_paths(schema) if nd["kind"] in ("schema", "ctype") and "[]" not in p]
    leaves = [(p, nd) for p, nd in history.all_paths(schema) if nd["kind"] == "field" and "[]" not in p and
              nd["family"] in ("str", "int", "bool", "float", "port")]
    for _ in range(rng.choice([0, 1, 1, 2])):
        items = []
        for _j in range(rng.choice([1, 2, 3])):
            r = rng.random()
            if r < 0.6 or not leaves:
                sec = rng.choice(sections)
                items.append([(sec + "." if sec else "") + "zq%d" % rng.randrange(5), rng.choice([1, "v", "7", True])])
            else:
                p, nd = rng.choice(leaves)
                v = gen.one_value(rng, nd, "valid", env)
                if v is not None and isinstance(v, (str, int, float, bool)) and v == v:
                    items.append([p, v])
        if items:
            ops.insert(rng.randrange(len(ops) + 1), {"op": "cmdline_ns", "items": items,
                                                     "ignore": rng.choice([None, None, "config", [items[0][0]]])})
    # the nested typed containers are filled, taken over by the twin (cross assignment below) and then changed in place
    # one level down through configuration a
    start = {"nl0": rng.choice([[[1, 2], [3]], [None, [1, 2], [3]], [[], [4]]]),
             "nd0": rng.choice([{"k": ["x"], "m": ["y", "z"]}, {"a": None, "k": ["x"], "m": ["y"]}]),
             "dd1": rng.choice([{"k": {"a": 1}, "m": {"b": 2}}, {"a": None, "k": {"a": 1}}])}
    # hand-written documents that mention things the schema does not know (rejected, or extras of a dynamic configuration)
    for _ in range(rng.choice([0, 1, 1, 2])):
        tag = rng.choice(["notes", "zzunknown", "extra_opts"])
        doc = rng.choice([
            ("xml", "<config><%s><x>1</x><y><z>2</z></y></%s></config>" % (tag, tag)),
            ("xml", "<config><%s>text</%s></config>" % (tag, tag)),
            ("json", "{\"%s\": {\"x\": 1, \"y\": {\"z\": 2}}}" % tag),
            ("yaml", "%s:\n  x: 1\n  y: {z: 2}\n" % tag)])
        ops.insert(rng.randrange(len(ops) + 1), {"op": "loads_raw", "fmt": doc[0], "doc": doc[1]})
    if schema.get("tuple_default"):
        for _ in range(2):
            ops.insert(rng.randrange(0, len(ops) + 1), {"op": "inner_mutate", "path": "nt0", "x": 7, "which": rng.randrange(4), "k": "zq"})
    for key, x in nested:
        ops.insert(0, {"op": "set", "route": "attr", "path": key, "value": start[key]})
        cross.insert(0, key)
        for _ in range(2):
            ops.insert(rng.randrange(1, len(ops) + 1), {"op": "inner_mutate", "path": key, "x": x, "which": rng.randrange(4), "k": "zq%d" % rng.randrange(3)})
    # documents written by another tool: a secret encrypted with the other provider than the field declares
    for path, nd in history.all_paths(schema):
        if "[]" not in path and nd["kind"] == "field" and nd["family"] == "secure" and rng.random() < 0.7:
            ops.insert(rng.randrange(len(ops) + 1), {"op": "load_foreign_secret", "path": path, "text": "foreign-%d" % rng.randrange(99)})
    # reset a typed list / dict with a mutable default, then change it in place
    for path, nd in history.all_paths(schema):
        if "[]" in path or nd["kind"] != "field" or nd["family"] not in ("list", "dict") or not history._typed(nd):
            continue
        if nd.get("params", {}).get("default") is None or rng.random() < 0.4:
            continue
        at = rng.randrange(len(ops) + 1)
        mut = None
        if nd["family"] == "list" and nd["item"]["kind"] == "field":
            x = gen.one_value(rng, nd["item"], "valid", env)
            mut = {"op": "listop", "path": path, "name": "append", "i": 0, "n": 1, "iter": "list", "a": None, "b": None, "x": x, "xs": [x]}
        elif nd["family"] == "dict":
            kf, vf = nd.get("keyf"), nd.get("valf")
            k = gen.one_value(rng, kf, "valid", env) if kf else "zr%d" % rng.randrange(9)
            v = gen.one_value(rng, vf, "valid", env) if vf else 1
            mut = {"op": "dictop", "path": path, "name": "setitem", "kv": [k, v], "pairs": [[k, v]], "kind": "dict"}
        if mut is not None:
            ops[at:at] = [{"op": "reset", "path": path, "route": rng.choice(["parent", "dotted"]), "then_mutate": True}, mut]
    return {"scenario": "twin", "schema": schema, "ops": ops, "cross": cross[:4]}


def _no_untyped(node, tree):
    """Drop untyped containers (and sub-trees holding them) from a default item: see known finding K8."""
    out = {}
    for ch in model.stored_children(node):
        if ch["key"] not in tree:
            continue
        v = tree[ch["key"]]
        if ch["kind"] in ("schema", "ctype"):
            if isinstance(v, dict):
                out[ch["key"]] = _no_untyped(ch, v)
            continue
        if ch["family"] == "any" or (ch["family"] == "list" and (ch.get("item") is None or _untyped(ch["item"]))) or (
                ch["family"] == "dict" and ((ch.get("keyf") is None and ch.get("valf") is None) or _untyped(ch.get("valf")))):
            continue
        out[ch["key"]] = v
    return out


def _untyped(node):
    if node is None:
        return True
    if node.get("kind") != "field":
        return False
    if node["family"] in ("any", "secure"):
        return True
    if node["family"] == "list":
        return node.get("item") is None or _untyped(node["item"])
    if node["family"] == "dict":
        return (node.get("keyf") is None and node.get("valf") is None) or _untyped(node.get("valf"))
    return False


def probes(ctx):
    yield "K4", {"scenario": "default-with-config-instances", "ops": []}
    yield "K8", {"scenario": "default-item-with-untyped-container", "ops": []}


def abbreviate(case):
    c = dict(case)
    if "ops" in c:
        c["ops_total"] = len(c["ops"])
        c["ops"] = c["ops"][:5]
    return c


# ------------------------------------------------------------------------------------------------
# schema fingerprint


def describe(cc, obj, depth=0):
    """Structural image of a field / schema / config type: everything in vars() except back references."""
    if depth > 8:
        return "<deep>"
    if isinstance(obj, cc.Schema):
        out = {"__schema__": True}
        for k, v in vars(obj).items():
            if k in ("_schema",):
                continue
            if k == "_fields":
                out["_fields"] = [(name, describe(cc, f, depth + 1)) for name, f in v.items()]
            else:
                out[k] = describe(cc, v, depth + 1)
        return out
    if isinstance(obj, type) and issubclass(obj, cc.ConfigType):
        return {"__ctype__": obj.__name__, "schema": describe(cc, obj.__schema__, depth + 1), "key_filename": obj.__key_filename__}
    if hasattr(obj, "__dict__") and obj.__class__.__module__.startswith("cincoconfig"):
        out = {"__class__": obj.__class__.__name__}
        for k, v in vars(obj).items():
            if k in ("_schema",):
                continue
            out[k] = describe(cc, v, depth + 1)
        return out
    if isinstance(obj, re.Pattern):
        return ("re", obj.pattern)
    if isinstance(obj, (list, tuple)):
        return [describe(cc, v, depth + 1) for v in obj]
    if isinstance(obj, dict):
        return {repr(k): describe(cc, v, depth + 1) for k, v in obj.items()}
    if callable(obj):
        return ("callable", id(obj))
    if isinstance(obj, cc.Config):
        return ("config", plain(obj))
    if isinstance(obj, (str, bytes, int, float, bool)) or obj is None:
        return obj
    return plain(obj)


def fingerprint(cc, schema):
    return describe(cc, schema)


def fp_diff(a, b, path="schema"):
    if type(a) is not type(b):
        return "%s: %r -> %r" % (path, _s(a), _s(b))
    if isinstance(a, dict):
        for k in list(a) + [k for k in b if k not in a]:
            if k not in a:
                return "%s.%s appeared (%s)" % (path, k, _s(b[k]))
            if k not in b:
                return "%s.%s vanished" % (path, k)
            d = fp_diff(a[k], b[k], "%s.%s" % (path, k))
            if d:
                return d
        return None
    if isinstance(a, (list, tuple)):
        if len(a) != len(b):
            return "%s: %d entries -> %d entries (%s -> %s)" % (path, len(a), len(b), _s(a), _s(b))
        for i, (x, y) in enumerate(zip(a, b)):
            d = fp_diff(x, y, "%s[%d]" % (path, i))
            if d:
                return d
        return None
    if not eqstar(a, b, zero_sign=True):
        return "%s: %s -> %s" % (path, _s(a), _s(b))
    return None


def _s(v):
    r = repr(v)
    return r if len(r) < 120 else r[:117] + "..."


# ------------------------------------------------------------------------------------------------


def run(case, ctx, res):
    if case["scenario"] == "shared-item":
        return run_shared(case, ctx, res)
    if case["scenario"] == "same-document":
        return run_samedoc(case, ctx, res)
    if case["scenario"] == "default-with-config-instances":
        return run_k4(case, ctx, res)
    if case["scenario"] == "default-item-with-untyped-container":
        return run_k8(case, ctx, res)
    cc = ctx.cc
    env = env_of(ctx)
    if case["schema"].get("env"):
        import os

        if any(k.upper().startswith("VFC13") for k in os.environ):
            return
        res.count("schemas_with_environment_prefix")
    if not _equal_items_stage(cc, res, len(case["ops"])):
        return
    if not _grown_schema_stage(cc, res, rng_for("c13-grown", sighash(case["ops"]), len(case["schema"]["fields"]))):
        return
    if case["schema"].get("tuple_default"):
        res.count("schemas_with_a_tuple_default_on_a_typed_list")
    if case["schema"].get("encoded_item_defaults"):
        res.count("schemas_with_encoded_values_in_default_items")
    drv = history.Driver(ctx, res, case["schema"], env)
    a = drv.cfg
    try:
        b = cc.Config(drv.built.schema, key_filename=drv.keyfile)
    except Exception as exc:
        # the first configuration of this schema was built a moment ago, with the same declared defaults
        res.viol("M-twin", "second-configuration-cannot-be-built", "a first configuration of the schema was built, the second raised %s: %s" % (
            type(exc).__name__, str(exc)[:200]))
        return
    # (values the cross assignment needs are set first: the leading `set` operations of the nested containers)
    lead = 0
    for op in case["ops"]:
        if op["op"] == "set" and op.get("path") in ("nl0", "nd0", "dd1") and op.get("route") == "attr":
            try:
                drv.step(op)
            except Exception:
                pass
            lead += 1
        else:
            break
    for path in case.get("cross", ()):
        from .. import spec as _spec

        try:
            live = _spec.get_path(a, path)
            if live is not None:
                b[path] = live
                res.count("cross_assignments")
        except Exception:
            pass
    fp0 = fingerprint(cc, drv.built.schema)
    b0 = Snapshot(b)
    # the setdefault(...).append(...) idiom on a dict of typed lists / dicts, with a container of the twin as default: what
    # setdefault hands back belongs to configuration a
    for key in ("nd0", "dd1"):
        try:
            da, db = a[key], b[key]
            src = next((v for v in db.values() if isinstance(v, (list, dict))), None) if db else None
            if da is None or src is None:
                continue
            got = da.setdefault("zz_setdefault_new", src)
            if isinstance(got, list):
                got.append("zz" if key == "nd0" else 1)
            else:
                got["zz_k"] = 1
            res.count("setdefault_results_changed_in_place")
        except Exception:
            continue
        d = b0.diff(Snapshot(b))
        if d:
            res.viol("M-twin", "twin-before:setdefault-result", "a.%s.setdefault('zz_setdefault_new', <a container held by b>) was changed in "
                     "place through what setdefault returned: configuration b changed: %s" % (key, "; ".join(d[:3])))
            return
    expect_fresh = model.defaults_tree(drv.root, env)
    fresh_flags = {}
    history.flags_for_tree(drv.root, {}, "", fresh_flags)
    applied = inplace = dyn = 0
    for idx, op in enumerate(case["ops"]):
        if idx < lead:
            continue  # applied before the cross assignment
        out = drv.step(op)
        if out is None:
            continue
        res.count("ops_applied")
        applied += 1
        if out.get("inplace") and out["raised"] is None:
            inplace += 1
            res.count("inplace_mutations")
        if out["kind"] == "inner-mutate" and out["raised"] is None:
            res.count("inner_containers_changed_in_place")
        if out["kind"] == "serialize":
            res.count("serialisations_applied")
        if out["kind"] == "cmdline-ns":
            res.count("cmdline_namespaces_applied")
        if out["kind"] == "loads-raw":
            res.count("hand_written_documents_with_unknown_names")
        if out["kind"] == "load-foreign-secret" and out["raised"] is None:
            res.count("foreign_method_secrets_loaded")
        if op.get("then_mutate") and out["raised"] is None:
            res.count("resets_then_inplace_mutations")
        if out["kind"] == "set-dynamic" and out["raised"] is None:
            dyn += 1
            res.count("dynamic_fields_added")
        feat = out["kind"].split(":")[0] + (":" + out["kind"].split(":")[1] if ":" in out["kind"] else "")
        res.count("twin_before_checks")
        d = b0.diff(Snapshot(b))
        if d:
            res.viol("M-twin", "twin-before:" + feat, "step %d: %s at %r on configuration a changed configuration b: %s" % (
                idx, out["kind"], out["path"], "; ".join(d[:4])))
            return
        res.count("fingerprint_checks")
        d = fp_diff(fp0, fingerprint(cc, drv.built.schema))
        if d:
            res.viol("M-twin", "schema:" + feat, "step %d: %s at %r changed the schema: %s" % (idx, out["kind"], out["path"], d))
            return
        if idx % 4 == 1:
            # what asdict() hands out belongs to the caller: changing every container of it (also the empty ones) in place
            # must not reach the configuration
            try:
                a_before = Snapshot(a)
                handed = cc.asdict(a, virtual=True) if idx % 8 == 1 else cc.asdict(a)
                if idx % 8 == 1:
                    res.count("asdict_with_computed_fields")
                    # the computed fields of the root are part of it, and only of it (fields by kind: get_fields)
                    virt = [k for k, _f in cc.get_fields(a, cc.VirtualField)]
                    if set(virt) - set(handed) or (set(virt) & set(cc.asdict(a))):
                        res.viol("M-twin", "asdict-virtual-keys", "step %d: computed fields %r; asdict(virtual=True) has %r, asdict() has %r" % (
                            idx, virt, sorted(set(virt) & set(handed)), sorted(set(virt) & set(cc.asdict(a)))))
                        return
            except Exception:
                handed = None
            if isinstance(handed, dict):
                _scramble_top(handed, drv.root)
                res.count("asdict_results_changed_in_place")
                d = a_before.diff(Snapshot(a))
                if d:
                    res.viol("M-twin", "asdict-shares-containers:" + feat, "step %d: changing the result of asdict(a) in place changed a: %s" % (
                        idx, "; ".join(d[:4])))
                    return
        if idx % 4 == 3 or idx == len(case["ops"]) - 1:
            res.count("twin_after_checks")
            try:
                c = cc.Config(drv.built.schema, key_filename=drv.keyfile)
            except Exception as exc:
                res.viol("M-twin", "later-configuration-cannot-be-built", "step %d: after %s at %r a further configuration of the schema "
                         "cannot be built any more: %s: %s" % (idx, out["kind"], out["path"], type(exc).__name__, str(exc)[:200]))
                return
            snap = Snapshot(c)
            d = model.match(expect_fresh, snap.values)
            if d:
                res.viol("M-twin", "twin-after:" + feat, "step %d: a configuration built after %s at %r does not start from the "
                         "declared defaults: %s" % (idx, out["kind"], out["path"], d))
                return
            bad = [p for p in sorted(set(snap.flags) | set(fresh_flags)) if snap.flags.get(p) != fresh_flags.get(p)]
            if bad:
                res.viol("M-twin", "twin-after-flags:" + feat, "step %d: new configuration has other user-defined flags than a "
                         "fresh one at %r" % (idx, bad[:4]))
                return
    if applied >= 3 and (inplace or dyn):
        res.nontrivial(case["schema"], case["ops"])


def _equal_items_stage(cc, res, seed):
    """Two configuration-type items that are EQUAL at the moment (and two equal configurations of one type): the typed list /
    dict of one is assigned to the other, then changed in place through one of them - the other keeps its own."""
    item = cc.Schema()
    item.name = cc.StringField(default="x")
    item.ports = cc.ListField(cc.IntField(), default=lambda: [80, 443])
    item.tags = cc.DictField(cc.StringField(), cc.IntField(), default=lambda: {"a": 1})
    t = cc.make_type(item, "EqItem", module="vf_types")
    schema = cc.Schema()
    schema.servers = cc.ListField(t)
    schema.main = t
    cfg, other = schema(), schema()
    cfg.servers = [{}, {}]
    pairs = [(cfg.servers[0], cfg.servers[1], "servers[0]", "servers[1]"), (cfg.main, other.main, "a.main", "b.main")]
    src, dst, sname, dname = pairs[seed % 2]
    res.count("typed_containers_assigned_between_equal_configurations")
    try:
        dst.ports = src.ports
        dst.tags = src.tags
        dst.ports.append(8080)
        dst.tags["zz"] = 2
    except Exception as exc:
        res.viol("M-twin", "equal-configurations:raises", "assigning the typed list / dict of %s to the equal configuration %s and changing "
                 "it in place raised %r" % (sname, dname, exc))
        return False
    if list(src.ports) != [80, 443] or dict(src.tags) != {"a": 1}:
        res.viol("M-twin", "equal-configurations:shared-container", "%s.ports = %s.ports (both configurations equal at that moment), then "
                 "%s.ports.append(8080): %s.ports is %r, its tags %r" % (dname, sname, dname, sname, list(src.ports), dict(src.tags)))
        return False
    return True


def _grown_schema_stage(cc, res, rng):
    """A configuration built BEFORE its schema grew: typed list / dict fields with mutable declared defaults are added to
    the schema (at the root or in a section) after configuration `old` exists.  Whatever the library answers when `old` is
    asked for the new fields (refusing is fine), no read / in-place change / assignment / reset through `old` may change
    the declared defaults, the schema, a configuration built before the operations or one built after them."""
    I, S, L, D = cc.IntField, cc.StringField, cc.ListField, cc.DictField
    schema = cc.Schema(dynamic=rng.random() < 0.3)
    schema.name = S(default="svc")
    schema.tags = L(S(), default=["base"])
    schema.sec.level = I(default=1)
    schema.sec.deep.flag = cc.BoolField(default=False)
    old = schema()
    where = rng.choice(["", "", "sec", "sec.deep"])
    target = schema
    for part in [x for x in where.split(".") if x]:
        target = target._fields[part]
    n1, n2 = rng.randrange(1, 9000), rng.randrange(1, 9000)
    word = "w%d" % rng.randrange(99)
    shapes = {
        "ports": ("list", lambda: L(I(), default=[n1, n2]), n2 + 1),
        "words": ("list", lambda: L(S(), default=[word]), "zz"),
        "limits": ("dict", lambda: D(S(), I(), default={word: n1}), n2),
        "labels": ("dict", lambda: D(S(), S(), default={"a": word, "b": "x"}), "zz"),
        "grid": ("list-list", lambda: L(L(I()), default=[[n1], [n2, 3]]), 7),
        "groups": ("dict-list", lambda: D(S(), L(I()), default={word: [n1], "m": [n2]}), 7),
        "tables": ("dict-dict", lambda: D(S(), D(S(), I()), default={word: {"a": n1}}), 7),
    }
    names = rng.sample(sorted(shapes), rng.choice([1, 2, 2, 3]))
    for name in names:
        setattr(target, name, shapes[name][1]())
    pre = (where + "." if where else "")
    try:
        fp0 = fingerprint(cc, schema)
        before = schema()
        b0 = Snapshot(before)
    except Exception as exc:
        res.viol("M-twin", "grown-schema:cannot-build", "fields %r added to schema section %r after a first configuration was built: a new "
                 "configuration cannot be built / observed: %r" % (names, where, exc))
        return False

    def holder():
        return old[where] if where else old

    def mutate(name, act, x):
        kind = shapes[name][0]
        if act == "assign-first":
            holder()[name] = [] if kind.startswith("list") else {}
            return
        if act == "reset-first":
            cc.reset_value(old, pre + name)
        if act == "iadd" and kind.startswith("list"):
            cfg = holder()
            val = getattr(cfg, name)
            val += [[x]] if kind == "list-list" else [x]
            setattr(cfg, name, val)
            return
        val = getattr(holder(), name) if act != "item-read" else holder()[name]
        if act == "inner" and kind in ("list-list", "dict-list", "dict-dict"):
            inner = val[0] if kind == "list-list" else next(iter(val.values()))
            if kind == "dict-dict":
                inner["zk"] = x
            else:
                inner.append(x)
        elif kind == "list":
            {"append": lambda: val.append(x), "extend": lambda: val.extend([x, x]), "insert": lambda: val.insert(0, x),
             "setitem": lambda: val.__setitem__(0, x), "pop": lambda: val.pop(), "clear": lambda: val.clear()}.get(act, lambda: val.append(x))()
        elif kind == "list-list":
            {"append": lambda: val.append([x]), "extend": lambda: val.extend([[x], []]), "insert": lambda: val.insert(0, [x]),
             "setitem": lambda: val.__setitem__(0, [x]), "pop": lambda: val.pop(), "clear": lambda: val.clear()}.get(act, lambda: val.append([x]))()
        else:
            v = x if kind == "dict" else ([x] if kind == "dict-list" else {"zk": x})
            {"setitem": lambda: val.__setitem__("zk", v), "update": lambda: val.update({"zu": v}), "setdefault": lambda: val.setdefault("zs", v),
             "pop": lambda: val.pop(next(iter(val))), "clear": lambda: val.clear(), "popitem": lambda: val.popitem()}.get(
                 act, lambda: val.__setitem__("zk", v))()

    acts = ["append", "extend", "insert", "setitem", "pop", "clear", "iadd", "update", "setdefault", "popitem", "inner", "inner", "item-read"]
    plan = []
    for _ in range(rng.randrange(3, 8)):
        plan.append((rng.choice(names), rng.choice(acts)))
    if rng.random() < 0.3:
        # later on the application assigns / resets the new field through the old configuration and goes on changing it
        plan.insert(rng.randrange(1, len(plan) + 1), (rng.choice(names), rng.choice(["assign-first", "reset-first"])))
    for step, (name, act) in enumerate(plan):
        res.count("operations_through_a_configuration_older_than_its_schema_fields")
        try:
            mutate(name, act, shapes[name][2])
            res.count("operations_through_an_older_configuration_not_refused")
        except Exception:
            pass  # the library may refuse: the configuration holds no value for the field
        what = "schema section %r got the fields %r after configuration `old` was built; step %d: %s on old.%s%s" % (
            where, names, step, act, pre, name)
        d = fp_diff(fp0, fingerprint(cc, schema))
        if d:
            res.viol("M-twin", "grown-schema:schema", "%s changed the schema: %s" % (what, d))
            return False
        d = b0.diff(Snapshot(before))
        if d:
            res.viol("M-twin", "grown-schema:twin-before", "%s changed a configuration built before it: %s" % (what, "; ".join(d[:3])))
            return False
        try:
            later = Snapshot(schema())
        except Exception as exc:
            res.viol("M-twin", "grown-schema:later-configuration-cannot-be-built", "%s: a further configuration cannot be built: %r" % (what, exc))
            return False
        d = b0.diff(later, identity=False)
        if d:
            res.viol("M-twin", "grown-schema:twin-after", "%s: a configuration built afterwards differs from one built before: %s" % (
                what, "; ".join(d[:3])))
            return False
    return True


def _scramble_top(d, node):
    """Change in place exactly what asdict() builds itself: the map of every (nested) configuration, every list (lists in
    lists, configurations in lists) and the one-level copy of every dict - not what lies inside dict values, which it
    documents as preserved as-is."""
    kids = {ch["key"]: ch for ch in model.fields_of(node)["fields"]} if node else {}
    for k, v in list(d.items()):
        ch = kids.get(k)
        if ch is not None and ch["kind"] in ("schema", "ctype") and isinstance(v, dict):
            _scramble_top(v, ch)
        elif isinstance(v, list):
            _scramble_list(v, ch.get("item") if ch is not None and ch["kind"] == "field" and ch["family"] == "list" else None)
        elif isinstance(v, dict):
            v["__changed__"] = 1
    d["__changed__"] = 1


def _scramble_list(lst, item):
    for it in lst:
        if isinstance(it, list):
            _scramble_list(it, None)
        elif isinstance(it, dict):
            if item is not None and item["kind"] in ("schema", "ctype"):
                _scramble_top(it, item)
            else:
                it["__changed__"] = 1
    lst.append("__changed__")


def _shared_schema(cc):
    item = cc.Schema()
    item.x = cc.IntField(default=1)
    item.tags = cc.ListField(cc.StringField(), default=lambda: ["a"])
    item.opts = cc.DictField(cc.StringField(), cc.IntField(), default={"k": 1})
    item.inner.y = cc.StringField(default="y0")
    item2 = cc.Schema()
    item2.n = cc.IntField(default=0)
    item2.vals = cc.ListField(cc.IntField(), default=[1, 2])
    item2.auth.user = cc.StringField(default="u0")  # a plain nested section inside the configuration type
    T = cc.make_type(item2, "SharedT", module="vf_types")
    root = cc.Schema()
    root.l1 = cc.ListField(item)
    root.l2 = cc.ListField(item)
    root.t1 = cc.ListField(T)
    root.t2 = cc.ListField(T, default=lambda: [{"n": 7}])
    root.one = T
    return root, item, T


def run_shared(case, ctx, res):
    """One sub-schema and one config type reused as the item type of several lists."""
    cc = ctx.cc
    rng = rng_for("c13-shared", case["seed"])
    root, item, T = _shared_schema(cc)
    a, b = root(), root()
    for which in ("l1", "l2", "t1"):
        setattr(a, which, [])
    fp0 = fingerprint(cc, root)
    b0 = Snapshot(b)
    applied = 0
    for idx in range(case["n"]):
        which = rng.choice(["l1", "l2", "t1", "t2"])
        lst = getattr(a, which)
        act = rng.choice(["append", "append", "mutate", "mutate", "pop", "assign", "one"])
        try:
            if act == "append":
                if which[0] == "l":
                    lst.append({"x": rng.randrange(100), "tags": ["t%d" % idx], "opts": {"o": idx}, "inner": {"y": "v%d" % idx}})
                elif rng.random() < 0.5:
                    lst.append({"n": idx, "vals": [idx]})
                else:
                    lst.append(T(n=idx))
            elif act == "mutate" and len(lst):
                it = lst[rng.randrange(len(lst))]
                if which[0] == "l":
                    it.tags.append("m%d" % idx)
                    it.opts["m"] = idx
                    it.x = idx
                    it.inner.y = "mut%d" % idx
                else:
                    it.vals.append(idx)
                    it.n = idx
                    if rng.random() < 0.6:
                        it.auth.user = "mut%d" % idx
            elif act == "pop" and len(lst):
                lst.pop()
            elif act == "assign":
                setattr(a, which, [])
            elif act == "one":
                a.one.vals.append(idx)
                a.one.n = idx
                a.one.auth.user = "one%d" % idx
        except Exception as exc:
            res.viol("M-twin", "shared-item:raised", "step %d: %s on %s raised %r" % (idx, act, which, exc))
            return
        applied += 1
        res.count("ops_applied")
        res.count("inplace_mutations")
        res.count("shared_item_checks")
        # the other lists of a that were not touched, and b, must not change
        d = b0.diff(Snapshot(b))
        if d:
            res.viol("M-twin", "shared-item:twin", "step %d: %s on a.%s changed configuration b: %s" % (idx, act, which, "; ".join(d[:3])))
            return
        for other in ("l1", "l2", "t1", "t2"):
            if other == which:
                continue
        d = fp_diff(fp0, fingerprint(cc, root))
        if d:
            res.viol("M-twin", "shared-item:schema", "step %d: %s on a.%s changed the schema: %s" % (idx, act, which, d))
            return
    # cross-list leak inside a: rebuild expected independence by comparing object identities
    ids = {}
    for which in ("l1", "l2", "t1", "t2"):
        for it in getattr(a, which):
            if id(it) in ids:
                res.viol("M-twin", "shared-item:aliased", "one item object is held by %s and %s" % (ids[id(it)], which))
                return
            ids[id(it)] = which
    c = root()
    snap = Snapshot(c)
    res.count("twin_after_checks")
    want = {"l1": None, "l2": None, "t1": None, "t2": [{"n": 7, "vals": [1, 2], "auth": {"user": "u0"}}],
            "one": {"n": 0, "vals": [1, 2], "auth": {"user": "u0"}}}
    if not eqstar(snap.values, want):
        res.viol("M-twin", "shared-item:twin-after", "a configuration built afterwards starts as %r, declared defaults give %r" % (
            snap.values, want))
        return
    if applied >= 3:
        res.nontrivial("shared", case["seed"], case["n"])
        res.count("twin_before_checks")
        res.count("fingerprint_checks")
        res.count("dynamic_fields_added", 0)


def _samedoc_schema(cc, rng):
    root = cc.Schema(dynamic=rng.random() < 0.5)
    root.inc = cc.IncludeField()
    root.plugins = cc.ListField()
    root.options = cc.DictField()
    root.groups = cc.DictField(cc.StringField())
    root.nums = cc.ListField(cc.IntField())
    root.anything = cc.AnyField() if hasattr(cc, "AnyField") else cc.Field()
    root.name = cc.StringField(default="n0")
    root.sub.inc2 = cc.IncludeField()
    root.sub.items = cc.ListField()
    root.sub.table = cc.DictField()
    root.sub.level = cc.IntField(default=1)
    return root


def _containers(cc, obj, path, out, depth=0):
    """Every list/dict container reachable below a configuration (typed proxies and raw ones at any depth)."""
    if depth > 6:
        return
    if isinstance(obj, cc.Config):
        for k, _f in list(obj._fields.items()) + list(obj._schema._fields.items()):
            try:
                v = obj._data.get(k)
            except Exception:
                continue
            if v is not None:
                _containers(cc, v, (path + "." if path else "") + k, out, depth + 1)
    elif isinstance(obj, list):
        out.append((path, obj))
        for i, v in enumerate(list(obj)):
            _containers(cc, v, "%s[%d]" % (path, i), out, depth + 1)
    elif isinstance(obj, dict):
        out.append((path, obj))
        for k, v in list(obj.items()):
            _containers(cc, v, "%s[%r]" % (path, k), out, depth + 1)


def run_samedoc(case, ctx, res):
    """Several configurations of one schema load the SAME document (and the same included files); in-place changes
    made through one of them must not reach the others nor what a later load of the unchanged files returns."""
    import os

    from .. import trees

    cc = ctx.cc
    rng = rng_for("c13-samedoc", case["seed"])
    fmt = rng.choice(trees.FORMATS)
    root = _samedoc_schema(cc, rng)

    def leafs():
        return rng.choice([1, "s", [1, 2], {"k": [1, {"z": 2}]}, [[1], [2, 3]], {"a": {"b": [0]}}, 2.5, True])

    values = {"plugins": [leafs() for _ in range(rng.randrange(1, 4))],
              "options": {"o%d" % i: leafs() for i in range(rng.randrange(1, 4))},
              "groups": {"g%d" % i: rng.choice([[1, 2], {"m": [3]}, "x", [["n"]]]) for i in range(rng.randrange(1, 3))},
              "nums": [rng.randrange(100) for _ in range(rng.randrange(1, 4))],
              "anything": rng.choice([[1, [2]], {"q": [1]}, [{"r": 1}]]),
              "name": "n%d" % rng.randrange(9)}
    if root._dynamic:
        values["extra_hosts"] = [["h1"], {"h": [2]}]
    subvalues = {"items": [leafs() for _ in range(rng.randrange(1, 3))], "table": {"t": leafs(), "u": [1, [2]]},
                 "level": rng.randrange(9)}
    d = os.path.join(ctx.dir, "sd%08x" % case["seed"])
    os.makedirs(d, exist_ok=True)
    main, inc, inc2 = {}, {}, {}
    for k, v in values.items():
        (inc if rng.random() < 0.6 else main)[k] = v
    main["sub"], incsub = {}, {}
    for k, v in subvalues.items():
        r = rng.random()
        (inc2 if r < 0.4 else incsub if r < 0.7 else main["sub"])[k] = v
    if incsub:
        inc["sub"] = incsub
    main["inc"] = os.path.join(d, "inc." + fmt)
    main["sub"]["inc2"] = os.path.join(d, "inc2." + fmt)
    if not all(trees.in_domain(fmt, t) for t in (main, inc, inc2)):
        return
    codec = cc.ConfigFormat.get(fmt)
    probe = root()
    try:
        docs = {"main": codec.dumps(probe, main), "inc": codec.dumps(probe, inc), "inc2": codec.dumps(probe, inc2)}
    except Exception:
        return
    for name, doc in docs.items():
        with open(os.path.join(d, name + "." + fmt), "wb") as fp:
            fp.write(doc)
    mainfile = os.path.join(d, "main." + fmt)

    def load_into(cfg):
        if rng.random() < 0.5:
            cfg.load(mainfile, fmt)
        else:
            cfg.loads(docs["main"], fmt)

    a, b = root(), root()
    try:
        load_into(a)
        load_into(b)
    except Exception as exc:
        res.count("same_document_load_failed")
        return
    res.count("same_document_loads")
    fp0 = fingerprint(cc, root)
    b0 = Snapshot(b)
    applied = 0
    # loads that fail in the include step (by file and by string): whatever the load set up on the way must be undone
    for how in ("load", "loads"):
        bad = {"inc": rng.choice(["missing-include." + fmt, os.path.join(d, "nowhere", "x." + fmt)]), "name": "n-bad",
               "sub": {"inc2": "also-missing." + fmt}}
        if not trees.in_domain(fmt, bad):
            continue
        try:
            blob = codec.dumps(probe, bad)
            badfile = os.path.join(d, "badmain." + fmt)
            with open(badfile, "wb") as fp:
                fp.write(blob)
            if how == "load":
                a.load(badfile, fmt)
            else:
                a.loads(blob, fmt)
            res.count("failing_include_load_did_not_fail")
        except Exception:
            res.count("failed_include_loads")
        diff = fp_diff(fp0, fingerprint(cc, root))
        if diff:
            res.viol("M-twin", "same-document:schema-after-failed-include", "a %s() whose include file is missing changed the schema: %s" % (how, diff))
            return
        diff = b0.diff(Snapshot(b))
        if diff:
            res.viol("M-twin", "same-document:twin-after-failed-include", "a failed %s() on a changed configuration b: %s" % (how, "; ".join(diff[:3])))
            return
    for idx in range(case["n"]):
        conts = []
        _containers(cc, a, "", conts)
        if not conts:
            break
        path, c = rng.choice(conts)
        try:
            if isinstance(c, list):
                act = rng.choice(["append", "insert", "pop", "setitem", "clear", "extend"])
                typed_int = path == "nums"
                x = rng.randrange(1000) if typed_int else rng.choice([idx, "m%d" % idx, [idx], {"m": idx}])
                if act == "append":
                    c.append(x)
                elif act == "insert":
                    c.insert(0, x)
                elif act == "extend":
                    c.extend([x, x])
                elif act == "pop" and len(c):
                    c.pop()
                elif act == "setitem" and len(c):
                    c[rng.randrange(len(c))] = x
                elif act == "clear" and rng.random() < 0.3:
                    del c[:]
                else:
                    c.append(x)
            else:
                act = rng.choice(["setitem", "pop", "update", "clear"])
                if act == "setitem":
                    c["m%d" % idx] = rng.choice([idx, [idx], "v"])
                elif act == "pop" and len(c):
                    c.pop(next(iter(c)))
                elif act == "update":
                    c.update({"u%d" % idx: [idx]})
                elif act == "clear" and rng.random() < 0.3:
                    c.clear()
                else:
                    c["m%d" % idx] = idx
        except Exception:
            res.count("same_document_mutations_rejected")
            continue
        applied += 1
        res.count("ops_applied")
        res.count("inplace_mutations")
        res.count("twin_before_checks")
        diff = b0.diff(Snapshot(b))
        if diff:
            res.viol("M-twin", "same-document:twin", "a and b loaded the same %s document; step %d: %s on a.%s changed "
                     "configuration b: %s" % (fmt, idx, act, path, "; ".join(diff[:3])))
            return
        res.count("fingerprint_checks")
        diff = fp_diff(fp0, fingerprint(cc, root))
        if diff:
            res.viol("M-twin", "same-document:schema", "step %d: %s on a.%s changed the schema: %s" % (idx, act, path, diff))
            return
    c = root()
    try:
        load_into(c)
    except Exception as exc:
        res.viol("M-twin", "same-document:reload", "loading the unchanged %s files into a new configuration raised %r "
                 "after in-place changes of another configuration" % (fmt, exc))
        return
    res.count("twin_after_checks")
    diff = b0.diff(Snapshot(c), identity=False)
    if diff:
        res.viol("M-twin", "same-document:twin-after", "a configuration that loads the unchanged %s files after the in-place "
                 "changes of a differs from one that loaded them before: %s" % (fmt, "; ".join(diff[:3])))
        return
    if applied >= 3:
        res.nontrivial("samedoc", case["seed"], case["n"])


def run_k4(case, ctx, res):
    """Known finding K4: a list default that contains configuration *instances*."""
    cc = ctx.cc
    item = cc.Schema()
    item.x = cc.IntField(default=0)
    Item = cc.make_type(item, "K4Item", module="vf_types")
    root = cc.Schema()
    root.items = cc.ListField(Item, default=[Item(x=5)])
    a, b = root(), root()
    a.items[0].x = 99
    res.count("ops_applied")
    if b.items[0].x != 5 or a.items[0] is b.items[0]:
        res.viol("M-twin", "default-holds-config-instance", "ListField(Item, default=[Item(x=5)]): a.items[0].x = 99 is visible "
                 "through b (b.items[0].x == %r; same object: %s)" % (b.items[0].x, a.items[0] is b.items[0]))


def run_k8(case, ctx, res):
    """Known finding K8: dict items of a list-of-schema default whose values are untyped containers."""
    cc = ctx.cc
    item = cc.Schema()
    item.tags = cc.ListField()
    root = cc.Schema()
    root.items = cc.ListField(item, default=[{"tags": [1, 2]}])
    a, b = root(), root()
    a.items[0].tags.append(3)
    res.count("ops_applied")
    dflt = root.items.default
    if b.items[0].tags != [1, 2] or dflt != [{"tags": [1, 2]}]:
        res.viol("M-twin", "default-item-holds-untyped-container", "ListField(item, default=[{'tags': [1, 2]}]) with an untyped "
                 "`tags` list: a.items[0].tags.append(3) is visible through b (%r) and in the schema default (%r)" % (
                     b.items[0].tags, dflt))
