"""C20 - generated type stubs are valid Python that declares every field and method."""
import ast
import inspect
import os
import sys
import keyword
import tempfile
import unicodedata

from .. import gen, model, spec
from ..common import Snapshot
from . import c13

PLAN = {
    "quick": {"shards": 8, "cases": 1000, "min_nontrivial": 4000, "budget_s": 300},
    "thorough": {"shards": 16, "cases": 30000, "min_nontrivial": 168000, "budget_s": 1500},
}
RULE = ("schemas over every field family including nested schemas, config-type fields, lists/dicts of typed items, "
        "virtual fields, application-mode helpers and instance methods generated from source text with every "
        "parameter kind (positional, defaulted, *args, keyword-only with and without *args, **kwargs, annotated with "
        "classes / typing generics / strings / None or not, with or without return annotation); the stub is generated "
        "for the schema, a configuration and a config type; checks: ast.parse succeeds, exactly one class with the "
        "requested name, annotated attributes == all non-method fields (virtual included), __init__ parameters == self "
        "+ the persistent fields, every method's positional names / *name / keyword-only names / **name equal those of "
        "inspect.signature(function) minus its first parameter, nothing is written to stdout (captured at file-"
        "descriptor level and through sys.stdout), schema fingerprint and configuration snapshot unchanged; "
        "non-trivial = >= 3 fields and (>= 1 method or virtual field or nested part); distinct = distinct schema")
REQUIRED = ("class_names_with_non_ascii_letters", "class_names_beginning_with_non_ascii_letter",
            "methods_without_a_named_first_parameter", "methods_called_as_the_stub_declares", "fields_registered_under_a_second_name", "fields_also_used_by_another_schema", "methods_with_percent_in_annotations", "methods_registered_twice_compared", "input:nested-configtype", "decorated_methods_compared", "virtual_getters_with_string_annotations", "schemas_with_soft_keyword_names", "calls_without_class_name", "schemas_with_long_declaration", "input:nested-schema", "input:nested-config", "bare:empty", "bare:virtual", "bare:methods", "bare:both", "repeat_generations_compared", "dynamic_config_with_adhoc_field", "stubs_parsed", "attribute_sets_compared", "init_signatures_compared", "method_signatures_compared",
            "stdout_captures", "side_effect_checks", "input:schema", "input:config", "input:configtype",
            "methods_with_return_annotation", "schemas_with_configtype_field")
ASSUMPTIONS = ["positional-only parameters are not generated",
               "parameter annotations are classes, typing constructs, strings or None; an annotation that is some other object "
               "(a tuple, a number) makes the generator raise TypeError('Unknown storage_type') - not a type, not judged; a RETURN "
               "annotation of that kind is left out of the stub, which is judged like any other"]
ANNOTATIONS = ["", "", ": int", ": str", ": float", ": typing.Optional[int]", ": typing.List[str]", ": 'Config'", ": None",
               ": typing.Dict[str, typing.Any]", ": bool", ": LocalCls", ": Outer", ": Outer.Inner", ": bytes",
               # annotations whose text carries characters that mean something to string formatting
               ": int | None", ": list[int]", ": dict[str, int]", ": typing.LiteralString", ": typing.Any", ": typing.Hashable", ": typing.Literal['50%', '100%']", ": 'typing.Literal[\"%s\"]'", ": typing.Literal['{0}', '%(n)d']"]
RETURNS = ["", "", " -> int", " -> str", " -> None", " -> typing.List[int]", " -> 'Config'", " -> typing.Optional[str]", " -> bool",
           " -> LocalCls", " -> Outer.Inner", " -> typing.Literal['%d%%']", " -> [int]", " -> (int, str)", " -> int | None", " -> list[str]", " -> typing.NoReturn", " -> typing.Self", " -> 'typing.Literal[\"{}\", \"%\"]'"]

# letters a class name may begin with / continue with: every one is a legal start of a Python identifier (str.isidentifier)
NAME_INITIALS = ["\u00dc", "\u00c9", "\u00e9", "\u00d8", "\u00f1", "\u0141", "\u041a", "\u0436", "\u0394", "\u03bb", "\u8a2d", "\u5b9a",
                 "\u05d0", "\u0639", "\u30ab", "\ud55c", "\u00aa", "\u00b5", "\ufb01", "\u2167", "\u1e9e"]
NAME_TAILS = ["berwachung", "v\u00e9nement", "\u043b\u044e\u0447", "\u5b9a", "Config", "_cfg2", "", "\u00f6\u00dfe", "x\u0301", "9", "_", "\u0660\u0661"]


def gen_class_name(rng):
    """A legal class name that is not plain ASCII: begins with a non-ASCII letter (mostly), or carries one further on."""
    for _ in range(20):
        if rng.random() < 0.75:
            name = rng.choice(NAME_INITIALS) + rng.choice(NAME_TAILS)
        else:
            name = rng.choice(["Gr", "_", "C", "T1_", "__"]) + rng.choice([t for t in NAME_TAILS if not t.isascii()])
        if name.isidentifier() and not keyword.iskeyword(name) and not keyword.iskeyword(unicodedata.normalize("NFKC", name)):
            return name
    return "\u00dcberwachung"


def gen_method(rng, key):
    names = ["alpha", "b", "count", "d_e", "flag", "g7", "items", "opts"]
    rng.shuffle(names)
    npos = rng.choice([0, 0, 1, 2, 3])
    parts = ["cfg" + rng.choice(["", ": 'Config'", ""])]
    have_default = False
    for _ in range(npos):
        n = names.pop()
        ann = rng.choice(ANNOTATIONS)
        if have_default or rng.random() < 0.4:
            have_default = True
            parts.append("%s%s%s" % (n, ann, " = None" if ann else "=None"))
        else:
            parts.append("%s%s" % (n, ann))
    star = rng.choice([None, None, "args", "rest"])
    nkw = rng.choice([0, 0, 1, 2])
    if star:
        parts.append("*" + star)
    elif nkw:
        parts.append("*")
    for _ in range(nkw):
        n = names.pop()
        ann = rng.choice(ANNOTATIONS)
        parts.append("%s%s%s" % (n, ann, rng.choice(["", " = 1" if ann else "=1"])))
    if rng.random() < 0.3:
        parts.append("**" + rng.choice(["kwargs", "extra"]))
    ret = rng.choice(RETURNS)
    if rng.random() < 0.08:
        # no named first parameter at all: the configuration arrives as the first of *args (the usual shape of a wrapper)
        parts = [rng.choice(["*args", "*args", "*items"])] + rng.choice([[], [], ["retries=3"], ["flag: bool = False", "n"]]) + (
            ["**kwargs"] if rng.random() < 0.7 else [])
    src = "def f(%s)%s:\n    return None\n" % (", ".join(parts), ret)
    if rng.random() < 0.15:
        # a decorated function: what is bound (and called) is the wrapper, whose parameters differ from the wrapped one's
        src = ("import functools\n" + src.replace("def f(", "def _inner(", 1) +
               "def _deco(fn):\n    @functools.wraps(fn)\n    def wrapper(cfg, *items, retries=3, **options):\n        return None\n"
               "    return wrapper\nf = _deco(_inner)\n")
        return {"kind": "field", "key": key, "family": "method", "params": {"source": src, "fname": "f", "ret": bool(ret), "wrapped": True}}
    return {"kind": "field", "key": key, "family": "method", "params": {"source": src, "fname": "f", "ret": bool(ret)}}


def generate(rng, ctx):
    depth = rng.choice([0, 1, 2])
    schema = gen.gen_schema(rng, depth=depth, width=rng.choice([2, 4, 6]), defaults=0.3, ctypes=rng.random() < 0.5,
                            dynamic=0.3)
    # schemas without any persistent field: empty, only virtual fields, only methods, both
    bare = rng.choice(["empty", "virtual", "methods", "both"]) if rng.random() < 0.12 else None
    if bare:
        schema["fields"] = []
    extra = gen.pick_keys(rng, 10, avoid={ch["key"] for ch in schema["fields"]})
    for _ in range(rng.choice([0, 1, 2]) if not bare else {"empty": 0, "virtual": 2, "methods": 0, "both": 1}[bare]):
        schema["fields"].insert(rng.randrange(len(schema["fields"]) + 1),
                                {"kind": "field", "key": extra.pop(), "family": "virtual",
                                 "params": {"returns": "v", "setter": rng.random() < 0.3,
                                            # a getter written as a def with a return annotation that cannot be resolved at run
                                            # time (a name imported under TYPE_CHECKING only), or that can
                                            "ret_annotation": rng.choice([None, None, "'Decimal'", "'os.PathLike[str]'", "int", "'NoSuchType'"])}})
    for _ in range(rng.choice([0, 1, 2, 3]) if not bare else {"empty": 0, "virtual": 0, "methods": 2, "both": 1}[bare]):
        schema["fields"].insert(rng.randrange(len(schema["fields"]) + 1), gen_method(rng, extra.pop()))
    if rng.random() < 0.2 and not bare:
        # names that are soft keywords of the language are ordinary attribute / parameter / method names
        soft = [k for k in ("type", "match", "case") if all(ch["key"] != k for ch in schema["fields"])]
        rng.shuffle(soft)
        if soft:
            schema["fields"].append({"kind": "field", "key": soft.pop(), "family": rng.choice(["int", "str", "bool"]), "params": {}})
        if soft and rng.random() < 0.6:
            schema["fields"].append({"kind": "field", "key": soft.pop(), "family": "virtual", "params": {"returns": "v"}})
        if soft and rng.random() < 0.6:
            schema["fields"].append(gen_method(rng, soft.pop()))
        schema["soft_keyword_names"] = True
    if rng.random() < 0.15 and not bare:
        # one very long declaration: a long field name, or lists of lists of lists
        if rng.random() < 0.5:
            schema["fields"].append({"kind": "field", "key": "a_rather_long_field_name_" * 4 + "x", "family": rng.choice(["int", "str", "challenge"]),
                                     "params": {}})
        else:
            inner = {"kind": "field", "family": rng.choice(["challenge", "ipv4", "secure"]), "params": {}}
            for _ in range(rng.choice([3, 4, 5])):
                inner = {"kind": "field", "family": "list", "params": {}, "item": inner}
            schema["fields"].append(dict(inner, key=extra.pop()))
        schema["long_declaration"] = True
    meths = [ch for ch in schema["fields"] if ch["kind"] == "field" and ch["family"] == "method" and not ch["params"].get("wrapped")]
    if meths and extra and rng.random() < 0.3:
        # stacked decorators: one function registered under a second name through what the first decoration returned
        first = rng.choice(meths)
        schema["fields"].append({"kind": "field", "key": extra.pop(), "family": "method",
                                 "params": dict(first["params"], reuse_of=first["key"])})
    if rng.random() < 0.3 and not bare:
        modes = rng.choice([["development", "production"], ["a", "b"], ["test_1", "stage"]])
        schema["fields"].append({"kind": "field", "key": extra.pop(), "family": "appmode",
                                 "params": {"modes": modes, "create_helpers": True}})
    alias = None
    plain = [ch["key"] for ch in schema["fields"] if ch["kind"] == "field" and ch["family"] not in ("method", "appmode", "include")]
    if plain and extra and rng.random() < 0.25:
        # one field object under two names: a second spelling in the same schema, or the object re-used by another schema
        alias = {"mode": rng.choice(["same-schema", "other-schema"]), "of": rng.choice(plain), "key": extra.pop()}
    case = {"schema": schema, "bare": bare, "alias": alias, "name": rng.choice(["AppConfig", "Cfg", "T", "My_Config2"]),
            "as": rng.choice(["schema", "config", "configtype", "nested-schema", "nested-config", "nested-configtype"]),
            "pick": rng.randrange(8)}
    if rng.random() < 0.15:
        # class names are identifiers of the language, not of ASCII: letters of other scripts, also as the first character
        case["name"] = gen_class_name(rng)
    return case


def abbreviate(case):
    return case


class Capture:
    """stdout at file-descriptor level and through sys.stdout."""

    def __enter__(self):
        sys.stdout.flush()
        self.saved_fd = os.dup(1)
        self.tmp = tempfile.TemporaryFile()
        os.dup2(self.tmp.fileno(), 1)
        self.saved_obj = sys.stdout
        import io

        self.buf = io.StringIO()
        sys.stdout = self.buf
        return self

    def __exit__(self, *exc):
        sys.stdout = self.saved_obj
        os.dup2(self.saved_fd, 1)
        os.close(self.saved_fd)
        self.tmp.seek(0)
        self.fd_bytes = self.tmp.read()
        self.tmp.close()
        self.text = self.buf.getvalue()
        return False


def expected_fields(root):
    """(attribute keys, constructor keys, method nodes) a stub of this schema node must declare."""
    attrs, init, methods = [], [], []
    for ch in model.fields_of(root)["fields"]:
        if ch["kind"] == "field" and ch["family"] == "method":
            methods.append(ch)
            continue
        attrs.append(ch["key"])
        if not (ch["kind"] == "field" and ch["family"] == "virtual"):
            init.append(ch["key"])
        if ch["kind"] == "field" and ch["family"] == "appmode" and ch["params"].get("create_helpers", True):
            for m in ch["params"].get("modes") or model.APPMODES:
                attrs.append("is_%s_mode" % m)
    return attrs, init, methods


def run(case, ctx, res):
    cc = ctx.cc
    root = spec.resolve(case["schema"], {"$FX": ctx.sb.fx})
    built = spec.build(cc, root)
    spec_root = root
    schema = built.schema
    name = case["name"]
    # the parser spells identifiers in NFKC (PEP 3131): that spelling is the class's name in the parsed stub
    parsed_name = unicodedata.normalize("NFKC", name)
    if not name.isascii():
        res.count("class_names_with_non_ascii_letters")
        if not name[0].isascii():
            res.count("class_names_beginning_with_non_ascii_letter")
        if parsed_name != name:
            res.count("class_names_the_parser_normalises")
    res.count("input:" + case["as"])
    if case.get("bare"):
        res.count("bare:" + case["bare"])
    if case["schema"].get("long_declaration"):
        res.count("schemas_with_long_declaration")
    if case["schema"].get("soft_keyword_names"):
        res.count("schemas_with_soft_keyword_names")
    if any(ch["kind"] == "field" and ch["family"] == "virtual" and str(ch["params"].get("ret_annotation") or "").startswith("'")
           for ch in case["schema"]["fields"]):
        res.count("virtual_getters_with_string_annotations")
    alias = case.get("alias")
    if alias and case["as"] in ("schema", "config", "configtype"):
        fld = schema._fields[alias["of"]]
        if alias["mode"] == "same-schema":
            setattr(schema, alias["key"], fld)
            src = next(ch for ch in root["fields"] if ch["key"] == alias["of"])
            root["fields"].append(dict(src, key=alias["key"]))
            res.count("fields_registered_under_a_second_name")
        else:
            other = cc.Schema()
            setattr(other, alias["key"], fld)
            res.count("fields_also_used_by_another_schema")
    cfg = schema()
    if root.get("dynamic"):
        # fields added on the fly to a dynamic configuration stay with that configuration
        try:
            cfg.adhoc_extra = 5
            res.count("dynamic_config_with_adhoc_field")
        except Exception:
            pass
    if case["as"] == "nested-configtype":
        # a configuration type made from a SECTION of the schema; the section gets another field afterwards
        subs = [ch for ch in root["fields"] if ch["kind"] == "schema"]
        if subs:
            sub = subs[case.get("pick", 0) % len(subs)]
            section = getattr(schema, sub["key"])
            target, kw = cc.make_type(section, name, module="vf_types"), {}
            if all(ch["key"] != "late_member" for ch in sub["fields"]):
                section.late_member = cc.IntField(default=3)
                sub["fields"].append({"kind": "field", "key": "late_member", "family": "int", "params": {"default": 3}})
            root = sub
            res.count("input:nested-configtype")
        else:
            target, kw = cc.make_type(schema, name, module="vf_types"), {}
    elif case["as"] in ("nested-schema", "nested-config"):
        # a schema / configuration that is itself a section of another one: the stub is about the section
        subs = [ch for ch in root["fields"] if ch["kind"] == "schema"]
        if subs:
            sub = subs[case.get("pick", 0) % len(subs)]
            target = getattr(schema, sub["key"]) if case["as"] == "nested-schema" else getattr(cfg, sub["key"])
            kw = {"class_name": name}
            root = sub
            res.count("input:" + case["as"])
        else:
            target, kw = schema, {"class_name": name}
    elif case["as"] == "schema":
        target, kw = schema, {"class_name": name}
    elif case["as"] == "config":
        target, kw = cfg, {"class_name": name}
    else:
        target, kw = cc.make_type(schema, name, module="vf_types"), {}
    holder_cfg = cfg
    if root is not spec_root:
        try:
            holder_cfg = getattr(cfg, root["key"])
        except Exception:
            holder_cfg = None
    has_ctype = any(ch["kind"] == "ctype" for ch in root["fields"])
    if has_ctype:
        res.count("schemas_with_configtype_field")
    attrs, init, methods = expected_fields(root)
    if any(m["params"]["ret"] for m in methods):
        res.count("methods_with_return_annotation")
    fp0 = c13.fingerprint(cc, schema)
    try:
        snap0 = Snapshot(cfg)
    except AttributeError:
        # a field object under two names leaves a configuration that cannot be walked (the library keeps its value under the
        # latest name only); the stub is still judged, the configuration comparison is left out
        if not alias:
            raise
        snap0 = None
        res.count("alias_cases_without_configuration_comparison")
    if case["as"] not in ("configtype", "nested-configtype"):
        # a call that is rejected (no class name for a schema / configuration) has no side effect either
        with Capture() as cap0:
            try:
                cc.generate_stub(target)
                rejected = None
            except Exception as exc:
                rejected = exc
        res.count("calls_without_class_name")
        if rejected is not None and not isinstance(rejected, TypeError):
            res.viol("M-stub", "no-class-name:wrong-error", "generate_stub without a class name raised %r" % (rejected,))
            return
        d = c13.fp_diff(fp0, c13.fingerprint(cc, schema))
        if d:
            res.viol("M-stub", "changes-schema:rejected-call", "a generate_stub call without a class name (%s) changed the schema: %s" % (
                "rejected with %r" % rejected if rejected else "accepted", d))
            return
        d = snap0.diff(Snapshot(cfg)) if snap0 is not None else []
        if d or cap0.text or cap0.fd_bytes:
            res.viol("M-stub", "changes-config:rejected-call", "a generate_stub call without a class name changed the configuration or "
                     "wrote to standard output: %s" % ("; ".join(d[:3]) or cap0.text or cap0.fd_bytes))
            return
    feat = "ctype-field" if has_ctype else ("ret-annotation" if any(m["params"]["ret"] for m in methods) else "plain")
    with Capture() as cap:
        try:
            stub = cc.generate_stub(target, **kw)
            err = None
        except Exception as exc:
            stub, err = None, exc
    res.count("stdout_captures")
    if err is None:
        # generating again (same schema, same function objects) must give the same text
        with Capture() as cap2:
            try:
                again = cc.generate_stub(target, **kw)
                err2 = None
            except Exception as exc:
                again, err2 = None, exc
        res.count("repeat_generations_compared")
        if err2 is not None or again != stub or cap2.text or cap2.fd_bytes:
            res.viol("M-stub", "second-generation-differs", "generating the stub a second time %s" % (
                "raised %r" % err2 if err2 else "gave different text: %r vs %r" % (_firstdiff(stub, again))))
            return
    if err is not None:
        res.viol("M-stub", "raises:" + feat, "generate_stub(%s) raised %s: %s" % (case["as"], type(err).__name__, str(err)[:200]))
        return
    if cap.text or cap.fd_bytes:
        res.viol("M-stub", "writes-to-stdout:" + feat, "generate_stub wrote to standard output: %r" % ((cap.text or cap.fd_bytes.decode(errors="replace"))[:200],))
        return
    res.count("side_effect_checks")
    d = c13.fp_diff(fp0, c13.fingerprint(cc, schema))
    if d:
        res.viol("M-stub", "changes-schema", "generate_stub changed the schema: %s" % d)
        return
    d = snap0.diff(Snapshot(cfg)) if snap0 is not None else []
    if d:
        res.viol("M-stub", "changes-config", "generate_stub changed the configuration: %s" % "; ".join(d[:3]))
        return
    if not isinstance(stub, str):
        res.viol("M-stub", "not-text", "generate_stub returned %s" % type(stub).__name__)
        return
    try:
        tree = ast.parse(stub)
    except SyntaxError as exc:
        res.viol("M-stub", "syntax-error:" + feat, "stub is not valid Python (%s at line %s): %r" % (exc.msg, exc.lineno, (exc.text or "")[:150]))
        return
    res.count("stubs_parsed")
    classes = [n for n in tree.body if isinstance(n, ast.ClassDef)]
    if len(classes) != 1 or classes[0].name != parsed_name:
        res.viol("M-stub", "class", "stub declares classes %r, expected exactly one named %r" % ([c.name for c in classes], parsed_name))
        return
    body = classes[0].body
    got_attrs = [n.target.id for n in body if isinstance(n, ast.AnnAssign) and isinstance(n.target, ast.Name)]
    res.count("attribute_sets_compared")
    if sorted(got_attrs) != sorted(attrs):
        missing = sorted(set(attrs) - set(got_attrs))
        extra = sorted(set(got_attrs) - set(attrs))
        kind = "virtual" if any(_is_virtual(root, k) for k in missing) else "field"
        res.viol("M-stub", "attributes:" + kind, "annotated attributes differ from the fields: missing %r, unexpected %r" % (missing, extra))
        return
    funcs = {n.name: n for n in body if isinstance(n, ast.FunctionDef)}
    res.count("init_signatures_compared")
    ini = funcs.get("__init__")
    if ini is None:
        res.viol("M-stub", "init-missing", "stub has no __init__")
        return
    got_init = [a.arg for a in ini.args.args]
    if got_init[:1] != ["self"] or sorted(got_init[1:]) != sorted(init) or ini.args.vararg or ini.args.kwonlyargs or ini.args.kwarg:
        res.viol("M-stub", "init-params", "__init__(%s) but the persistent fields are %r" % (", ".join(got_init), init))
        return
    for m in methods:
        res.count("method_signatures_compared")
        fn = funcs.get(m["key"])
        if fn is None:
            res.viol("M-stub", "method-missing", "stub has no method %r (has %r)" % (m["key"], sorted(funcs)))
            return
        glb = {"typing": __import__("typing"), "Outer": spec.Outer, "LocalCls": spec.LOCAL_CLS}
        exec(m["params"]["source"], glb)  # noqa: S102
        sig = inspect.signature(glb["f"], follow_wrapped=False)
        if m["params"].get("wrapped"):
            res.count("decorated_methods_compared")
        if "%" in m["params"]["source"]:
            res.count("methods_with_percent_in_annotations")
        if m["params"].get("reuse_of"):
            res.count("methods_registered_twice_compared")
        params = list(sig.parameters.values())
        if params and params[0].kind != params[0].VAR_POSITIONAL:
            params = params[1:]  # the configuration's slot; a leading *args keeps taking the other positional arguments
        else:
            res.count("methods_without_a_named_first_parameter")
        want = {
            "pos": [p.name for p in params if p.kind == p.POSITIONAL_OR_KEYWORD],
            "star": next((p.name for p in params if p.kind == p.VAR_POSITIONAL), None),
            "kwonly": [p.name for p in params if p.kind == p.KEYWORD_ONLY],
            "kw": next((p.name for p in params if p.kind == p.VAR_KEYWORD), None),
        }
        got = {
            "pos": [a.arg for a in fn.args.args][1:],
            "star": fn.args.vararg.arg if fn.args.vararg else None,
            "kwonly": [a.arg for a in fn.args.kwonlyargs],
            "kw": fn.args.kwarg.arg if fn.args.kwarg else None,
        }
        # ... and a call written after the stub reaches the bound function (the configuration goes in as first argument)
        if holder_cfg is not None:
            args = [1 for p in params if p.kind == p.POSITIONAL_OR_KEYWORD and p.default is p.empty]
            if want["star"]:
                args += [1 for p in params if p.kind == p.POSITIONAL_OR_KEYWORD and p.default is not p.empty] + [2, 3]
            kwargs = {p.name: 1 for p in params if p.kind == p.KEYWORD_ONLY and p.default is p.empty}
            if want["kw"]:
                kwargs["zz_extra"] = 1
            try:
                out = getattr(holder_cfg, m["key"])(*args, **kwargs)
                res.count("methods_called_as_the_stub_declares")
            except Exception as exc:
                res.viol("M-stub", "method-call", "calling %s(*%r, **%r) as the stub declares it raised %r" % (m["key"], args, kwargs, exc))
                return
            if out is not None:
                res.viol("M-stub", "method-call", "calling %s returned %r, the function returns None" % (m["key"], out))
                return
        if [a.arg for a in fn.args.args][:1] != ["self"] or got != want or fn.args.posonlyargs:
            which = next((k for k in ("pos", "star", "kwonly", "kw") if got[k] != want[k]), "self")
            res.viol("M-stub", "method-signature:" + which, "method %s: stub declares %r, the function %r has %r" % (
                m["key"], got, m["params"]["source"].splitlines()[0], want))
            return
    extra_methods = set(funcs) - {"__init__"} - {m["key"] for m in methods}
    if extra_methods:
        res.viol("M-stub", "method-unexpected", "stub declares methods %r that are not instance methods of the schema" % sorted(extra_methods))
        return
    if len(attrs) >= 3 and (methods or len(attrs) != len(init) or any(ch["kind"] != "field" for ch in root["fields"])):
        res.nontrivial(case["schema"], case["as"])


def _firstdiff(a, b):
    la, lb = (a or "").splitlines(), (b or "").splitlines()
    for x, y in zip(la, lb):
        if x != y:
            return x[:200], y[:200]
    return "%d lines" % len(la), "%d lines" % len(lb)


def _is_virtual(root, key):
    for ch in root["fields"]:
        if ch["key"] == key:
            return ch["kind"] == "field" and ch["family"] == "virtual"
    return key.startswith("is_") and key.endswith("_mode")
