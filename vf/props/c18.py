"""C18 - including files is a deep merge in the including scope, included values win."""
import copy
import os

from .. import trees
from ..common import Snapshot, eqstar, weighted

PLAN = {
    "quick": {"shards": 8, "cases": 1500, "min_nontrivial": 6000, "budget_s": 300},
    "thorough": {"shards": 16, "cases": 30000, "min_nontrivial": 168000, "budget_s": 1500},
}
RULE = ("(A) pairs of plain trees with overlapping and disjoint keys at depth <= 4 and map/non-map conflicts: "
        "combine_trees(b, c) against an independent recursive merge (child wins, maps merge, one-sided keys kept), both "
        "inputs compared with deep copies afterwards; (B) real files: a schema with include fields at the root (one or "
        "two: chains in one scope) and in nested schemas at depth 1-2, holders (untyped dict fields, dynamic schemas) "
        "for arbitrary subtrees, documents and include files written in each of the 5 formats, relative / absolute / "
        "missing / directory include paths with and without a start directory: the state after Config.load(s) must "
        "equal load_tree(model-merged tree) into a fresh configuration, and unresolved includes must fail; "
        "non-trivial = merge pair with an overlapping key, or a file case with >= 1 include processed; distinct = "
        "distinct case content")
REQUIRED = ("file_cases_include_in_a_switched_off_feature", "yaml_documents_with_aliased_include_scope", "file_cases_include_inside_a_config_type", "file_cases_first_include_field_declared_again_last", "file_cases_start_directory_is_the_file_system_root", "file_cases_denormalised_absolute_names", "file_cases_include_fields_with_friendly_names", "include_field_declared_after_first_use", "file_cases_same_file_included_twice_in_scope", "file_cases_env_bound_include_fields", "file_cases_tilde_below_startdir", "file_cases_with_format_options", "reloads_after_include_files_rewritten", "startdir_form:rel", "startdir_form:home", "nested_schema_declared_before_includes", "merge_pairs_compared", "merge_purity_checks", "file_cases_compared", "file_cases_nested_include",
            "file_cases_chain", "file_cases_unresolvable_rejected", "file_cases_relative_startdir")
ASSUMPTIONS = ["documents and include files are produced with the library's own codecs (decided by C04)",
               "the merged tree keeps the include key; included files naming an already processed include field of the "
               "same scope are not chased"]
FORMATS = trees.FORMATS


def gen_pair(rng):
    depth = rng.choice([1, 2, 3, 4])
    base = trees.gen_map(rng, depth, [25], odd=0.05, nmin=1)
    child = {}
    # overlap: reuse keys of base with changed values, incl. map/non-map conflicts
    for k, v in base.items():
        r = rng.random()
        if r < 0.35:
            if isinstance(v, dict) and rng.random() < 0.7:
                sub = trees.gen_map(rng, depth - 1, [10], odd=0.0)
                for kk in list(v)[: rng.randrange(0, 3)]:
                    sub[kk] = trees.gen_value(rng, 1, [4])
                child[k] = sub
            elif rng.random() < 0.5:
                child[k] = trees.gen_map(rng, 1, [5], odd=0.0)  # non-map replaced by map / map by map
            else:
                child[k] = trees.gen_leaf(rng)
    for _ in range(rng.choice([0, 1, 2])):
        child[trees.gen_key(rng, 0.0)] = trees.gen_value(rng, 2, [6])
    return base, child


def generate(rng, ctx):
    if rng.random() < 0.4:
        b, c = gen_pair(rng)
        return {"kind": "merge", "base": b, "child": c}
    fmt = rng.choice(FORMATS)

    def holder():
        for _ in range(20):
            t = trees.gen_map(rng, rng.choice([1, 2, 3]), [12], odd=0.0)
            if trees.in_domain(fmt, t):
                return t
        return {"k0": 1}

    def scope(extra=()):
        t = {}
        if rng.random() < 0.6:
            t["a"] = rng.randrange(-5, 100)
        if rng.random() < 0.6:
            t["b"] = rng.choice(["x", "yy", "hello", ""])
        if rng.random() < 0.7:
            t["data"] = holder()
        if rng.random() < 0.3:
            t["lst"] = [rng.randrange(9) for _ in range(rng.randrange(0, 4))]
        return t

    # layout
    layout = {"root_inc": rng.choice([0, 1, 1, 2]), "sub_inc": rng.random() < 0.6, "deep_inc": rng.random() < 0.4,
              "startdir_root": rng.choice([None, "inc"]), "startdir_sub": rng.choice([None, "inc", "other"]),
              "dynamic_sub": rng.random() < 0.3,
              # the schema has an environment prefix and the variables of some include fields name an existing decoy file
              "env_inc": rng.random() < 0.2, "named_inc": rng.random() < 0.35, "root_startdir_probe": rng.random() < 0.12, "ctype_include_probe": rng.random() < 0.12, "redeclare_first": rng.random() < 0.25,
              # the nested schema may be declared before the scope's own include fields; start directories may be given
              # absolute, relative to the working directory at load time, or relative to the home directory
              "sub_first": rng.random() < 0.5, "startdir_form": rng.choice(["abs", "abs", "rel", "home"]),
              # the nested scope is a feature that is switched off until a document switches it on: its includes count all the same
              "sub_flag": rng.random() < 0.3}
    files = {}  # relative file name -> tree

    def inc_target(name, startdir, treefn, sub=None):
        """value for an include key + the file it names"""
        how = weighted(rng, [(6, "rel"), (3, "abs"), (1.2, "missing"), (0.8, "dir"), (0.8, "denorm")])
        d = startdir or "."
        tree = treefn()
        if how == "missing":
            return "nope_%s.cfg" % name, how
        if how == "dir":
            return "$DIR/inc", how
        fname = "%s.cfg" % name
        if how == "denorm":
            # an absolute name that only a textual clean-up would resolve: through a directory that does not exist, or with
            # a trailing slash behind a regular file (the file itself is there)
            files[os.path.normpath(os.path.join(d, fname))] = tree
            return rng.choice([os.path.join("$DIR", d, "no-such-dir", "..", fname), os.path.join("$DIR", d, fname) + "/",
                               os.path.join("$DIR", d, fname, "..", fname)]), how
        if how == "rel" and startdir and rng.random() < 0.3:
            fname = "~/" + fname  # below a start directory "~" is an ordinary directory name
            layout["tilde_names"] = True
        files[os.path.normpath(os.path.join(d, fname))] = tree
        if how == "rel":
            return fname, how
        return os.path.join("$DIR", d, fname), how

    kinds = []
    doc = scope()
    sub_scope = lambda: dict(scope(), **({"dyn_extra": rng.randrange(5)} if layout["dynamic_sub"] and rng.random() < 0.5 else {}))  # noqa: E731

    def root_file():
        t = scope()
        if rng.random() < 0.5:
            t["sub"] = sub_scope()
            if layout["sub_inc"] and rng.random() < 0.5:
                # the file included at the root names the include file of the nested scope
                v, how = inc_target("s1", layout["startdir_sub"], sub_scope)
                t["sub"]["inc"] = v
                kinds.append(how)
        return t

    if layout["root_inc"] >= 1:
        v, how = inc_target("r0", layout["startdir_root"], root_file)
        doc["inc0"] = v
        kinds.append(how)
    if layout["root_inc"] >= 2:
        # chain in one scope: the second include may be named by the document or by the first included file
        v, how = inc_target("r1", None, root_file)
        kinds.append(how)
        first = [k for k in files if k.endswith("r0.cfg")]
        if first and rng.random() < 0.5:
            files[first[0]]["inc1"] = v
        else:
            doc["inc1"] = v
    if layout["root_inc"] >= 2 and isinstance(doc.get("inc0"), str) and isinstance(doc.get("inc1"), str) and rng.random() < 0.5 and (
            layout["startdir_root"] is None or doc["inc0"].startswith("$DIR")):
        # a third include field of the scope names the very file of the first one again: it is merged again, over the second
        doc["inc2"] = doc["inc0"]
        kinds.append("again")
    layout["late_inc1"] = layout["root_inc"] >= 2 and rng.random() < 0.3
    if rng.random() < 0.8 or layout["sub_inc"]:
        doc["sub"] = sub_scope()
        if layout["sub_inc"]:
            v, how = inc_target("s0", layout["startdir_sub"], sub_scope)
            doc["sub"]["inc"] = v
            kinds.append(how)
        if layout["deep_inc"]:
            doc["sub"]["deep"] = {"z": rng.randrange(50), "data": holder()}
            v, how = inc_target("d0", None, lambda: {"z": rng.randrange(50, 99), "data": holder()})
            doc["sub"]["deep"]["inc"] = v
            kinds.append(how)
    if layout["sub_flag"] and "sub" in doc and rng.random() < 0.6:
        doc["sub"]["enabled"] = True
    return {"kind": "files", "fmt": fmt, "layout": layout, "doc": doc, "files": files, "inc_kinds": kinds,
            "use_load": rng.random() < 0.5,
            # format options given to load()/loads(): the included files are written and must be read with them too
            "opts": rng.choice(trees.OPTIONS[fmt]) if rng.random() < 0.5 else {},
            # the include files are rewritten and everything is loaded again into a new configuration of the same schema
            "reload_after_rewrite": rng.random() < 0.5}


def abbreviate(case):
    return case


def run(case, ctx, res):
    if case["kind"] == "merge":
        return run_merge(case, ctx, res)
    return run_files(case, ctx, res)


def run_merge(case, ctx, res):
    cc = ctx.cc
    base, child = case["base"], case["child"]
    b0, c0 = copy.deepcopy(base), copy.deepcopy(child)
    field = cc.IncludeField()
    got = field.combine_trees(base, child)
    want = trees.merge(b0, c0)
    res.count("merge_pairs_compared")
    if not eqstar(got, want):
        d = trees.first_difference(want, got)
        res.viol("M-merge", "combine:" + d[1], "combine_trees(%r, %r): at %s %s" % (b0, c0, d[0], d[2]))
        return
    res.count("merge_purity_checks")
    if not eqstar(base, b0, zero_sign=True) or not eqstar(child, c0, zero_sign=True):
        which = "base" if not eqstar(base, b0, zero_sign=True) else "child"
        res.viol("M-merge", "combine:mutates-" + which, "combine_trees changed its %s argument: %r -> %r" % (
            which, b0 if which == "base" else c0, base if which == "base" else child))
        return
    # mutating the result must not reach the inputs either (no shared nested maps that were merged)
    _scribble(got)
    if not eqstar(base, b0, zero_sign=True) or not eqstar(child, c0, zero_sign=True):
        res.count("result_shares_unmerged_subtrees")  # allowed: only *merged* maps must be fresh; not judged
    if set(base) & set(child):
        res.nontrivial("merge", b0, c0)


def _scribble(t):
    if isinstance(t, dict):
        for v in list(t.values()):
            _scribble(v)


def _startdir(layout, d, name):
    """The start directory as the schema declares it, in the requested form."""
    if not name:
        return None
    form = layout.get("startdir_form", "abs")
    if form == "rel":
        return name  # resolved against the working directory when the document is loaded
    if form == "home":
        return os.path.join("~", "c18-" + os.path.basename(d), name)
    return os.path.join(d, name)


def _real_startdir(layout, d, name):
    """Where that start directory really is."""
    if not name:
        return None
    if layout.get("startdir_form") == "home":
        return os.path.join(os.path.expanduser("~"), "c18-" + os.path.basename(d), name)
    return os.path.join(d, name)


def _schema(cc, layout, d, early=False):
    root = cc.Schema(env="VFC18E") if layout.get("env_inc") else cc.Schema()
    root.a = cc.IntField()
    root.b = cc.StringField()
    root.data = cc.DictField()
    root.lst = cc.ListField()

    def add_includes():
        # (friendly names are for messages; documents name an include by the field's key)
        root.inc0 = cc.IncludeField(startdir=_startdir(layout, d, layout["startdir_root"]), **({"name": "Extra settings file"} if layout.get("named_inc") else {}))
        # (a schema may be edited between two uses: inc1 starts as a plain file name and becomes an include field)
        root.inc1 = cc.FilenameField() if (early and layout.get("late_inc1")) else cc.IncludeField()
        root.inc2 = cc.IncludeField()

    def add_sub():
        root.sub = cc.Schema(dynamic=layout["dynamic_sub"])
        root.sub.a = cc.IntField()
        root.sub.b = cc.StringField()
        root.sub.data = cc.DictField()
        root.sub.lst = cc.ListField()
        if layout.get("sub_flag"):
            root.sub.enabled = cc.FeatureFlagField(default=False)
        if layout.get("sub_first"):
            root.sub.deep.z = cc.IntField()
            root.sub.deep.data = cc.DictField()
            root.sub.deep.inc = cc.IncludeField()
            root.sub.inc = cc.IncludeField(startdir=_startdir(layout, d, layout["startdir_sub"]))
        else:
            root.sub.inc = cc.IncludeField(startdir=_startdir(layout, d, layout["startdir_sub"]), **({"name": "b"} if layout.get("named_inc") else {}))
            root.sub.deep.z = cc.IntField()
            root.sub.deep.data = cc.DictField()
            root.sub.deep.inc = cc.IncludeField()

    if layout.get("sub_first"):
        add_sub()
        add_includes()
    else:
        add_includes()
        add_sub()
    if layout.get("redeclare_first"):
        # the first include field of each scope is declared a second time, identically, after all the others: it keeps its
        # place among the scope's include files
        root.inc0 = cc.IncludeField(startdir=_startdir(layout, d, layout["startdir_root"]), **({"name": "Extra settings file"} if layout.get("named_inc") else {}))
    return root


def _resolve(v, d):
    if isinstance(v, str):
        return v.replace("$DIR", d)
    if isinstance(v, dict):
        return {k: _resolve(x, d) for k, x in v.items()}
    if isinstance(v, list):
        return [_resolve(x, d) for x in v]
    return v


def _model_merged(doc, files, layout, d, cwd):
    """The single tree the load must be equivalent to, or ('fail', reason) when an include cannot be resolved."""

    def read(name, startdir):
        path = name
        if not isinstance(path, str):
            return None
        if "no-such-dir" in path or path.endswith("/") or ".cfg/.." in path:
            return None  # the operating system does not resolve these, whatever a textual normalisation makes of them
        if not os.path.isabs(path):
            path = os.path.normpath(os.path.join(os.path.join(d, startdir) if startdir else cwd, name))
        rel = os.path.relpath(path, d)
        if rel in files:
            return copy.deepcopy(files[rel])
        return None

    tree = copy.deepcopy(doc)
    for key, sdir in (("inc0", layout["startdir_root"]), ("inc1", None), ("inc2", None)):
        name = tree.get(key)
        if name is None:
            continue
        inc = read(name, sdir)
        if inc is None:
            return "fail", "root include %r cannot be resolved" % (name,)
        tree = trees.merge(tree, inc)
    sub = tree.get("sub")
    if isinstance(sub, dict) and sub:
        name = sub.get("inc")
        if name is not None:
            inc = read(name, layout["startdir_sub"])
            if inc is None:
                return "fail", "sub include %r cannot be resolved" % (name,)
            sub = trees.merge(sub, inc)
        deep = sub.get("deep")
        if isinstance(deep, dict) and deep:
            name = deep.get("inc")
            if name is not None:
                inc = read(name, None)
                if inc is None:
                    return "fail", "deep include %r cannot be resolved" % (name,)
                sub["deep"] = trees.merge(deep, inc)
        tree["sub"] = sub
    return "ok", tree


def _root_startdir(cc, ctx, res, fmt, seed):
    """Include fields whose start directory is the root of the file system: relative names resolve below it."""
    d = ctx.dir
    codec = cc.ConfigFormat.get(fmt)
    schema = cc.Schema()
    schema.x = cc.IntField(default=0)
    schema.who = cc.StringField(default="doc")
    schema.inc = cc.IncludeField(startdir="/" if seed % 2 else "//")
    schema.sub.y = cc.IntField(default=0)
    schema.sub.inc = cc.IncludeField(startdir="/")
    cfg = schema()
    top, low = os.path.join(d, "rooted-top.cfg"), os.path.join(d, "rooted-sub.cfg")
    with open(top, "wb") as fp:
        fp.write(codec.dumps(cfg, {"x": 7, "who": "file"}))
    with open(low, "wb") as fp:
        fp.write(codec.dumps(cfg, {"y": 9}))
    doc = {"who": "document", "inc": top.lstrip("/"), "sub": {"inc": low.lstrip("/")}}
    res.count("file_cases_start_directory_is_the_file_system_root")
    try:
        cfg.loads(codec.dumps(cfg, doc), fmt)
    except Exception as exc:
        res.viol("M-include", "root-startdir:raises", "%s: include fields with startdir '/' and the relative names %r / %r (the files exist "
                 "below '/'): load raised %s: %s" % (fmt, doc["inc"], doc["sub"]["inc"], type(exc).__name__, str(exc)[:160]))
        return False
    got = (cfg.x, cfg.who, cfg.sub.y)
    if got != (7, "file", 9):
        res.viol("M-include", "root-startdir:state", "%s: include fields with startdir '/': expected x=7 who='file' sub.y=9 from the included "
                 "files, got x=%r who=%r sub.y=%r" % ((fmt,) + got))
        return False
    return True


def _include_in_config_type(cc, ctx, res, fmt, seed):
    """An include field inside a configuration type that is used as a section (and in a section of that type): merged in the
    scope that names it, like in a plain nested schema."""
    d = ctx.dir
    codec = cc.ConfigFormat.get(fmt)
    db = cc.Schema()
    db.host = cc.StringField(default="h")
    db.port = cc.IntField(default=1)
    db.include = cc.IncludeField(startdir=d if seed % 2 else None)
    db.tls.cert = cc.StringField(default="c")
    db.tls.depth = cc.IntField(default=0)
    db.tls.extra = cc.IncludeField()
    schema = cc.Schema()
    schema.x = cc.IntField(default=0)
    db_type = cc.make_type(db, "Database", module="vf_types")
    schema.db = db_type
    schema.replica = db_type  # a second section of the very same type
    schema.inc = cc.IncludeField()
    cfg = schema()
    top, low = os.path.join(d, "ct-db.cfg"), os.path.join(d, "ct-tls.cfg")
    with open(top, "wb") as fp:
        fp.write(codec.dumps(cfg, {"host": "included-host", "port": 27017}))
    with open(low, "wb") as fp:
        fp.write(codec.dumps(cfg, {"depth": 3}))
    rep, other = os.path.join(d, "ct-replica.cfg"), os.path.join(d, "ct-other.cfg")
    with open(rep, "wb") as fp:
        fp.write(codec.dumps(cfg, {"host": "replica-host", "port": 27018}))
    # an included file may itself give the include key a value: the included value wins for that key like for any other (it is
    # the name of another existing file here; it is not followed)
    with open(other, "wb") as fp:
        fp.write(codec.dumps(cfg, {"x": 99}))
    rootinc = os.path.join(d, "ct-root.cfg")
    with open(rootinc, "wb") as fp:
        fp.write(codec.dumps(cfg, {"x": 4, "inc": other}))
    doc = {"x": 1, "inc": rootinc, "db": {"include": "ct-db.cfg" if seed % 2 else top, "host": "main-host", "tls": {"extra": low, "cert": "main.pem"}},
           "replica": {"include": "ct-replica.cfg" if seed % 2 else rep}}
    res.count("file_cases_include_inside_a_config_type")
    try:
        cfg.loads(codec.dumps(cfg, doc), fmt)
    except Exception as exc:
        res.viol("M-include", "config-type-scope:raises", "%s: a document naming include files inside a configuration-type section "
                 "raised %s: %s" % (fmt, type(exc).__name__, str(exc)[:160]))
        return False
    if fmt == "yaml":
        # a YAML document that refers to one map twice (anchor / alias): what is merged into the scope that names the include
        # file does not show at the other place
        s2 = cc.Schema()
        s2.server.tls.include = cc.IncludeField(startdir=d)
        s2.server.tls.cert = cc.StringField(default="c")
        s2.server.tls.depth = cc.IntField(default=0)
        s2.template = cc.AnyField()
        c2 = s2()
        with open(os.path.join(d, "alias-tls.cfg"), "wb") as fp:
            fp.write(codec.dumps(c2, {"cert": "included.pem", "depth": 3}))
        text = "server: &srv\n  tls: {include: alias-tls.cfg, cert: main.pem}\ntemplate: *srv\n"
        res.count("yaml_documents_with_aliased_include_scope")
        try:
            c2.loads(text, "yaml")
            seen = (c2.server.tls.cert, c2.server.tls.depth, c2.template)
        except Exception as exc:
            seen = exc
        if seen != ("included.pem", 3, {"tls": {"include": "alias-tls.cfg", "cert": "main.pem"}}):
            res.viol("M-include", "aliased-scope", "yaml: the scope that names an include file is also referred to by an alias elsewhere "
                     "in the document; loaded (server.tls.cert, server.tls.depth, template) = %r" % (seen,))
            return False
    got = (cfg.x, cfg.db.host, cfg.db.port, cfg.db.tls.cert, cfg.db.tls.depth)
    want = (4, "included-host", 27017, "main.pem", 3)
    if got != want:
        res.viol("M-include", "config-type-scope:state", "%s: include files named inside a configuration-type section: expected "
                 "(x, db.host, db.port, db.tls.cert, db.tls.depth) = %r, got %r" % (fmt, want, got))
        return False
    if (cfg.replica.host, cfg.replica.port) != ("replica-host", 27018):
        res.viol("M-include", "config-type-scope:second-section-of-the-type", "%s: the second section declared with the same configuration "
                 "type names an include file, too: expected replica.host / port = 'replica-host' / 27018, got %r / %r" % (
                     fmt, cfg.replica.host, cfg.replica.port))
        return False
    if cfg.inc != other:
        res.viol("M-include", "include-key-given-by-the-included-file", "%s: the included file gives the include key itself a value (%r); "
                 "the included value wins like for any other key, the field holds %r" % (fmt, other, cfg.inc))
        return False
    return True


def run_files(case, ctx, res):
    cc = ctx.cc
    d = ctx.dir
    fmt, layout = case["fmt"], case["layout"]
    if layout.get("ctype_include_probe") and not _include_in_config_type(cc, ctx, res, fmt, len(case["files"])):
        return
    if layout.get("root_startdir_probe") and not _root_startdir(cc, ctx, res, fmt, len(case["files"])):
        return
    os.makedirs(os.path.join(d, "inc"), exist_ok=True)
    os.makedirs(os.path.join(d, "other"), exist_ok=True)
    schema = _schema(cc, layout, d, early=True)
    doc = _resolve(case["doc"], d)
    files = {k: _resolve(v, d) for k, v in case["files"].items()}
    opts = dict(case.get("opts") or {})
    codec = cc.ConfigFormat.get(fmt, **opts)
    dummy = schema()
    homebase = os.path.join(os.path.expanduser("~"), "c18-" + os.path.basename(d))

    def write_all(files_now):
        for rel, tree in files_now.items():
            real = os.path.join(d, rel)
            top = rel.split(os.sep)[0]
            if layout.get("startdir_form") == "home" and top in ("inc", "other") and (
                    top == layout["startdir_root"] or top == layout["startdir_sub"]):
                real2 = os.path.join(homebase, rel)
                os.makedirs(os.path.dirname(real2), exist_ok=True)
                with open(real2, "wb") as fp:
                    fp.write(codec.dumps(dummy, tree))
            os.makedirs(os.path.dirname(real), exist_ok=True)
            with open(real, "wb") as fp:
                fp.write(codec.dumps(dummy, tree))

    case = dict(case, _write_all=write_all)
    if layout.get("env_inc"):
        if any(k.startswith("VFC18E") for k in os.environ):
            return
        decoy = os.path.join(d, "decoy.cfg")
        try:
            with open(decoy, "wb") as fp:
                fp.write(codec.dumps(dummy, {"a": 777, "b": "decoy", "sub": {"a": 778}}))
        except Exception:
            return
        for name in (["VFC18E_INC0"] + (["VFC18E_INC1"] if len(d) % 2 else []) + (["VFC18E_SUB_INC"] if len(d) % 3 else [])):
            os.environ[name] = decoy
        res.count("file_cases_env_bound_include_fields")
    if layout.get("tilde_names"):
        res.count("file_cases_tilde_below_startdir")
    try:
        for rel, tree in files.items():
            real = os.path.join(d, rel)
            os.makedirs(os.path.dirname(real), exist_ok=True)
            top = rel.split(os.sep)[0]
            if layout.get("startdir_form") == "home" and top in ("inc", "other") and (
                    top == layout["startdir_root"] or top == layout["startdir_sub"]):
                # files of a home-relative start directory live under the (sandboxed) home directory
                real2 = os.path.join(homebase, rel)
                os.makedirs(os.path.dirname(real2), exist_ok=True)
                with open(real2, "wb") as fp:
                    fp.write(codec.dumps(dummy, tree))
            with open(real, "wb") as fp:
                fp.write(codec.dumps(dummy, tree))
        blob = codec.dumps(dummy, doc)
    except Exception:
        res.count("file_cases_not_encodable")
        import shutil

        shutil.rmtree(homebase, ignore_errors=True)
        return
    if layout.get("late_inc1"):
        try:
            schema().loads(codec.dumps(dummy, {"a": 1, "b": "first use"}), fmt, **opts)
        except Exception:
            pass
        schema.inc1 = cc.IncludeField()
        res.count("include_field_declared_after_first_use")
    if "denorm" in case["inc_kinds"]:
        res.count("file_cases_denormalised_absolute_names")
    if layout.get("named_inc"):
        res.count("file_cases_include_fields_with_friendly_names")
    if layout.get("redeclare_first"):
        res.count("file_cases_first_include_field_declared_again_last")
    if "again" in case["inc_kinds"]:
        res.count("file_cases_same_file_included_twice_in_scope")
    res.count("startdir_form:" + layout.get("startdir_form", "abs"))
    if layout.get("sub_flag") and isinstance(case["doc"].get("sub"), dict) and "inc" in case["doc"]["sub"]:
        res.count("file_cases_include_in_a_switched_off_feature")
    if layout.get("sub_first"):
        res.count("nested_schema_declared_before_includes")
    os.chdir(d)  # relative start directories are resolved now, not when the schema was declared
    status, merged = _model_merged(doc, files, layout, d, d)
    import shutil

    try:
        return _run_files_tail(cc, ctx, res, case, schema, doc, files, layout, d, fmt, blob, status, merged)
    finally:
        shutil.rmtree(homebase, ignore_errors=True)


def _rewritten(files):
    """The same include files with other contents."""
    def bump(t):
        if not isinstance(t, dict):
            return t
        out = {}
        for k, v in t.items():
            if k == "a" and isinstance(v, int) and not isinstance(v, bool):
                out[k] = v + 1000
            elif k == "b" and isinstance(v, str):
                out[k] = v + "2"
            elif k == "lst" and isinstance(v, list):
                out[k] = v + [7]
            elif k in ("sub", "deep") and isinstance(v, dict):
                out[k] = bump(v)
            else:
                out[k] = v
        return out
    return {rel: bump(copy.deepcopy(t)) for rel, t in files.items()}


def _run_files_tail(cc, ctx, res, case, schema, doc, files, layout, d, fmt, blob, status, merged, again=False):
    actual = schema()
    opts = dict(case.get("opts") or {})
    if opts:
        res.count("file_cases_with_format_options")
    try:
        if case["use_load"] and not opts:  # Config.load() takes no format options
            main = os.path.join(d, "main.cfg")
            with open(main, "wb") as fp:
                fp.write(blob)
            actual.load(main, fmt)
        else:
            actual.loads(blob, fmt, **opts)
        err = None
    except Exception as exc:
        err = exc
    feat = "%s:%s" % (fmt, "+".join(case["inc_kinds"]) or "no-include") + (":options" if opts else "") + (
        ":reload-after-rewrite" if again else "")
    if status == "fail":
        res.count("file_cases_unresolvable_rejected")
        if err is None:
            res.viol("M-include", "unresolved-accepted:" + feat, "%s, but the load succeeded" % merged)
            return
        res.nontrivial("files", case["fmt"], case["doc"], case["files"], layout)
        return
    # the expectation comes from a schema whose start directories are given as absolute paths (the form every test
    # uses), so that an error in resolving relative / home-relative start directories cannot cancel out
    expected = _schema(cc, dict(layout, startdir_form="abs"), d)()
    try:
        expected.load_tree(copy.deepcopy(merged))
        eerr = None
    except Exception as exc:
        eerr = exc
    if (err is None) != (eerr is None):
        res.viol("M-include", "outcome:" + feat, "loading the document %s, loading the merged tree %s (doc %r, files %r)" % (
            "raised %r" % err if err else "succeeded", "raised %r" % eerr if eerr else "succeeded", doc, files))
        return
    if err is not None:
        res.count("file_cases_both_rejected")
        return
    res.count("file_cases_compared")
    a, b = Snapshot(actual), Snapshot(expected)
    if layout.get("startdir_form") == "home":
        # the validated include paths themselves legitimately differ (home directory vs case directory)
        for snap in (a, b):
            for holder in (snap.values, snap.values.get("sub") or {}, (snap.values.get("sub") or {}).get("deep") or {}):
                for k in ("inc0", "inc1", "inc2", "inc"):
                    if isinstance(holder, dict) and k in holder:
                        holder[k] = "<include path>"
    diff = b.diff(a, identity=False)
    if diff:
        res.viol("M-include", "state:" + feat, "load with includes differs from load_tree(merged): %s (doc %r, files %r)" % (
            "; ".join(diff[:4]), doc, files))
        return
    if case["inc_kinds"]:
        if any(k in ("rel",) for k in case["inc_kinds"]) and (layout["startdir_root"] or layout["startdir_sub"]):
            res.count("file_cases_relative_startdir")
        if "inc" in (doc.get("sub") or {}) or "inc" in ((doc.get("sub") or {}).get("deep") or {}):
            res.count("file_cases_nested_include")
        if layout["root_inc"] >= 2:
            res.count("file_cases_chain")
        res.nontrivial("files", case["fmt"], case["doc"], case["files"], layout)
        if case.get("reload_after_rewrite") and not again:
            files2 = _rewritten(files)
            if files2 != files:
                try:
                    case["_write_all"](files2)
                except Exception:
                    return
                res.count("reloads_after_include_files_rewritten")
                status2, merged2 = _model_merged(doc, files2, layout, d, d)
                _run_files_tail(cc, ctx, res, case, schema, doc, files2, layout, d, fmt, blob, status2, merged2, again=True)
