"""C15 - every rejection is a validation error that names the offending field's full path."""
import copy
import os
import re

from .. import gen, history, model, spec, trees
from ..jsonx import Opaque
from .c05 import env_of

PLAN = {
    "quick": {"shards": 8, "cases": 600, "min_nontrivial": 2500, "budget_s": 300},
    "thorough": {"shards": 16, "cases": 10000, "min_nontrivial": 56000, "budget_s": 1500},
}
RULE = ("schemas with nested schemas, config types, lists of schemas / config types (index 0, middle, last, equal "
        "items), typed lists and dicts and friendly names; ~30% of the sub-schemas are reusable fragments that were "
        "used on their own (paths listed, a configuration built and validated) before being mounted; for every declared leaf path a value the reference model "
        "labels invalid (every JSON-like and Python type: dict for scalar, scalar for container, inf, huge ints, "
        "bytes, object()) is offered through every route: attribute on the owning (sub)configuration, dotted path from "
        "the root, constructor keyword (nested through maps), load_tree, loads in each format that can carry the value, "
        "each also after a prior load (which replaces sub-configurations); where a configuration type is on the way also the "
        "keywords of that type's own constructor (tctor; ~40% of the schemas hold a type with typed dicts, directly and in a section, "
        "and a list of configurations with a required field, whose entries / unfinished item objects are always offered to it); typed "
        "lists whose item field has a validator callback are given a list that holds the one item the callback refuses; "
        "the exception classifier M-exc demands "
        "cincoconfig.ValidationError (a ValueError), ref_path == the declared path (a.b[2].c, d[key]) and a message "
        "starting with that path (plus ' (name)' for a friendly name); non-trivial = >= 3 rejections judged over >= 2 "
        "routes; distinct = distinct (schema, probes)")
REQUIRED = ("lists_reassigned_from_themselves_then_reordered", "values_offered_to_names_that_take_none", "xml_documents_with_a_typed_element_whose_text_does_not_parse", "schemas_with_an_include_field_inside_a_config_type", "schemas_with_sections_created_by_a_deep_dotted_name", "rejections_by_validator_callback:fail-empty", "schemas_with_sections_named_like_config_methods", "sections_nested_in_a_section_of_the_same_name", "cases_with_library_warnings_as_errors", "duplicate_key_documents", "moved_object_probes:list-item", "moved_object_probes:section", "schemas_with_premounted_fragments", "object_item_probes", "reordered_list_probes", "pos:dict-key", "rejections_judged", "route:attr", "route:dotted", "route:ctor", "route:load_tree", "route:loads", "pos:nested",
            "pos:ctype", "pos:list-item", "pos:dict-entry", "pos:list-scalar", "pos:subconfig-slot", "friendly_names_judged",
            "after_prior_load")
REQUIRED += ("rejections_by_item_validator_of_a_typed_list", "route:tctor", "type_constructor_probes:dict-entry",
             "type_constructor_probes:dict-key", "type_constructor_probes:object-items")
ASSUMPTIONS = ["unknown keys (AttributeError) and non-map top-level documents are not 'a value for a declared field'",
               "direct proxy mutation (cfg.l.append(x)) is not a listed route",
               "for a rejected scalar item of a typed list the offending field is the list field itself",
               "the configuration built by the constructor of a configuration type is the root of the paths in that constructor's errors"]
FMT_FOR_LOADS = ["json", "yaml", "pickle", "bson", "xml"]
BAD_WILD = [{"a": 1}, [1], 1.5, float("inf"), 10**30, b"xy", Opaque(), True, "", "x y z !", -1, (1, 2), None]


SENTINEL = {"int": "424242", "port": "4242", "float": "4242.5", "str": "reject-me", "host": "reject.me"}
ITEM_SENTINEL = {"int": 424242, "port": 4242, "float": 4242.5, "str": "reject-me", "host": "reject.me"}


def generate(rng, ctx):
    thorough = ctx.tier == "thorough"
    schema = gen.gen_schema(rng, depth=rng.choice([1, 2, 3] if thorough else [1, 2, 2]), width=rng.choice([3, 4, 5]),
                            defaults=0.4, dynamic=0.0)
    # friendly names on some fields
    for path, nd in spec.walk(schema):
        if nd["kind"] == "field" and rng.random() < 0.3:
            nd["params"]["name"] = "Friendly %s" % nd["key"].title()
    # a section inside a section of the same name (log.log): the path of either must be spelled in full
    same_name = 0
    if rng.random() < 0.3:
        for p0, nd in spec.walk(schema):
            if nd["kind"] == "schema" and "[]" not in p0:
                kids = [ch for ch in nd["fields"] if ch["kind"] in ("schema", "ctype")]
                if kids and all(ch["key"] != nd["key"] for ch in nd["fields"]):
                    rng.choice(kids)["key"] = nd["key"]
                    same_name = 1
                    break
    # sections named like methods of the Config class: reachable by item / dotted path (attribute access finds the method)
    if rng.random() < 0.25:
        secs = [nd for p0, nd in spec.walk(schema) if nd["kind"] in ("schema", "ctype") and "[]" not in p0 and "." not in p0]
        taken = {ch["key"] for ch in schema["fields"]}
        free = [n for n in ("save", "load", "validate", "dumps", "loads", "to_tree", "load_tree") if n not in taken]
        if secs and free:
            rng.choice(secs)["key"] = rng.choice(free)
            schema["method_like_names"] = True
    # include fields (at the root and in a section); the file they name does not exist
    incs = []
    if rng.random() < 0.35:
        schema["fields"].append({"kind": "field", "key": "inc0", "family": "include", "params": {}})
        incs.append("inc0")
        subs = [ch for ch in schema["fields"] if ch["kind"] == "schema"]
        if subs:
            sub = rng.choice(subs)
            if all(ch["key"] != "inc1" for ch in sub["fields"]):
                sub["fields"].append({"kind": "field", "key": "inc1", "family": "include", "params": {}})
                incs.append(sub["key"] + ".inc1")
    # names that take no value: a computed field without a setter, an instance method (root or section)
    if rng.random() < 0.3:
        from .c20 import gen_method

        names = []
        holders = [("", schema)] + [(ch["key"], ch) for ch in schema["fields"] if ch["kind"] == "schema"]
        for _ in range(rng.choice([1, 2])):
            hp, h = rng.choice(holders)
            k = gen.pick_keys(rng, 1, avoid={ch["key"] for ch in h["fields"]})[0]
            h["fields"].append({"kind": "field", "key": k, "family": "virtual", "params": {"returns": "v"}} if rng.random() < 0.6
                               else gen_method(rng, k))
            names.append((hp + "." if hp else "") + k)
        schema["readonly_names"] = names
    # an include field inside a configuration type that is used as a section
    ctypes = [ch for ch in schema["fields"] if ch["kind"] == "ctype"]
    if ctypes and rng.random() < 0.6:
        ct = rng.choice(ctypes)
        kids = model.fields_of(ct)["fields"]
        if all(ch["key"] != "inc3" for ch in kids):
            kids.append({"kind": "field", "key": "inc3", "family": "include", "params": {}})
            incs.append(ct["key"] + ".inc3")
            schema["include_in_ctype"] = True
    # ... and inside a configuration type that is itself a section of another configuration type
    if rng.random() < 0.25 and all(ch["key"] != "ctouter" for ch in schema["fields"]):
        inner = {"kind": "ctype", "key": "leaf", "name": "LeafT", "schema": {"kind": "schema", "key": "", "fields": [
            {"kind": "field", "key": "n", "family": "int", "params": {}},
            {"kind": "field", "key": "inc4", "family": "include", "params": {}}]}}
        mid = {"kind": "schema", "key": "mid", "fields": [inner]} if rng.random() < 0.5 else inner
        schema["fields"].append({"kind": "ctype", "key": "ctouter", "name": "OuterT", "schema": {"kind": "schema", "key": "", "fields": [
            {"kind": "field", "key": "m", "family": "int", "params": {}}, mid]}})
        incs.append("ctouter.mid.leaf.inc4" if mid is not inner else "ctouter.leaf.inc4")
        schema["include_in_ctype"] = True
    # a chain of sections that is never declared by itself: its first leaf is declared as schema["dz.dy.dd"] = field, which
    # creates both sections on the way (typed dict and include leaves report errors by the schema's static path)
    if rng.random() < 0.35 and all(ch["key"] != "dz" for ch in schema["fields"]):
        S = {"kind": "field", "family": "str", "params": {}}
        leaves = [{"kind": "field", "key": "dd", "family": "dict", "params": {}, "keyf": dict(S),
                   "valf": {"kind": "field", "family": "int", "params": {}}},
                  {"kind": "field", "key": "n", "family": "int", "params": {}}]
        if rng.random() < 0.5:
            leaves.append({"kind": "field", "key": "inc2", "family": "include", "params": {}})
            incs.append("dz.dy.inc2")
        if rng.random() < 0.5:
            leaves.reverse()
        schema["fields"].append({"kind": "schema", "key": "dz", "style": "dotted", "fields": [
            {"kind": "schema", "key": "dy", "style": "dotted", "fields": leaves}]})
        schema["deep_dotted"] = True
    # a configuration type that holds typed dicts (directly and in a section of its own) and a list of configurations with a
    # required field: its constructor is handed entries / items to refuse (the configuration it builds is the root of the path)
    if rng.random() < 0.4:
        holders = [schema] + [ch for ch in schema["fields"] if ch["kind"] == "schema"]
        holder = rng.choice(holders)
        if all(ch["key"] != "tcx" for ch in holder["fields"]):
            def typed_dict(key):
                vf = gen.gen_field(rng, rng.choice(["int", "int", "port", "float", "bool", "ipv4", "net", "host"]), 0)
                return {"kind": "field", "key": key, "family": "dict", "params": {}, "keyf": {"kind": "field", "family": "str", "params": {}},
                        "valf": vf}
            mschema = {"kind": "schema", "key": "", "fields": [
                {"kind": "field", "key": "name", "family": "str", "params": {"required": True}},
                {"kind": "field", "key": "n", "family": "int", "params": {}}]}
            item = mschema if rng.random() < 0.4 else {"kind": "ctype", "key": "", "name": "MemberT", "schema": mschema}
            kids = [typed_dict("quota"),
                    {"kind": "schema", "key": "limits", "fields": [typed_dict("per_user"), {"kind": "field", "key": "m", "family": "int", "params": {}}]},
                    {"kind": "field", "key": "members", "family": "list", "params": {}, "item": item},
                    {"kind": "field", "key": "size", "family": "int", "params": {}}]
            rng.shuffle(kids)
            holder["fields"].append({"kind": "ctype", "key": "tcx", "name": "TeamT", "schema": {"kind": "schema", "key": "", "fields": kids}})
            schema["type_with_containers"] = True
    # some sub-schemas are reusable fragments: built and used on their own before being mounted; others come into being
    # by attribute access, by item access or by the dotted name of their first field
    mounted = 0
    for path, nd in spec.walk(schema):
        if nd["kind"] == "schema" and "[]" not in path and not nd.get("style"):
            r = rng.random()
            if r < 0.3:
                nd["style"] = "mounted"
                mounted += 1
            elif r < 0.6:
                nd["style"] = rng.choice(["auto", "getitem", "dotted"])
    # twins: a second list with the same item type / a second section of the same shape next to the original, so that
    # configuration objects can be moved between two fields of one owner
    twins = 0
    for path, nd in list(spec.walk(schema)):
        if "[]" in path or rng.random() > 0.5:
            continue
        is_list = nd["kind"] == "field" and nd["family"] == "list" and nd.get("item") and nd["item"]["kind"] != "field"
        if not (is_list or nd["kind"] in ("schema", "ctype")):
            continue
        owner = spec.node_at(schema, spec.split_parent(path)[0]) if "." in path else schema
        kids = model.fields_of(owner)["fields"]
        if any(ch["key"] == nd["key"] + "_tw" for ch in kids) or nd["key"].endswith("_tw"):
            continue
        if nd["kind"] == "schema":
            continue  # (a section schema lives under one key; a configuration of it is no value for another section)
        # the twin uses the very same item schema / configuration type (a configuration of another schema is refused)
        target = nd["item"] if is_list else nd
        if target["kind"] == "ctype":
            target["schema"].setdefault("share", "t:" + path)
        else:
            target.setdefault("share", "s:" + path)
        tw = dict(nd)
        tw["key"] = nd["key"] + "_tw"
        tw.pop("style", None)
        if is_list:
            tw["params"] = {}
        kids.append(tw)
        twins += 1
    # field validator callbacks that reject everything, some of them with an exception that carries no message
    for p0, nd in spec.walk(schema):
        if nd["kind"] == "field" and nd["family"] in SENTINEL and rng.random() < 0.1:
            # the callback rejects one particular (otherwise acceptable) value only
            keep = {k: v for k, v in nd["params"].items() if k in ("name", "required")}
            nd["params"] = dict(keep, validator="%s@%s" % (rng.choice(["fail", "fail-empty", "assert-empty", "keyerror-empty", "multiline"]),
                                                           SENTINEL[nd["family"]]))
    # typed lists whose ITEM field carries a validator callback that rejects one particular (otherwise acceptable) item; the
    # item field keeps its options (the declared default of the list was made for them)
    env = gen.GEN_ENV
    for p0, nd in spec.walk(schema):
        if nd["kind"] == "field" and nd["family"] == "list" and nd.get("item") and nd["item"]["kind"] == "field" \
                and nd["item"]["family"] in SENTINEL and rng.random() < 0.6:
            fam = nd["item"]["family"]
            ok, norm = model.accepts(nd["item"], ITEM_SENTINEL[fam], env)
            if ok is True and str(norm) == SENTINEL[fam] and not nd["item"]["params"].get("validator"):
                how = rng.choice(["fail", "fail", "fail-empty", "assert-empty", "keyerror-empty", "multiline"])
                nd["item"]["params"] = dict(nd["item"]["params"], validator="%s@%s" % (how, SENTINEL[fam]))
    targets = enumerate_targets(schema)
    rng.shuffle(targets)
    always = []
    if schema.get("type_with_containers"):
        # two of the positions inside that configuration type are always probed, through its constructor (last of all: the other
        # routes to a typed dict inside a configuration type run into known finding K2, which ends the case)
        always = [t for t in targets if "tcx" in t["path"].split(".")[:-1] and t["pos"] in ("dict-entry", "dict-key", "list-item")][:2]
        # (the general sample below leaves the positions inside that type alone: most routes to them meet K1 / K2)
        targets = [t for t in targets if not {"tcx", "tcx_tw"} & set(t["path"].replace("[]", "").split("."))]
    probes = []
    for tgt in targets[: rng.randrange(3, 10 if thorough else 7)] + always:
        nd = tgt["node"]
        bad = None
        forced = nd.get("params", {}).get("validator") if nd.get("kind") == "field" and tgt["pos"] in ("root", "nested", "ctype", "list-item") else None
        by_type = any(tgt is t for t in always)
        if forced and rng.random() < 0.7 and not by_type:
            # the one value the callback rejects (it passes the field's own checks)
            bad = {"int": 424242, "port": 4242, "float": 4242.5, "str": "reject-me", "host": "reject.me"}[nd["family"]]
            forced = forced.split("@")[0]
            probes.append({"pos": tgt["pos"], "path": tgt["path"], "bad": bad, "routes": ["attr", "dotted"], "index": rng.choice([0, 1]),
                           "nitems": rng.choice([1, 2]), "equal_items": False, "key": "k1", "fmt": "json", "prior_load": False, "reorder": None,
                           "object_items": False, "moved": False, "by_callback": forced})
            continue
        for _ in range(15):
            if tgt["pos"] == "subconfig-slot":
                cand = rng.choice(BAD_WILD)
                if not isinstance(cand, dict) and cand is not None:
                    bad = cand
                    break
                continue
            cand = gen.one_value(rng, nd, "invalid", env) if rng.random() < 0.6 else rng.choice(BAD_WILD)
            if nd.get("family") == "challenge" and rng.random() < 0.5:
                # half-written salt / digest pairs
                cand = rng.choice([{"salt": "AAAA"}, {"salt": "AAAA", "digest": "x"}, {"digest": "AAAA"}, {"salt": "x", "digest": "AAAA"},
                                   {"salt": 5, "digest": "AAAA"}, {"salt": "AAAA", "digest": None}])
            label_node = nd
            if tgt["pos"] == "dict-key":
                try:
                    hash(cand)
                except TypeError:
                    continue
                if cand is None or isinstance(cand, Opaque):
                    continue
            if nd["family"] in ("list", "dict") and tgt["pos"] not in ("dict-entry", "dict-key", "list-scalar") and (
                    isinstance(cand, (list, dict, tuple)) or hasattr(cand, "keys")):
                continue  # a container with a bad entry is reported at the entry: covered by the entry positions
            ok = model.accepts(label_node, cand, env)[0]
            if ok is False:
                bad = cand
                break
        if bad is None and tgt["pos"] != "subconfig-slot":
            continue
        if tgt["pos"] == "subconfig-slot" and bad is None:
            bad = 5
        routes = ["attr", "dotted", "ctor", "load_tree", "loads"]
        routes = rng.sample(routes, rng.choice([2, 3, 5]))
        if by_type:
            routes = ["tctor"]
        elif _ctype_prefixes(schema, tgt["path"].replace("[]", "[0]")) and rng.random() < 0.7:
            # the constructor of a configuration TYPE on the way (Type(**keywords)), which is the root of what it builds
            routes.append("tctor")
        probes.append({"pos": tgt["pos"], "path": tgt["path"], "bad": bad, "routes": routes,
                       "index": rng.choice([0, 0, 1, 2]), "nitems": rng.choice([1, 2, 3]), "equal_items": rng.random() < 0.5,
                       "key": rng.choice(["k1", "kk", "a.b", "K"]), "fmt": rng.choice(FMT_FOR_LOADS),
                       "prior_load": rng.random() < 0.4, "reorder": rng.choice([None, None, "insert0", "pop0", "reverse", "swap", "swap", "rotate", "reassign-plus", "reassign-copy", "reassign-front"]),
                       "object_items": rng.random() < 0.5, "moved": rng.random() < 0.5, "dupkey": rng.random() < 0.3,
                       "move_how": rng.choice(["append", "setitem", "assign", "insert0"])})
    # every typed list whose item field has a validator callback: a list that holds the one item the callback rejects, among
    # items it lets through, by every route
    for tgt in targets:
        vspec = tgt["node"].get("params", {}).get("validator") if tgt["pos"] == "list-scalar" else None
        if not vspec:
            continue
        fam = tgt["node"]["family"]
        oks = [v for v in (gen.one_value(rng, tgt["node"], "valid", env) for _ in range(4))
               if v is not None and isinstance(v, (int, float, str)) and v == v and str(v) != SENTINEL[fam]
               and str(model.accepts(tgt["node"], v, env)[1]) != SENTINEL[fam]]
        if not oks:
            continue
        routes = ["attr", "dotted", "ctor", "load_tree", "loads"]
        routes = rng.sample(routes, rng.choice([3, 4, 5]))
        if _ctype_prefixes(schema, tgt["path"].replace("[]", "[0]")) and rng.random() < 0.7:
            routes.append("tctor")
        probes.append({"pos": "list-scalar", "path": tgt["path"], "bad": ITEM_SENTINEL[fam], "routes": routes,
                       "index": rng.choice([0, 0, 1, 2]), "nitems": rng.choice([1, 2, 3]), "equal_items": rng.random() < 0.5, "key": "k1",
                       "fmt": rng.choice(FMT_FOR_LOADS), "prior_load": rng.random() < 0.3, "reorder": None, "object_items": False, "moved": False,
                       "by_callback": vspec.split("@")[0], "item_callback": True,
                       "before": [rng.choice(oks) for _ in range(rng.choice([0, 1, 2]))],
                       "after": [rng.choice(oks) for _ in range(rng.choice([0, 0, 1]))]})
    for path in incs:
        # names with characters that mean something to string formatting, globbing, shells
        name = rng.choice(["missing-file.cfg", "db%20settings.json", "shard-%d.json", "%s", "backup-%(host)s.json", "100%.cfg", "a%%b.cfg",
                           "{0}.cfg", "{name}.cfg", "$HOME.cfg", "*.cfg", "no such dir/x.cfg", "\\x.cfg"])
        probes.append({"pos": "include", "path": path, "bad": name, "routes": ["loads"], "index": 0, "nitems": 1, "equal_items": False,
                       "key": "k1", "fmt": rng.choice(FMT_FOR_LOADS), "prior_load": False, "reorder": None, "object_items": False,
                       "moved": False})
    return {"schema": schema, "probes": probes, "mounted": mounted, "twins": twins, "same_name": same_name,
            # run with the library's own warnings turned into errors (pytest -W error, PYTHONWARNINGS=error)
            "warnings_as_errors": rng.random() < 0.3}


def probes(ctx):
    base = {"index": 0, "nitems": 2, "equal_items": False, "key": "k1", "fmt": "json", "prior_load": False, "reorder": None,
            "object_items": False}
    # K1: default instance of a config-type field has no key
    s1 = {"kind": "schema", "key": "", "fields": [{"kind": "ctype", "key": "one", "name": "One", "schema": {
        "kind": "schema", "key": "", "fields": [{"kind": "field", "key": "age", "family": "int", "params": {}}]}}]}
    yield "K1", {"schema": s1, "probes": [dict(base, pos="ctype", path="one.age", bad="abc", routes=["attr", "dotted"])]}
    # K2: dict entries below a list item report the schema path
    item = {"kind": "schema", "key": "", "fields": [
        {"kind": "field", "key": "tags", "family": "dict", "params": {}, "keyf": {"kind": "field", "family": "str", "params": {}},
         "valf": {"kind": "field", "family": "int", "params": {}}}]}
    s2 = {"kind": "schema", "key": "", "fields": [{"kind": "field", "key": "users", "family": "list", "params": {}, "item": item}]}
    yield "K2", {"schema": s2, "probes": [dict(base, pos="dict-entry", path="users[].tags", bad="notint", routes=["load_tree", "attr"], index=1)]}
    # K3: include-field rejections
    s3 = {"kind": "schema", "key": "", "fields": [{"kind": "field", "key": "inc", "family": "include", "params": {}},
                                                   {"kind": "field", "key": "x", "family": "int", "params": {}}]}
    yield "K3", {"schema": s3, "probes": [dict(base, pos="include", path="inc", bad="missing-file.cfg", routes=["loads"])]}


def abbreviate(case):
    return case


def enumerate_targets(schema):
    """Declared leaf positions: (pos kind, path template with [] for list items, node)."""
    out = []
    for path, nd in spec.walk(schema):
        parts = path.split(".")
        in_list = "[]" in path
        in_ctype = False
        for i in range(1, len(parts)):
            p = spec.node_at(schema, ".".join(parts[:i]).replace("[]", "[0]"))
            if p is not None and p["kind"] == "ctype":
                in_ctype = True
        if nd["kind"] in ("schema", "ctype"):
            if not in_list:
                out.append({"pos": "subconfig-slot", "path": path, "node": nd})
            continue
        if nd["family"] in ("virtual", "method", "include", "any", "secure"):
            continue
        if nd["family"] == "dict" and (nd.get("keyf") or nd.get("valf")) and nd.get("valf") and nd["valf"]["family"] not in ("any", "secure"):
            out.append({"pos": "dict-entry", "path": path, "node": nd["valf"], "in_list": in_list, "in_ctype": in_ctype})
        if nd["family"] == "dict" and nd.get("keyf") and nd["keyf"]["family"] not in ("any", "secure"):
            out.append({"pos": "dict-key", "path": path, "node": nd["keyf"], "in_list": in_list, "in_ctype": in_ctype})
        if nd["family"] == "list" and nd.get("item") and nd["item"]["kind"] == "field" and nd["item"]["family"] not in ("any", "secure"):
            out.append({"pos": "list-scalar", "path": path, "node": nd["item"]})
        pos = "list-item" if in_list else ("ctype" if in_ctype else ("nested" if len(parts) > 1 else "root"))
        out.append({"pos": pos, "path": path, "node": nd})
    return out


# ------------------------------------------------------------------------------------------------


def valid_item(drv, item_node, rng):
    for _ in range(10):
        t = gen.tree_for(rng, item_node, drv.env, valid=True, partial=0.2)
        if model.accepts_tree(item_node, t, drv.env)[0] is True:
            return t
    return None


def run(case, ctx, res):
    cc = ctx.cc
    env = env_of(ctx)
    rng = __import__("random").Random(len(case["probes"]) * 7919 + 13)
    judged, routes_seen = 0, set()
    if case.get("mounted"):
        res.count("schemas_with_premounted_fragments")
    if case.get("same_name"):
        res.count("sections_nested_in_a_section_of_the_same_name")
    if case["schema"].get("method_like_names"):
        res.count("schemas_with_sections_named_like_config_methods")
    if case["schema"].get("include_in_ctype"):
        res.count("schemas_with_an_include_field_inside_a_config_type")
    if case["schema"].get("deep_dotted"):
        res.count("schemas_with_sections_created_by_a_deep_dotted_name")
    import warnings

    with warnings.catch_warnings():
        if case.get("warnings_as_errors"):
            warnings.filterwarnings("error", module=r"cincoconfig(\..*)?$")
            res.count("cases_with_library_warnings_as_errors")
        return _run(case, ctx, res, cc, env, rng, judged, routes_seen)


def _run(case, ctx, res, cc, env, rng, judged, routes_seen):
    for pr in spec.resolve(case["probes"], {"$FX": ctx.sb.fx}):
        for route in pr["routes"]:
            drv = history.Driver(ctx, res, case["schema"], env)
            out = attempt(cc, ctx, drv, pr, route, rng)
            if out is None:
                res.count("probes_not_applicable")
                continue
            err, want_path, fname, feat = out
            if feat.endswith(":after-reorder"):
                res.count("reordered_list_probes")
            if feat == "duplicate-key-document":
                res.count("duplicate_key_documents")
            if pr.get("by_callback") and err is not None:
                res.count("rejections_by_validator_callback:" + pr["by_callback"])
            if pr.get("item_callback") and err is not None:
                res.count("rejections_by_item_validator_of_a_typed_list")
            if "moved-from-sibling" in feat:
                res.count("moved_object_probes:" + feat.split(":")[0])
            if feat.endswith(":object-items") or pr.get("object_items"):
                res.count("object_item_probes")
            res.count("rejections_judged")
            res.count("route:" + route)
            res.count("pos:" + ("nested" if pr["pos"] == "root" else pr["pos"]))
            if pr["prior_load"]:
                res.count("after_prior_load")
            judged += 1
            routes_seen.add(route)
            where = "%s via %s%s" % (want_path, route, " after a prior load" if pr["prior_load"] else "")
            if err is None:
                res.count("not_rejected_not_judged")
                continue
            if not isinstance(err, cc.ValidationError):
                res.viol("M-exc", "type:" + feat, "rejecting %r at %s raised %s: %s instead of a ValidationError" % (
                    pr["bad"], where, type(err).__name__, str(err)[:120]))
                return
            if not isinstance(err, ValueError):
                res.viol("M-exc", "not-a-valueerror", "ValidationError is not a ValueError")
                return
            try:
                got_path, text = err.ref_path, str(err)
            except Exception as exc:
                res.viol("M-exc", "error-unprintable:" + feat, "str()/ref_path of the error raised %r" % (exc,))
                return
            if got_path != want_path:
                res.viol("M-exc", "path:" + feat, "rejecting %r at %s: the error names %r (%s)" % (pr["bad"], where, got_path, text[:100]))
                return
            prefix = want_path + (" (%s)" % fname if fname else "")
            if fname:
                res.count("friendly_names_judged")
            if not text.startswith(prefix + ":"):
                res.viol("M-exc", "text:" + feat, "rejecting %r at %s: the message %r does not start with %r" % (pr["bad"], where, text[:120], prefix))
                return
    if case["schema"].get("readonly_names") and not _readonly_names(case, ctx, res, cc, env):
        return
    if judged >= 3 and len(routes_seen) >= 2:
        res.nontrivial(case["schema"], case["probes"])


def _readonly_names(case, ctx, res, cc, env):
    """Computed fields without a setter and instance methods are declared fields that take no value at all: offering one by
    any route is a rejection like the others - the library's error, with the path."""
    import json as _json

    for path in case["schema"]["readonly_names"]:
        head, _, key = path.rpartition(".")
        nested = {}
        cur = nested
        for seg in path.split(".")[:-1]:
            cur[seg] = {}
            cur = cur[seg]
        cur[key] = 5
        for route in ("attr", "dotted", "ctor", "load_tree", "loads"):
            drv = history.Driver(ctx, res, case["schema"], env)
            cfg = drv.cfg
            try:
                if route == "attr":
                    setattr(spec.get_path(cfg, head) if head else cfg, key, 5)
                elif route == "dotted":
                    cfg[path] = 5
                elif route == "ctor":
                    drv.built.schema(**nested)
                elif route == "load_tree":
                    cfg.load_tree(nested)
                else:
                    cfg.loads(_json.dumps(nested), "json")
                err = None
            except Exception as exc:
                err = exc
            res.count("values_offered_to_names_that_take_none")
            if err is None:
                continue  # (accepted: nothing to judge here)
            if not isinstance(err, cc.ValidationError):
                res.viol("M-exc", "type:readonly-name", "offering 5 to %s (a computed field without a setter / an instance method) via "
                         "%s raised %s: %s instead of a ValidationError" % (path, route, type(err).__name__, str(err)[:100]))
                return False
            if err.ref_path != path or not str(err).startswith(path):
                res.viol("M-exc", "path:readonly-name", "offering 5 to %s via %s: the error names %r (%s)" % (path, route, err.ref_path, str(err)[:100]))
                return False
    return True


def attempt_objects(cc, drv, pr, route, rng):
    """A list of configuration OBJECTS is assigned; one of them is rejected by whole-item validation because a required
    field (the target) is unset.  The error must name <list>[i].<field> from the root."""
    root, cfg = drv.root, drv.cfg
    parts = pr["path"].split(".")
    li = [i for i, p in enumerate(parts) if p.endswith("[]")]
    if len(li) != 1 or li[0] != len(parts) - 2 or li[0] != 0 and False:
        return None
    list_path = ".".join(parts[: li[0] + 1])[:-2]
    if "[" in list_path:
        return None
    lnode = spec.node_at(root, list_path)
    target = spec.node_at(root, (list_path + "[0]." + parts[-1]))
    if target is None or target["kind"] != "field" or not target.get("params", {}).get("required") or \
            target["params"].get("default") is not None or target["family"] in ("flag", "include"):
        return None
    if not model.is_enabled(lnode["item"], {}) and any(ch["kind"] == "field" and ch["family"] == "flag" for ch in lnode["item"].get("fields", lnode["item"].get("schema", {}).get("fields", []))):
        return None
    n = max(pr["nitems"], 1)
    idx = min(pr["index"], n - 1)
    try:
        list_field_owner = spec.get_path(cfg, ".".join(list_path.split(".")[:-1])) if "." in list_path else cfg
        probe = cfg.__class__  # noqa: F841
        objs = []
        # a valid template tree
        good = valid_item(drv, lnode["item"], rng)
        if good is None:
            return None
        cfg[list_path] = []
        proxy = spec.get_path(cfg, list_path)
        for i in range(n):
            inst = proxy.item_field()
            tree = copy.deepcopy(good)
            if i == idx:
                tree.pop(parts[-1], None)
            inst.load_tree(tree, validate=False)
            if i != idx:
                inst.validate()
            objs.append(inst)
    except Exception:
        return None
    unmet = [ch["key"] for ch in model.stored_children(lnode["item"]) if ch["kind"] == "field" and ch.get("params", {}).get("required")
             and model.empty_required(ch, good.get(ch["key"])) and ch["key"] != parts[-1]]
    if unmet:
        return None
    want = "%s[%d].%s" % (list_path, idx, parts[-1])
    fname = target["params"].get("name")
    owner_path, leaf = spec.split_parent(list_path)
    if route in ("attr", "dotted") and _default_ctype_on_path(root, want, {}):
        # known finding K1: the list hangs below a config-type default instance that does not know its key
        feat0 = "ctype-default-instance"
    else:
        feat0 = "list-item:object-items"
    if route == "attr":
        owner = spec.get_path(cfg, owner_path) if owner_path else cfg
        return _call(lambda: setattr(owner, leaf, objs)), want, fname, feat0
    if route == "dotted":
        return _call(lambda: cfg.__setitem__(list_path, objs)), want, fname, feat0
    if route == "ctor" and "." not in list_path:
        return _call(lambda: drv.built.schema(**{list_path: objs})), want, fname, "list-item:object-items"
    if route == "tctor" and owner_path and "[" not in owner_path:
        # the list is a field of a section declared with a configuration type: the objects are handed to the type's constructor
        onode = spec.node_at(root, owner_path)
        cls = _type_of(drv, onode) if onode is not None and onode["kind"] == "ctype" else None
        if cls is None:
            return None
        drv.res.count("type_constructor_probes:object-items")
        return _call(lambda: cls(**{leaf: objs})), "%s[%d].%s" % (leaf, idx, parts[-1]), fname, "list-item:object-items"
    return None


def attempt_moved(cc, drv, pr, route, rng):
    """A configuration object is moved between two fields of ONE owner (an item from the twin list into the list, the
    twin section into the section) and a value inside it is rejected afterwards: the error must name the place where
    the object lives now."""
    root, cfg = drv.root, drv.cfg
    parts = pr["path"].split(".")
    value = spec.realize(cc, copy.deepcopy(pr["bad"]))
    li = [i for i, p in enumerate(parts) if p.endswith("[]")]
    try:
        if pr["pos"] == "list-item":
            if len(li) != 1 or li[0] == len(parts) - 1:
                return None
            list_path = ".".join(parts[: li[0] + 1])[:-2]
            if "[" in list_path or list_path.endswith("_tw") or spec.node_at(root, list_path + "_tw") is None:
                return None
            lnode = spec.node_at(root, list_path)
            a, b = valid_item(drv, lnode["item"], rng), valid_item(drv, lnode["item"], rng)
            if a is None or b is None:
                return None
            base = {}
            _put(base, list_path.split("."), [copy.deepcopy(a) for _ in range(max(pr["nitems"], 1))])
            _put(base, (list_path + "_tw").split("."), [copy.deepcopy(b), copy.deepcopy(a)])
            cfg.load_tree(copy.deepcopy(base), validate=False)
            src, dst = spec.get_path(cfg, list_path + "_tw"), spec.get_path(cfg, list_path)
            obj = src.pop(0)
            how = pr.get("move_how", "append")
            if how == "append":
                dst.append(obj)
                idx = len(dst) - 1
            elif how == "insert0":
                dst.insert(0, obj)
                idx = 0
            elif how == "setitem":
                idx = min(pr["index"], len(dst) - 1)
                dst[idx] = obj
            else:
                owner_path, leaf = spec.split_parent(list_path)
                owner = spec.get_path(cfg, owner_path) if owner_path else cfg
                setattr(owner, leaf, [obj])
                idx = 0
            rest = parts[li[0] + 1:]
            want = "%s[%d].%s" % (list_path, idx, ".".join(rest))
            feat = "list-item:moved-from-sibling-list"
            # what the moved object was loaded from now sits at its new place (for the K1 classification below)
            _put(base, list_path.split("."), [copy.deepcopy(b) for _ in range(idx + 1)])
        else:
            if li:
                return None
            # the nearest enclosing section that has a twin
            cut = None
            for i in range(len(parts) - 1, 0, -1):
                sec = ".".join(parts[:i])
                nd = spec.node_at(root, sec)
                if nd is not None and nd["kind"] in ("schema", "ctype") and not sec.endswith("_tw") and spec.node_at(root, sec + "_tw") is not None:
                    cut = i
                    break
            if cut is None:
                return None
            sec = ".".join(parts[:cut])
            base = {}
            for which in (sec, sec + "_tw"):
                t = valid_item(drv, spec.node_at(root, sec), rng)
                if t is None:
                    return None
                _put(base, which.split("."), t)
            cfg.load_tree(copy.deepcopy(base), validate=False)
            owner_path, leaf = spec.split_parent(sec)
            owner = spec.get_path(cfg, owner_path) if owner_path else cfg
            obj = getattr(owner, leaf + "_tw")
            setattr(owner, leaf, obj)
            rest = parts[cut:]
            want = pr["path"]
            feat = "section:moved-from-sibling-section"
            _put(base, sec.split("."), copy.deepcopy(_get(base, (sec + "_tw").split("."))))
        holder = obj
        for seg in rest[:-1]:
            holder = getattr(holder, seg)
        if not isinstance(holder, cc.Config):
            return None
    except Exception:
        return None
    node = spec.node_at(root, re.sub(r"\[\d+\]", "[0]", want))
    if node is None or node["kind"] != "field":
        return None
    if _default_ctype_on_path(root, want, base):
        feat = "ctype-default-instance"
    fname = node.get("params", {}).get("name")
    if route == "attr":
        return _call(lambda: setattr(holder, rest[-1], value)), want, fname, feat
    if route == "dotted" and "[" not in want:
        return _call(lambda: cfg.__setitem__(want, value)), want, fname, feat
    return None


def _has_float(v):
    if isinstance(v, float):
        return True
    if isinstance(v, (list, tuple)):
        return any(_has_float(x) for x in v)
    if isinstance(v, dict):
        return any(_has_float(x) for x in v.values())
    return False


def attempt_dupkey(cc, drv, pr, rng):
    """A hand-written JSON / YAML document that names the target key twice in one object: a good value first, the
    rejected one last (the last one counts)."""
    import json

    root, cfg = drv.root, drv.cfg
    path, bad = pr["path"], pr["bad"]
    if "[]" in path or pr["fmt"] not in ("json", "yaml"):
        return None
    node = spec.node_at(root, path)
    if node is None or node["kind"] != "field" or node["family"] in ("secure", "challenge", "bytes", "list", "dict", "include"):
        return None
    try:
        bad_txt = json.dumps(bad, allow_nan=False)
    except (TypeError, ValueError):
        return None
    if model.accepts_disk(node, bad, drv.env)[0] is not False:
        return None
    good = None
    for _ in range(8):
        g = gen.one_value(rng, node, "valid", drv.env)
        ok, disk = gen.disk_form(node, g, drv.env)
        if ok and isinstance(disk, (str, int, float, bool)) and disk == disk:
            good = disk
            break
    if good is None:
        return None
    if pr["fmt"] == "yaml" and (_has_float(good) or _has_float(bad)):
        return None  # JSON text for a float ("1e+300") is not always a float for a YAML 1.1 parser
    parts = path.split(".")
    text = "{%s: %s, %s: %s}" % (json.dumps(parts[-1]), json.dumps(good), json.dumps(parts[-1]), bad_txt)
    for seg in reversed(parts[:-1]):
        text = "{%s: %s}" % (json.dumps(seg), text)
    fname = node.get("params", {}).get("name")
    feat = "duplicate-key-document"
    if _default_ctype_on_path(root, path, {}):
        feat = "ctype-default-instance"
    return _call(lambda: cfg.loads(text.encode(), pr["fmt"])), path, fname, feat


def attempt(cc, ctx, drv, pr, route, rng):
    """Deliver the rejected value through one route.  Returns (exception or None, expected path, friendly name,
    feature) or None when the route cannot carry this probe."""
    if pr.get("dupkey") and route == "loads" and pr["pos"] in ("root", "nested", "ctype"):
        got = attempt_dupkey(cc, drv, pr, rng)
        if got is not None:
            return got
    if pr.get("moved") and pr["pos"] in ("list-item", "nested", "ctype") and route in ("attr", "dotted"):
        got = attempt_moved(cc, drv, pr, route, rng)
        if got is not None:
            return got
    if pr.get("object_items") and pr["pos"] == "list-item" and route in ("attr", "dotted", "ctor", "tctor"):
        got = attempt_objects(cc, drv, pr, route, rng)
        if got is not None:
            return got
    root, cfg = drv.root, drv.cfg
    tmpl, pos, bad = pr["path"], pr["pos"], pr["bad"]
    parts = tmpl.split(".")
    # ---- materialise lists on the way: build a valid tree that contains the target position
    list_levels = [i for i, p in enumerate(parts) if p.endswith("[]")]
    if len(list_levels) > 1:
        return None
    tree, concrete, feat = {}, tmpl, pos
    idx = None
    if list_levels:
        li = list_levels[0]
        list_path = ".".join(parts[: li + 1])[:-2]
        lnode = spec.node_at(root, list_path)
        n = max(pr["nitems"], 1)
        idx = min(pr["index"], n - 1)
        items = []
        first = valid_item(drv, lnode["item"], rng)
        if first is None:
            return None
        for i in range(n):
            it = copy.deepcopy(first) if pr["equal_items"] else valid_item(drv, lnode["item"], rng)
            if it is None:
                return None
            items.append(it)
        _put(tree, list_path.split("."), items)
        concrete = "%s[%d]%s" % (list_path, idx, ("." + ".".join(parts[li + 1:])) if parts[li + 1:] else "")
        norms = [model.accepts_tree(lnode["item"], it, drv.env)[1] for it in items]
        dup = any(repr(norms[j]) == repr(norms[idx]) for j in range(idx))
        feat = "list-item" + (":ctype-items" if lnode["item"]["kind"] == "ctype" else "") + (":equal" if dup else "") + (
            ":first" if idx == 0 else "")
    node = spec.node_at(root, re.sub(r"\[\d+\]", "[0]", concrete))
    if node is None:
        return None
    want = concrete
    fname = node.get("params", {}).get("name") if node["kind"] == "field" else None
    # the rejected value, wrapped for container positions
    value = spec.realize(cc, copy.deepcopy(bad))
    if pos == "dict-entry":
        kf = node.get("keyf")
        key = pr["key"]
        if kf is not None and model.accepts(kf, key, drv.env)[0] is not True:
            return None
        value = {key: value}
        want = "%s[%s]" % (concrete, key)
        feat = "dict-entry-below-list-or-ctype" if (list_levels or _in_ctype(root, concrete)) else "dict-entry"
    elif pos == "dict-key":
        vf = node.get("valf")
        okv = gen.one_value(rng, vf, "valid", drv.env) if vf else 1
        if vf is not None and (okv is None or model.accepts(vf, okv, drv.env)[0] is not True):
            return None
        value = {value: spec.realize(cc, okv)}
        want = "%s[%s]" % (concrete, bad)
        feat = "dict-entry-below-list-or-ctype" if (list_levels or _in_ctype(root, concrete)) else "dict-key"
    elif pos == "list-scalar":
        value = [value]
        if pr.get("item_callback"):
            value = spec.realize(cc, copy.deepcopy(pr["before"])) + value + spec.realize(cc, copy.deepcopy(pr["after"]))
    elif pos == "include":
        feat = "include"
    if not _tree_ok(value) and route in ("loads",):
        return None
    if pos == "dict-key" and route == "ctor" and "." not in concrete and "[" not in concrete and not isinstance(bad, str):
        pass
    if route == "loads" and isinstance(bad, float) and bad != bad:
        return None
    # ---- prior load: replaces sub-configurations (and provides the list items)
    owner_tmpl, leaf = spec.split_parent(concrete)
    base = {}
    if list_levels or pr["prior_load"]:
        base = copy.deepcopy(tree)
        if pr["prior_load"] and not list_levels:
            base = gen.tree_for(rng, root, drv.env, valid=True, partial=0.5)
            _drop(base, re.sub(r"\[\d+\]", "", concrete).split("."))
        if route in ("attr", "dotted") or pr["prior_load"]:
            try:
                cfg.load_tree(copy.deepcopy(base), validate=False)
            except Exception:
                return None
    if route == "attr" and list_levels and pr.get("reorder"):
        # the stored list is re-ordered in place before the rejected assignment: the error must name the item's
        # position at the time of the error
        try:
            lst = spec.get_path(cfg, list_path)
            n0 = len(lst)
            if pr["reorder"] == "reassign-front" and "." not in list_path and "[" not in list_path:
                # a copy of the stored list gets a new FIRST item and is then assigned back
                derived = lst.copy()
                derived.insert(0, copy.deepcopy(items[0]))
                setattr(cfg, list_path, derived)
                lst = spec.get_path(cfg, list_path)
                new_idx = idx + 1
                drv.res.count("lists_reassigned_from_themselves_then_reordered")
            elif pr["reorder"] in ("reassign-plus", "reassign-copy") and "." not in list_path and "[" not in list_path:
                # the field is given a NEW list made from the one it holds (lst + [...], lst.copy()); that list is then
                # re-ordered in place
                setattr(cfg, list_path, (lst + [copy.deepcopy(items[0])]) if pr["reorder"] == "reassign-plus" else lst.copy())
                lst = spec.get_path(cfg, list_path)
                n1 = len(lst)
                if pr["nitems"] % 2 and idx > 0:
                    del lst[0]
                    new_idx = idx - 1
                else:
                    lst.reverse()
                    new_idx = n1 - 1 - idx
                drv.res.count("lists_reassigned_from_themselves_then_reordered")
            elif pr["reorder"] == "insert0":
                lst.insert(0, copy.deepcopy(items[0]))
                new_idx = idx + 1
            elif pr["reorder"] == "pop0" and idx > 0:
                lst.pop(0)
                new_idx = idx - 1
            elif pr["reorder"] == "reverse" and n0 > 1:
                lst.reverse()
                new_idx = n0 - 1 - idx
            elif pr["reorder"] == "swap" and n0 > 1:
                # the swap idiom, with objects that are already in the list
                j = (idx + 1) % n0
                lst[idx], lst[j] = lst[j], lst[idx]
                # follow the item that was moved away, or look at the one that took its place
                new_idx = j if pr["nitems"] % 2 else idx
            elif pr["reorder"] == "rotate" and n0 > 2:
                # a three-way rotation by item assignment
                a, b, c = idx, (idx + 1) % n0, (idx + 2) % n0
                lst[a], lst[b], lst[c] = lst[c], lst[a], lst[b]
                new_idx = b if pr["nitems"] % 2 else a
            else:
                new_idx = idx
        except Exception:
            return None
        if new_idx != idx:
            old = "%s[%d]" % (list_path, idx)
            new = "%s[%d]" % (list_path, new_idx)
            concrete = new + concrete[len(old):]
            want = new + want[len(old):]
            owner_tmpl, leaf = spec.split_parent(concrete)
            if feat.startswith("list-item"):
                feat = "list-item:after-reorder"
            res_reorder = True
    if route in ("attr", "dotted") and _default_ctype_on_path(root, concrete, base if (list_levels or pr["prior_load"]) else {}):
        feat = "ctype-default-instance"
    try:
        if route == "attr":
            owner = spec.get_path(cfg, owner_tmpl) if owner_tmpl else cfg
            if not isinstance(owner, cc.Config):
                return None
            return _call(lambda: setattr(owner, leaf, value)), want, fname, feat
        if route == "dotted":
            if "[" in concrete:
                return None
            return _call(lambda: cfg.__setitem__(concrete, value)), want, fname, feat
    except Exception:
        return None
    # tree-shaped routes: put the bad value at its place inside a complete valid tree, so that it is the only
    # thing wrong; the value must be invalid on this route too (documents carry on-disk forms)
    label_node = {"dict-entry": node.get("valf"), "dict-key": node.get("keyf"), "list-scalar": node.get("item")}.get(pos, node)
    tprefix = None
    if route == "tctor":
        # the constructor of one of the configuration types on the way: the configuration it builds is the root of the path
        cands = _ctype_prefixes(root, concrete)
        if not cands:
            return None
        tprefix = rng.choice(cands)
        tcls = _type_of(drv, spec.node_at(root, re.sub(r"\[\d+\]", "[0]", tprefix)))
        if tcls is None:
            return None
        rel = concrete[len(tprefix) + 1:]
        want = want[len(tprefix) + 1:]
        if pos in ("dict-entry", "dict-key"):
            below = "[" in rel or any(len(c) > len(tprefix) for c in cands)
            feat = "dict-entry-below-list-or-ctype" if below else pos
        elif pos == "subconfig-slot":
            feat = "subconfig-slot"
        elif pos != "include":
            feat = pos + ":type-constructor"
    if pr.get("item_callback"):
        pass  # (the model does not know the callback: the value is rejected by it on every route, nothing to label)
    elif pos not in ("subconfig-slot", "include") and label_node is not None:
        top_level_ctor = (route == "ctor" and "." not in concrete and "[" not in concrete) or (
            route == "tctor" and "." not in rel and "[" not in rel)
        lab = model.accepts(label_node, bad, drv.env)[0] if top_level_ctor else model.accepts_disk(label_node, bad, drv.env)[0]
        if lab is not False:
            return None
    full = None
    for _ in range(6):
        cand = gen.tree_for(rng, root, drv.env, valid=True, partial=0.0)
        if model.accepts_tree(root, cand, drv.env)[0] is True:
            full = cand
            break
    if full is None:
        return None
    doc = _overlay(full, copy.deepcopy(tree))
    if list_levels:
        items = _get(doc, list_path.split("."))
        holder = items[idx]
        rest = parts[list_levels[0] + 1:]
        if rest:
            _put(holder, rest, value)
        else:
            return None
    else:
        _put(doc, concrete.split("."), value)
    if route == "ctor":
        return _call(lambda: drv.built.schema(**doc)), want, fname, feat
    if route == "tctor":
        try:
            sub = _sub(doc, tprefix)
        except (KeyError, IndexError, TypeError):
            return None
        if not isinstance(sub, dict) or not all(isinstance(k, str) for k in sub):
            return None
        drv.res.count("type_constructor_probes:" + pos)
        return _call(lambda: tcls(**sub)), want, fname, feat
    if route == "load_tree":
        return _call(lambda: cfg.load_tree(doc)), want, fname, feat
    if route == "loads":
        fmt = pr["fmt"]
        if not _tree_ok(doc) or not trees.in_domain(fmt, doc):
            return None
        try:
            blob = cc.ConfigFormat.get(fmt).dumps(cfg, doc)
            back = cc.ConfigFormat.get(fmt).loads(cfg, blob)
        except Exception:
            return None
        # the format must carry the rejected value unchanged, otherwise another value is being offered
        from ..common import eqstar

        if not eqstar(back, doc):
            return None
        if fmt == "xml" and isinstance(value, str) and node.get("family") in ("int", "port", "float", "bool"):
            # the document is edited by hand: the element keeps the declared type of the field although its text does not parse
            from xml.sax.saxutils import escape

            needle = b' type="str">' + escape(value).encode() + b'</'
            if value and blob.count(needle) == 1:
                typ = {"int": b"int", "port": b"int", "float": b"float", "bool": b"bool"}[node["family"]]
                blob = blob.replace(needle, b' type="' + typ + b'">' + escape(value).encode() + b'</')
                drv.res.count("xml_documents_with_a_typed_element_whose_text_does_not_parse")
        if pos == "subconfig-slot":
            feat = "subconfig-slot:loads"
        return _call(lambda: cfg.loads(blob, fmt)), want, fname, feat
    return None


def _ctype_prefixes(root, concrete):
    """The proper prefixes of a concrete path (a.b[1].c) that name a configuration of a configuration TYPE: a section
    declared with a type, or an item of a list of a type."""
    parts = concrete.split(".")
    out = []
    for i in range(1, len(parts)):
        prefix = ".".join(parts[:i])
        nd = spec.node_at(root, re.sub(r"\[\d+\]", "[0]", prefix))
        if nd is not None and nd["kind"] == "ctype":
            out.append(prefix)
    return out


def _type_of(drv, nd):
    """The class that spec.build made for a config-type node."""
    return drv.built.types.get((nd.get("name") or "T", nd["schema"].get("share") or id(nd)))


def _sub(doc, prefix):
    cur = doc
    for seg in prefix.split("."):
        cur = cur[re.sub(r"\[\d+\]", "", seg)]
        for i in re.findall(r"\[(\d+)\]", seg):
            cur = cur[int(i)]
    return cur


def _default_ctype_on_path(root, concrete, loaded):
    """Does the path run through a config-type field whose instance is still the default one (not given by the
    loaded tree)?  Known finding K1: such an instance does not know its key."""
    parts = concrete.split(".")
    cur = loaded
    for i in range(1, len(parts) + 1):
        seg = parts[i - 1]
        name = re.sub(r"\[\d+\]", "", seg)
        m = re.search(r"\[(\d+)\]", seg)
        nd = spec.node_at(root, re.sub(r"\[\d+\]", "[0]", ".".join(parts[:i])))
        present = isinstance(cur, dict) and name in cur
        if nd is not None and nd["kind"] == "ctype" and i <= len(parts) and not present:
            return True
        cur = cur.get(name) if present else None
        if m and isinstance(cur, list):
            idx = int(m.group(1))
            cur = cur[idx] if idx < len(cur) else None
    return False


def _call(fn):
    try:
        fn()
        return None
    except Exception as exc:
        return exc


def _in_ctype(root, path):
    parts = re.sub(r"\[\d+\]", "", path).split(".")
    for i in range(1, len(parts) + 1):
        nd = spec.node_at(root, ".".join(parts[:i]))
        if nd is not None and nd["kind"] == "ctype":
            return True
    return False


def _put(tree, parts, value):
    cur = tree
    for p in parts[:-1]:
        p = p.replace("[]", "")
        nxt = cur.get(p)
        if not isinstance(nxt, dict):
            nxt = cur[p] = {}
        cur = nxt
    cur[parts[-1].replace("[]", "")] = value


def _overlay(base, top):
    for k, v in top.items():
        if isinstance(v, dict) and isinstance(base.get(k), dict):
            base[k] = _overlay(base[k], v)
        else:
            base[k] = v
    return base


def _get(tree, parts):
    cur = tree
    for p in parts:
        cur = cur[p]
    return cur


def _drop(tree, parts):
    cur = tree
    for p in parts[:-1]:
        cur = cur.get(p)
        if not isinstance(cur, dict):
            return
    cur.pop(parts[-1], None)


def _tree_ok(v):
    if v is None or isinstance(v, (bool, int, str)):
        return True
    if isinstance(v, float):
        return True
    if isinstance(v, list):
        return all(_tree_ok(x) for x in v)
    if isinstance(v, dict):
        return all(isinstance(k, str) and _tree_ok(x) for k, x in v.items())
    return False
