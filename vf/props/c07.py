"""C07 - key files: used verbatim, created once, rejected if malformed, never retained."""
import base64
import json
import os
import pathlib

from .. import aes_ref
from ..common import weighted
from ..monitors import FileLog

PLAN = {
    "quick": {"shards": 8, "cases": 1500, "min_nontrivial": 6000, "budget_s": 300},
    "thorough": {"shards": 16, "cases": 12000, "min_nontrivial": 67200, "budget_s": 1500},
}
RULE = ("a case is a history of 2-40 steps {new KeyFile object, enter, exit (properly nested), encrypt (xor/aes/best), "
        "decrypt, external change of the file while no context is open} over up to 3 objects for one path, starting "
        "from a file state in {absent, valid, empty, 1/16/31/33/64 bytes, parent directory missing, parent is a "
        "regular file}; checked against a 20-line model (file bytes; per object: depth, key); non-trivial = at least "
        "one enter and one encrypt/decrypt were judged; distinct = distinct (initial state, step list)")
REQUIRED = ("public_generate_key_calls", "key_file_names_a_shell_would_expand", "key_file_names_with_percent_sign", "key_file_named_through_symlink_and_dotdot", "key_file_named_relative_to_home", "key_file_replaced_with_preserved_timestamps", "exits_with_exception", "enter_ok_judged", "enter_rejected_judged", "key_measured_from_xor", "outside_context_rejected",
            "retention_scans", "created_once_checked", "nested_enter_judged", "reenter_after_rejection_judged",
            "key_file_named_by_bytes_path", "key_file_named_by_pathlib_path", "config_ops_followed_by_closed_object_checks",
            "config_failed_loads_that_reached_the_key_file", "config_key_measured_after_a_failed_operation")
ASSUMPTIONS = ["the key in use is measured as xor_ciphertext XOR known_plaintext (48 bytes) and by decrypting AES "
               "output with the pure-Python oracle under the expected key",
               "external changes of the key file are only made while no key context is open (the property speaks of "
               "changes between sessions)"]
SHRINK_KEY = "steps"
SIZES = [0, 1, 16, 31, 33, 64]
PLAIN = bytes(range(7, 55))  # 48 known bytes
PATHTYPES = ["str", "str", "str", "bytes", "path"]
BAD_DOCS = ["aes-short", "aes-short", "method-unknown", "aes-padding", "xor-not-text", "other-field"]


def _file_state(rng):
    kind = weighted(rng, [(4, "valid"), (3, "absent"), (5, "bad")])
    if kind == "valid":
        key = rng.randbytes(32)
        shape = rng.choice(["random", "random", "ends-newline", "ends-crlf", "starts-space", "ascii", "ends-nul"])
        if shape == "ends-newline":
            key = key[:31] + b"\n"
        elif shape == "ends-crlf":
            key = key[:30] + b"\r\n"
        elif shape == "starts-space":
            key = b" \t" + key[2:]
        elif shape == "ascii":
            key = bytes(rng.choice(b"abcdefghijklmnopqrstuvwxyz0123456789 ") for _ in range(32))
        elif shape == "ends-nul":
            key = key[:31] + b"\x00"
        return {"state": "valid", "bytes": key}
    if kind == "absent":
        return {"state": "absent"}
    key = rng.randbytes(32)
    near = rng.choice(["size", "size", "newline", "crlf", "space", "hex", "base64", "nul", "double", "31+newline"])
    if near == "size":
        return {"state": "bad", "bytes": rng.randbytes(rng.choice(SIZES))}
    import base64 as b64

    content = {"newline": key + b"\n", "crlf": key + b"\r\n", "space": b" " + key + b" ", "hex": key.hex().encode(),
               "base64": b64.b64encode(key), "nul": key + b"\x00", "double": key + key, "31+newline": key[:30] + b"\n"}[near]
    return {"state": "bad", "bytes": content}


def _unreadable_key_file(case, ctx, res):
    """A valid key file that the process may write but not read (an unprivileged owner, mode 0200): every open must fail and
    the file must keep its 32 bytes.  The scenario runs in a forked child that gives up root."""
    cc = ctx.cc
    path = given = os.path.join(ctx.dir, "wo.key")
    if case["r"] % 2:
        # the file is named relative to the home directory
        hd = os.path.join(os.path.expanduser("~"), "c07wo-" + os.path.basename(ctx.dir))
        os.makedirs(hd, exist_ok=True)
        path, given = os.path.join(hd, "wo.key"), "~/" + os.path.basename(hd) + "/wo.key"
        res.count("unreadable_key_files_named_relative_to_home")
    key = bytes((case["r"] + 11 * i) % 256 for i in range(32))
    with open(path, "wb") as fp:
        fp.write(key)
    uid = 65534
    try:
        os.chown(path, uid, uid)
        os.chmod(path, 0o200)
        cur = os.path.dirname(path)
        while cur not in ("/", ""):
            os.chmod(cur, os.stat(cur).st_mode | 0o011)  # the child has to reach the file
            cur = os.path.dirname(cur)
    except OSError:
        res.count("unreadable_key_file_not_applicable")
        return
    r, w = os.pipe()
    pid = os.fork()
    if pid == 0:
        code = b"?"
        try:
            os.close(r)
            os.setgroups([])
            os.setgid(uid)
            os.setuid(uid)
            try:
                open(path, "rb").close()
                code = b"readable"  # (privileges not dropped, or the file system ignores modes)
            except OSError:
                out = []
                for _ in range(2):
                    try:
                        with cc.KeyFile(given) as k:
                            k.encrypt(b"x", "xor")
                        out.append("opened")
                    except BaseException as exc:  # noqa: B902
                        out.append(type(exc).__name__)
                code = ",".join(out).encode()
        finally:
            os.write(w, code)
            os._exit(0)
    os.close(w)
    outcome = os.read(r, 1000).decode()
    os.close(r)
    os.waitpid(pid, 0)
    if outcome in ("readable", "?"):
        res.count("unreadable_key_file_not_applicable")
        return
    res.count("unreadable_key_files_opened_by_their_unprivileged_owner")
    with open(path, "rb") as fp:
        now = fp.read()
    if now != key:
        res.viol("M-file", "unreadable-key-file-overwritten", "a valid 32-byte key file that its owner may write but not read was "
                 "replaced by %d other bytes when a KeyFile was opened (outcomes of two opens: %s)" % (len(now), outcome))
        return
    if "opened" in outcome:
        res.viol("M-file", "unreadable-key-file-opened", "a key file that cannot be read was opened without an error (%s)" % outcome)


def generate(rng, ctx):
    if rng.random() < 0.01:
        return {"where": "unreadable", "r": rng.getrandbits(16), "init": {"state": "valid"}, "nobj": 1, "steps": []}
    if rng.random() < 0.12:
        return _generate_config_case(rng, ctx)
    where = weighted(rng, [(10, "ok"), (1, "parent_missing"), (1, "parent_is_file")])
    init = _file_state(rng) if where == "ok" else {"state": "absent"}
    nobj = rng.choice([1, 1, 2, 3])
    steps, depth = [], [0] * nobj
    n = rng.randrange(2, 41 if ctx.tier == "thorough" else 25)
    last_failed_obj = None
    bad_now = init["state"] == "bad" or where != "ok"
    for _ in range(n):
        o = rng.randrange(nobj)
        if bad_now and last_failed_obj is not None and rng.random() < 0.5:
            o = last_failed_obj  # repeated attempts after a failure
            kind = weighted(rng, [(6, "enter"), (2, "enc"), (1, "dec")])
        else:
            kind = weighted(rng, [(6, "enter"), (5 if depth[o] else 1, "exit"), (6, "enc"), (3, "dec"),
                                  (2, "new"), (3 if not any(depth) else 0, "file"),
                                  (0.8 if (not any(depth) and where == "ok") else 0, "genkey")])
        if kind == "exit" and depth[o] == 0:
            kind = "enc"
        if kind == "enter":
            steps.append(["enter", o])
            if bad_now:
                last_failed_obj = o
            else:
                depth[o] += 1
        elif kind == "exit":
            steps.append(["exit", o] + (["exc"] if rng.random() < 0.3 else []))
            depth[o] -= 1
        elif kind == "enc":
            steps.append(["enc", o, rng.choice(["xor", "xor", "aes", "best"])])
        elif kind == "dec":
            steps.append(["dec", o, rng.choice(["xor", "aes"])])
        elif kind == "new":
            if depth[o] == 0:
                steps.append(["new", o])
        elif kind == "genkey":
            steps.append(["genkey", o])
            bad_now = False
            last_failed_obj = None
        elif kind == "file" and where == "ok":
            st = _file_state(rng)
            if rng.random() < 0.4:
                st["keep_times"] = True
            steps.append(["file", st])
            bad_now = st["state"] == "bad"
            last_failed_obj = None
    # close everything at the end so the retention clause is always judged
    for o in range(nobj):
        for _ in range(depth[o]):
            steps.append(["exit", o])
    return {"where": where, "init": init, "nobj": nobj, "steps": steps,
            # how the key file is named to the library: absolute, or relative to the home directory
            "pathform": rng.choice(["abs", "abs", "home", "symlink-dotdot", "link"]) if where == "ok" else "abs",
            # file names with characters that mean something to string formatting, shells, URLs
            "fname": rng.choice(["app.key", "app.key", "app%20key.bin", "100%.key", "k%s.key", "key {0}.bin", "cl\u00e9.key", "a b.key",
                                "app-$VFSTAGE.key", "${VFSTAGE}.key"]),
            # the type of the name: text, a bytes path (os.fsencode, os.listdir(b".")) or a pathlib.Path
            "pathtype": rng.choice(PATHTYPES)}


def _generate_config_case(rng, ctx):
    """A configuration with a SecureField is the everyday user of a key file: it opens and closes the key contexts itself, once
    per value.  Steps: set the secret and dump / save it (the key in use is measured), load a document whose secret was
    encrypted under the file's content, load a document that FAILS after the key file has been reached (undecryptable secret,
    unknown method, text that is not UTF-8, another field refused), external change of the file between two operations."""
    init = _file_state(rng) if rng.random() < 0.35 else {"state": "valid", "bytes": rng.randbytes(32)}
    letters = "abcdefghijklmnopqrstuvwxyzABCDEFGHIJKLMNOPQRSTUVWXYZ0123456789 -_.:/"

    def text():
        return "".join(rng.choice(letters) for _ in range(rng.randrange(8, 49))).strip() or "secret"

    def via():
        return rng.choice(["string", "string", "file"])

    steps = []
    for _ in range(rng.randrange(3, 15 if ctx.tier == "thorough" else 11)):
        kind = weighted(rng, [(4, "dump"), (3, "loadgood"), (5, "loadbad"), (3, "file")])
        if kind == "dump":
            steps.append(["dump", via(), text()])
        elif kind == "loadgood":
            steps.append(["loadgood", via(), text(), rng.choice(["xor", "aes"]), rng.getrandbits(16)])
        elif kind == "loadbad":
            steps.append(["loadbad", via(), rng.choice(BAD_DOCS), rng.getrandbits(16), text()])
            if rng.random() < 0.5:
                # the session after the failed one: the file may have been given another key in between
                if rng.random() < 0.6:
                    steps.append(["file", {"state": "valid", "bytes": rng.randbytes(32)}])
                steps.append(["dump", via(), text()])
        else:
            st = _file_state(rng) if rng.random() < 0.5 else {"state": "valid", "bytes": rng.randbytes(32)}
            if rng.random() < 0.4:
                st["keep_times"] = True
            steps.append(["file", st])
    steps.append(["dump", via(), text()])
    return {"where": "config", "init": init, "nobj": 1, "steps": steps, "method": rng.choice(["xor", "xor", "aes", "best"]),
            "nested": rng.random() < 0.4, "pathform": rng.choice(["abs", "abs", "home", "symlink-dotdot", "link"]),
            "fname": rng.choice(["app.key", "app.key", "100%.key", "key {0}.bin", "a b.key"]), "pathtype": rng.choice(PATHTYPES)}


def _config_sessions(case, ctx, res, path, given):
    """Key contexts opened and closed by a configuration (see _generate_config_case).  Between two operations of the
    configuration no key context is open, so its key object must refuse to work and hold no key material - also when the
    operation failed -, and every operation is a session of its own that uses the key file as it is then."""
    cc = ctx.cc
    nested = case["nested"]
    schema = cc.Schema()
    schema.name = cc.StringField(default="x")
    schema.port = cc.IntField(default=1, min=1, max=100)
    if nested:
        schema.db.secret = cc.SecureField(method=case["method"])
    else:
        schema.secret = cc.SecureField(method=case["method"])
    cfg = schema(key_filename=given)
    docpath = os.path.join(ctx.dir, "c07-document.json")
    everkeys = []
    model_file = _read(path)
    failed_before = False
    judged = 0

    def doc_of(node, **more):
        tree = dict({"name": "n"}, **more)
        if nested:
            tree["db"] = {"secret": node}
        else:
            tree["secret"] = node
        return json.dumps(tree).encode()

    def node_of(method, ciphertext):
        return {"method": method, "ciphertext": base64.b64encode(ciphertext).decode()}

    def load(via, raw):
        if via == "file":
            with open(docpath, "wb") as fp:
                fp.write(raw)
            cfg.load(docpath, format="json")
        else:
            cfg.loads(raw, format="json")

    for idx, step in enumerate(case["steps"]):
        kind = step[0]
        if kind == "file":
            if step[1].get("keep_times") and step[1]["state"] != "absent" and model_file is not None:
                res.count("key_file_replaced_with_preserved_timestamps")
            _put(path, step[1])
            model_file = _read(path)
            continue
        via = step[1]
        before = model_file
        state = "no-file" if before is None else ("valid-file" if len(before) == 32 else "bad-file")
        if kind == "loadgood" and before is None:
            continue  # there is no key yet under which a document could have been written
        if before is not None:
            everkeys.append(before)
        # the key a well-formed secret of this step is encrypted under (for a malformed file: its content, cut or repeated)
        k32 = before if state == "valid-file" else ((before or b"") * 32 + bytes(32))[:32]
        text = raw = None
        try:
            if kind == "dump":
                text = step[2]
                setattr(cfg.db if nested else cfg, "secret", text)
                if via == "file":
                    cfg.save(docpath, format="json")
                    with open(docpath, "rb") as fp:
                        raw = fp.read()
                else:
                    raw = cfg.dumps(format="json")
            elif kind == "loadgood":
                text, iv = step[2], bytes((step[4] + 7 * i) % 256 for i in range(16))
                ct = aes_ref.xor_stream(k32, text.encode()) if step[3] == "xor" else aes_ref.aes_encrypt(k32, iv, text.encode())
                load(via, doc_of(node_of(step[3], ct)))
            else:
                bad, r, text = step[2], step[3], step[4]
                more = {}
                if bad == "aes-short":
                    node = node_of("aes", bytes((r + 3 * i) % 256 for i in range(r % 32)))
                elif bad == "method-unknown":
                    node = node_of(["rot13", "des", "AES", "none", "xor "][r % 5], aes_ref.xor_stream(k32, text.encode()))
                elif bad == "aes-padding":
                    other = bytes(b ^ 0x55 for b in k32)
                    node = node_of("aes", aes_ref.aes_encrypt(other, bytes(16), text.encode()))
                elif bad == "xor-not-text":
                    node = node_of("xor", aes_ref.xor_stream(k32, b"\xff\xfe" + text.encode() + b"\xc3"))
                else:
                    node = node_of("xor", aes_ref.xor_stream(k32, text.encode()))
                    more = {"port": ["zzz", 1000, -5, None, [1]][r % 5]}
                load(via, doc_of(node, **more))
            ok, err = True, None
        except Exception as exc:
            ok, err = False, exc
        now = _read(path)
        judged += 1
        feat = "config-%s@%s" % (kind, state)
        # -- the file
        if state == "no-file":
            if now is not None:
                res.count("config_key_files_created")
                if len(now) != 32:
                    res.viol("M-file", feat, "step %d: missing key file was created with %d bytes" % (idx, len(now)))
                everkeys.append(now)
            elif kind == "dump" and ok:
                res.viol("M-file", feat, "step %d: a secret was written although no key file exists or was created" % idx)
        elif now != before:
            res.viol("M-file", feat, "step %d: a %d-byte key file was modified by %s of a configuration" % (idx, len(before), kind))
        model_file = now
        # -- the outcome
        if not ok:
            failed_this = True
            if kind == "loadbad":
                res.count("config_failed_loads_that_reached_the_key_file")
            if kind in ("dump", "loadgood") and state != "bad-file":
                res.viol("M-model" if kind == "dump" else "M-key", feat, "step %d: %s raised %r with %s" % (
                    idx, "writing a secret" if kind == "dump" else "reading a secret encrypted under the key file's content", err,
                    "a valid 32-byte key file" if state == "valid-file" else "a missing key file in a writable directory"))
        else:
            failed_this = False
            if state == "bad-file" and kind == "dump":
                if b'"ciphertext"' in raw:
                    res.viol("M-model", feat, "step %d: a secret was encrypted and written with a %d-byte key file" % (idx, len(before)))
            elif state == "bad-file" and kind == "loadgood":
                if isinstance((cfg.db if nested else cfg).secret, str):
                    res.viol("M-model", feat, "step %d: an encrypted secret was read with a %d-byte key file" % (idx, len(before)))
            elif kind == "loadgood":
                res.count("config_secrets_read_under_file_key")
                got = (cfg.db if nested else cfg).secret
                if got != text:
                    res.viol("M-key", feat, "step %d: a secret encrypted under the key file's content was read as other text" % idx)
            elif kind == "dump" and now is not None and len(now) == 32:
                try:
                    tree = json.loads(raw.decode())
                    sec = (tree["db"] if nested else tree)["secret"]
                    method, ct = sec["method"], base64.b64decode(sec["ciphertext"])
                except Exception:
                    method = ct = None
                    res.count("config_documents_without_a_readable_secret")
                if method == "xor":
                    same = bytes(a ^ b for a, b in zip(ct, text.encode())) == (now * 2)[:len(text.encode())] and len(ct) == len(text.encode())
                elif method == "aes":
                    same = aes_ref.aes_decrypt(now, ct) == text.encode()
                else:
                    same = None
                if same is not None:
                    res.count("config_key_measured")
                    if failed_before:
                        res.count("config_key_measured_after_a_failed_operation")
                    if not same:
                        res.viol("M-key", feat + ("/after-failure" if failed_before else ""), "step %d: the secret written by the "
                                 "configuration is not encrypted under the key file's content %s..%s" % (
                                     idx, now[:4].hex(), " (an earlier operation of this configuration had failed)" if failed_before else ""))
        failed_before = failed_before or failed_this
        # -- the key object between two operations: no context is open
        kf = cfg._keyfile
        res.count("config_ops_followed_by_closed_object_checks")
        tail = "%s%s" % (kind, "-failed" if failed_this else "")
        try:
            kf.encrypt(PLAIN, method="xor")
            works = True
        except Exception:
            works = False
        if works:
            res.viol("M-model", "outside-context/after-config-" + tail, "step %d: encrypt() on the configuration's key object works "
                     "although no key context is open (after %s%s)" % (idx, kind, ", which raised %r" % (err,) if failed_this else ""))
        for k in everkeys[-6:]:
            if len(k) >= 16 and _scan(kf, k) is not None:
                res.viol("M-retain", "after-config-" + tail, "step %d: key material reachable from the configuration's key object "
                         "after %s returned%s" % (idx, kind, " with an exception" if failed_this else ""))
                break
    if judged:
        res.nontrivial("config", case["init"], case["steps"], case["method"], nested)
    # the configuration is pointed at another key file while a context of the old one is still open (a batch of saves inside
    # `with cfg._keyfile:`): what is written from then on is written under the NEW file's 32 bytes, verbatim
    now = _read(path)
    if now is None or len(now) != 32:
        return
    second = os.path.join(ctx.dir, "second.key")
    with open(second, "wb") as fp:
        fp.write(bytes((b * 5 + 17) % 256 for b in now))
    secret = "switch-%s" % case["steps"][-1][2]
    try:
        with cfg._keyfile:
            cfg._key_filename = second
            if nested:
                cfg.db.secret = secret
            else:
                cfg.secret = secret
            blob = cfg.dumps("json")
        fresh = schema(key_filename=second)
        fresh.loads(blob, "json")
        got = fresh.db.secret if nested else fresh.secret
    except Exception as exc:
        res.viol("M-key", "key-file-switched-inside-a-context", "after cfg._key_filename = <second key file> inside `with cfg._keyfile:` "
                 "the document does not load under the second key file: %r" % (exc,))
        return
    res.count("key_file_switched_inside_an_open_context")
    if got != secret:
        res.viol("M-key", "key-file-switched-inside-a-context", "after cfg._key_filename = <second key file> inside `with cfg._keyfile:` "
                 "the secret written reads back as %r under the second key file" % (got,))


def _scan(obj, key, depth=0, seen=None):
    """Any bytes-like value of >= 16 bytes reachable from obj that shares a 16-byte slice with key."""
    seen = seen if seen is not None else set()
    if id(obj) in seen or depth > 4:
        return None
    seen.add(id(obj))
    if isinstance(obj, (bytes, bytearray, memoryview)):
        b = bytes(obj)
        if len(b) >= 16 and key and (b in key or key in b or any(key[i:i + 16] in b for i in range(0, max(1, len(key) - 15)))):
            return b
        return None
    if isinstance(obj, dict):
        items = list(obj.values())
    elif isinstance(obj, (list, tuple, set, frozenset)):
        items = list(obj)
    elif hasattr(obj, "__dict__") and not isinstance(obj, type):
        items = list(vars(obj).values())
    else:
        return None
    for it in items:
        hit = _scan(it, key, depth + 1, seen)
        if hit is not None:
            return hit
    return None


def _put(path, st):
    if st["state"] == "absent":
        try:
            os.unlink(path)
        except OSError:
            pass
    else:
        old = None
        if st.get("keep_times"):
            try:
                old = os.stat(path)
            except OSError:
                old = None
        with open(path, "wb") as fp:
            fp.write(st["bytes"])
        if old is not None:
            # restored / deployed with preserved timestamps (cp -p, rsync -t): same mtime, other content
            os.utime(path, ns=(old.st_atime_ns, old.st_mtime_ns))


def _read(path):
    try:
        with open(path, "rb") as fp:
            return fp.read()
    except OSError:
        return None


def run(case, ctx, res):
    cc = ctx.cc
    where = case["where"]
    if where == "unreadable":
        return _unreadable_key_file(case, ctx, res)
    config = where == "config"
    if config:
        where = "ok"  # the key file is placed and named as in the other histories
    given = None
    fname = case.get("fname", "app.key")
    if "%" in fname:
        res.count("key_file_names_with_percent_sign")
    if "$" in fname:
        os.environ["VFSTAGE"] = "prod"  # the variable exists; the name is still to be taken literally
        res.count("key_file_names_a_shell_would_expand")
    if where == "ok" and case.get("pathform") == "home":
        hd = os.path.join(os.path.expanduser("~"), "c07-" + os.path.basename(ctx.dir))
        os.makedirs(hd, exist_ok=True)
        path = os.path.join(hd, fname)
        given = "~/" + os.path.basename(hd) + "/" + fname
        res.count("key_file_named_relative_to_home")
    elif where == "ok" and case.get("pathform") == "symlink-dotdot":
        # <app>/current -> <store>/releases/v1 ; the key is named <app>/current/../../<fname>, which the operating system
        # resolves to <store>/<fname> (not to <app>/../<fname>)
        store = os.path.join(ctx.dir, "store")
        os.makedirs(os.path.join(store, "releases", "v1"), exist_ok=True)
        os.makedirs(os.path.join(ctx.dir, "app"), exist_ok=True)
        os.symlink(os.path.join(store, "releases", "v1"), os.path.join(ctx.dir, "app", "current"))
        path = os.path.join(store, fname)
        given = os.path.join(ctx.dir, "app", "current", "..", "..", fname)
        res.count("key_file_named_through_symlink_and_dotdot")
    elif where == "ok" and case.get("pathform") == "link":
        # the key file is named through a symbolic link to where the key is kept; while the key is absent the link dangles,
        # and the key that is then made lands where the link points (as for any program that opens the name for writing)
        os.makedirs(os.path.join(ctx.dir, "keys"), exist_ok=True)
        path = os.path.join(ctx.dir, "keys", fname)
        given = os.path.join(ctx.dir, "link-" + fname)
        os.symlink(path, given)
        res.count("key_file_named_through_a_link_to_the_key")
    elif where == "ok":
        path = os.path.join(ctx.dir, fname)
    elif where == "parent_missing":
        path = os.path.join(ctx.dir, "nodir", "app.key")
    else:
        with open(os.path.join(ctx.dir, "plainfile"), "w") as fp:
            fp.write("x")
        path = os.path.join(ctx.dir, "plainfile", "app.key")
    if where == "ok":
        _put(path, case["init"])
    given = given or path
    # the type of the name: open(), os.path.expanduser() and os.path.exists() take text, bytes and path objects alike
    ptype = case.get("pathtype", "str")
    if ptype != "str":
        given = os.fsencode(given) if ptype == "bytes" else pathlib.Path(given)
        try:
            cc.KeyFile(given)
        except (TypeError, ValueError):
            # a library that refuses such names outright is not judged (the property does not say which types name a file)
            res.count("key_file_name_type_refused_by_the_constructor")
            return
        res.count("key_file_named_by_bytes_path" if ptype == "bytes" else "key_file_named_by_pathlib_path")
    if config:
        return _config_sessions(case, ctx, res, path, given)
    log = FileLog(ctx.sb.root)
    objs = [cc.KeyFile(given) for _ in range(case["nobj"])]
    depth = [0] * case["nobj"]
    key = [None] * case["nobj"]
    everkeys = []  # every key or rejected content an object may have seen
    model_file = _read(path)
    judged_enter = judged_crypto = 0
    rejected_before = set()

    for idx, step in enumerate(case["steps"]):
        kind = step[0]
        feat = "%s@%s" % (kind, "bad-file" if (model_file is not None and len(model_file) != 32) else
                          ("no-file" if model_file is None else "valid-file"))
        if where != "ok":
            feat = "%s@%s" % (kind, where)
        if kind == "file":
            if step[1].get("keep_times") and step[1]["state"] != "absent" and model_file is not None:
                res.count("key_file_replaced_with_preserved_timestamps")
            _put(path, step[1])
            model_file = _read(path)
            rejected_before.clear()
            continue
        o = step[1]
        kf = objs[o]
        if kind == "new":
            objs[o] = cc.KeyFile(given)
            depth[o], key[o] = 0, None
            rejected_before.discard(o)
            continue
        if kind == "genkey":
            # the public generate_key(): writes a new key file; it hands no key to anybody - a closed object stays closed
            # (and an open session goes on with the key it has)
            if where != "ok":
                continue
            try:
                kf.generate_key()
            except Exception as exc:
                res.viol("M-model", "generate-key-raises", "step %d: generate_key() raised %r" % (idx, exc))
                continue
            res.count("public_generate_key_calls")
            model_file = _read(path)
            if model_file is None or len(model_file) != 32:
                res.viol("M-file", "generate-key-file", "step %d: generate_key() left %s" % (idx, "no file" if model_file is None else "%d bytes" % len(model_file)))
            if model_file is not None:
                everkeys.append(model_file)
            rejected_before.clear()
            continue
        before = _read(path)
        log.clear()
        if kind == "enter":
            with log:
                try:
                    kf.__enter__()
                    ok, err = True, None
                except Exception as exc:
                    ok, err = False, exc
            after = _read(path)
            judged_enter += 1
            if depth[o] > 0:
                res.count("nested_enter_judged")
                if not ok:
                    res.viol("M-model", "nested-enter", "step %d: nested enter raised %r" % (idx, err))
                    continue
                depth[o] += 1
                if after != before:
                    res.viol("M-file", "nested-enter", "step %d: key file changed by a nested enter" % idx)
                continue
            if where != "ok":
                res.count("enter_unusable_dir_judged")
                if ok:
                    res.viol("M-model", feat, "step %d: enter succeeded although the key file cannot exist or be created" % idx)
                    depth[o] += 1
                else:
                    res.count("enter_rejected_judged")
                continue
            if model_file is None:
                # must be created once with 32 random bytes
                res.count("created_once_checked")
                if not ok:
                    res.viol("M-model", feat, "step %d: enter raised %r for a missing key file in a writable directory" % (idx, err))
                    continue
                if after is None or len(after) != 32:
                    res.viol("M-file", feat, "step %d: missing key file was not created with 32 bytes (%s)" % (
                        idx, "absent" if after is None else "%d bytes" % len(after)))
                if after is not None and len(after) == 32:
                    seen = ctx.cache.setdefault("created_keys", set())
                    if len(set(after)) < 8 or after[:16] == after[16:] or after[:8] == after[8:16] or after in seen:
                        res.viol("M-file", "created-key-not-random", "step %d: created key does not look like 32 fresh "
                                 "random bytes: %s" % (idx, after.hex()))
                    seen.add(after)
                model_file = after
                depth[o], key[o] = 1, after
                everkeys.append(after)
                res.count("enter_ok_judged")
            elif len(model_file) == 32:
                res.count("enter_ok_judged")
                if not ok:
                    res.viol("M-model", feat, "step %d: enter raised %r for a valid 32-byte key file" % (idx, err))
                    continue
                depth[o], key[o] = 1, model_file
                everkeys.append(model_file)
                if after != before:
                    res.viol("M-file", feat, "step %d: a valid key file was modified by enter" % idx)
                if log.writes(path):
                    res.viol("M-file", feat, "step %d: existing valid key file opened for writing" % idx)
            else:
                res.count("enter_rejected_judged")
                if o in rejected_before:
                    res.count("reenter_after_rejection_judged")
                everkeys.append(model_file)
                if ok:
                    res.viol("M-model", "enter@bad-file" + ("/again" if o in rejected_before else ""),
                             "step %d: enter succeeded with a %d-byte key file%s" % (
                                 idx, len(model_file), " (after an earlier rejection of the same file)" if o in rejected_before else ""))
                    depth[o], key[o] = 1, model_file  # keep going consistently with the library
                else:
                    if not isinstance(err, cc.encryption.EncryptionError):
                        res.viol("M-model", feat, "step %d: %d-byte key file rejected with %s, not an encryption error" % (
                            idx, len(model_file), type(err).__name__))
                    if after != before:
                        res.viol("M-file", feat, "step %d: malformed key file was modified" % idx)
                    hit = _scan(kf, model_file) if len(model_file) >= 16 else None
                    if hit is not None:
                        res.viol("M-retain", "rejected-content", "step %d: rejected key content is retained on the object" % idx)
                    res.count("retention_scans")
                rejected_before.add(o)
        elif kind == "exit":
            if depth[o] == 0:
                continue
            if len(step) > 2:
                # the context is left through an exception (as `with` does when its body raises)
                err = ValueError("body of the with block failed")
                kf.__exit__(ValueError, err, None)
                res.count("exits_with_exception")
            else:
                kf.__exit__(None, None, None)
            depth[o] -= 1
            if depth[o] == 0:
                res.count("retention_scans")
                for k in [key[o]] + everkeys:
                    if k and len(k) >= 16:
                        hit = _scan(kf, k)
                        if hit is not None:
                            res.viol("M-retain", "after-exit", "step %d: key material reachable from the object after the "
                                     "outermost exit" % idx)
                            break
                key[o] = None
            if _read(path) != before:
                res.viol("M-file", "exit", "step %d: key file changed by exit" % idx)
        elif kind in ("enc", "dec"):
            method = step[2]
            judged_crypto += 1
            k = key[o]
            try:
                if kind == "enc":
                    out = kf.encrypt(PLAIN, method=method)
                else:
                    usekey = k if (k and len(k) == 32) else bytes(32)
                    ct = aes_ref.xor_stream(usekey, PLAIN) if method == "xor" else aes_ref.aes_encrypt(usekey, bytes(range(16)), PLAIN)
                    out = kf.decrypt(cc.encryption.SecureValue(method, ct))
                ok, err = True, None
            except Exception as exc:
                ok, err, out = False, exc, None
            if depth[o] == 0:
                res.count("outside_context_rejected")
                if ok:
                    res.viol("M-model", "outside-context", "step %d: %s succeeded outside an open key context" % (idx, kind))
                continue
            if k is None or len(k) != 32:
                # only reachable after a wrongly accepted file (already reported) - nothing more to judge
                if ok:
                    res.viol("M-model", "crypto-with-rejected-key", "step %d: %s returned a value using a %s-byte key file" % (
                        idx, kind, "?" if k is None else len(k)))
                continue
            if not ok:
                res.viol("M-model", feat, "step %d: %s(%s) raised %r inside an open context" % (idx, kind, method, err))
                continue
            if kind == "enc":
                if out.method == "xor":
                    stream = bytes(a ^ b for a, b in zip(out.ciphertext, PLAIN))
                    res.count("key_measured_from_xor")
                    if stream != (k * 2)[:48]:
                        res.viol("M-key", feat, "step %d: key in use %s.. is not the key file's content %s.." % (
                            idx, stream[:8].hex(), k[:8].hex()))
                else:
                    res.count("key_measured_from_aes")
                    if aes_ref.aes_decrypt(k, out.ciphertext) != PLAIN:
                        res.viol("M-key", feat, "step %d: AES output does not decrypt under the key file's content" % idx)
            else:
                res.count("decrypt_under_file_key")
                if out != PLAIN:
                    res.viol("M-key", feat, "step %d: decrypt under the key file's content gave other bytes" % idx)
            if _read(path) != before:
                res.viol("M-file", feat, "step %d: key file changed by %s" % (idx, kind))
    if judged_enter and judged_crypto:
        res.nontrivial(case["where"], case["init"], case["steps"])


def abbreviate(case):
    return case
