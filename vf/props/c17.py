"""C17 - typed list/dict values behave like built-in list/dict of validated items."""
import copy
import types

from .. import gen, model, spec
from ..common import eqstar, plain, weighted

PLAN = {
    "quick": {"shards": 8, "cases": 2000, "min_nontrivial": 8000, "budget_s": 300},
    "thorough": {"shards": 16, "cases": 40000, "min_nontrivial": 224000, "budget_s": 1500},
}
RULE = ("a case is a typed list or dict field (item/key/value families with concrete normal forms, including "
        "normalising ones: numbers from text, case/strip transforms on keys) plus a history of 1-30 operations with "
        "arguments from every iterable kind (list, tuple, iterator, generator, proxy of the same field, proxy of "
        "another field, range, string, non-dict mapping, pairs, keywords); each operation is first applied to a "
        "builtin list/dict of model normal forms (skipped when the builtin rejects it) and then to the proxy: "
        "contents, order, length, return value and result types are compared after every step; copies, + and += "
        "results must stay typed (they must reject an invalid item); text items whose normalisation is not idempotent (a "
        "stored item must not pass through the field again); for lists of configurations one object is handed to the lists of "
        "two configurations and compared, also after it was changed, with the builtin list given the same objects; non-trivial = >= 2 operations compared with "
        ">= 1 mutation; distinct = distinct (field, history)")
REQUIRED = ("dict_equality_with_a_sibling_field", "setdefault_lookups_of_existing_keys", "update_keywords_named_like_parameters", "positions_given_as_index_objects", "members_equal_up_to_an_inner_default_changed_in_place", "dict_equality_with_a_twin_configuration", "list_equality_with_a_twin_configuration", "dict_equality_queries", "list_equality_queries", "config_item_lists", "ops_compared", "list_ops_compared", "dict_ops_compared", "typed_result_probes", "op:setslice", "op:ior",
            "op:setdefault", "op:update", "op:extend", "op:iadd", "iter:iter", "iter:proxy_other", "iter:mapping",
            "update:proxy_same+kwargs", "update:proxy_other+kwargs", "update:pairs+kwargs", "iter:gen_dedup", "iter:multimap",
            "sorts_with_key_and_reverse", "members_removed_by_object", "equal_members_added",
            "members_shared_between_two_configurations", "shared_members_changed_afterwards",
            "concatenations_of_lists_holding_items_a_second_pass_would_change")
ASSUMPTIONS = ["operations the builtin rejects are skipped; operations with an argument the model labels invalid "
               "must raise and are followed by a resynchronisation of the model (partial application of multi-element "
               "operations is not part of this property)"]
SHRINK_KEY = "ops"
ITEM_FAMS = ["str", "str", "loglevel", "int", "int", "float", "port", "bool", "ipv4", "net", "host", "url", "bytes"]
KEY_FAMS = ["str", "str", "loglevel", "int", "host"]


def _mkfield(rng, fam):
    f = gen.gen_field(rng, fam, 0, gen.SCALAR_FAMILIES)
    f["params"].pop("required", None)
    return f


def _restrip_field(rng):
    """A text field whose normalisation is not idempotent: characters are stripped in one case only and the text is then
    turned into that case ('Xax' with strip 'x' + lower is stored as 'xa'; a second pass would make it 'a').  What a typed
    list holds is the normal form: an operation that passes stored items through the field again shows up as a difference."""
    lower = rng.random() < 0.5
    letters = rng.sample("abqxyz", rng.choice([1, 1, 2]))
    p = {"transform_strip": "".join(c if lower else c.upper() for c in letters) + rng.choice(["", "", "-", " ", "_."]),
         "transform_case": rng.choice(["lower", "LOWER"] if lower else ["upper", "Upper"])}
    if rng.random() < 0.3:
        p["min_len"] = rng.choice([0, 1, 2])
    if rng.random() < 0.2:
        p["max_len"] = rng.choice([5, 8])
    return {"kind": "field", "family": "str", "params": p}


def _edge_chars(f):
    """Characters that survive the field's strip but turn into stripped ones through its case transform."""
    if not f or f.get("kind", "field") != "field" or f.get("family") != "str":
        return []
    strip, case = f.get("params", {}).get("transform_strip"), f.get("params", {}).get("transform_case")
    if not isinstance(strip, str) or not case:
        return []
    low = case.lower() == "lower"
    out = []
    for c in strip:
        if c.isalpha() and (c.islower() if low else c.isupper()):
            e = c.upper() if low else c.lower()
            if e not in strip and e != c:
                out.append(e)
    return out


def _edge_value(rng, f, edges):
    e = rng.choice(edges)
    core = rng.choice(["a", "core", "Mid", "k9", "x", "yb", "Zq", "abc", "b-b", "Q", ""])
    return rng.choice(["", "", f["params"]["transform_strip"][0]]) + e * rng.choice([1, 1, 2]) + core + rng.choice(["", e, e])


def _vals(rng, f, n, bad=0.0):
    if f.get("kind") in ("schema", "ctype"):
        out = []
        for _ in range(n):
            t = gen.tree_for(rng, f, None, valid=rng.random() >= bad, partial=0.3)
            out.append(t if rng.random() < 0.95 else rng.choice([5, "x", None]))
        return out
    out = []
    edges = _edge_chars(f)
    for _ in range(n):
        want = "invalid" if rng.random() < bad else "valid"
        if edges and want == "valid" and rng.random() < 0.65:
            v = _edge_value(rng, f, edges)
            if model.accepts(f, v)[0] is True:
                out.append(v)
                continue
        v = gen.one_value(rng, f, want)
        if v is None and want == "valid" and rng.random() < 0.8:
            v = gen.one_value(rng, f, "valid")
        out.append(v)
    return out


def _iterable(rng, f, kinds, bad):
    kind = rng.choice(kinds)
    n = rng.choice([0, 1, 2, 2, 3, 4])
    vals = _vals(rng, f, n, bad)
    if kind == "range":
        vals = list(range(rng.randrange(0, 3), rng.randrange(3, 6)))
    if kind == "str":
        vals = list("".join(str(v) for v in vals if isinstance(v, str))[:4])
    return {"kind": kind, "vals": vals}


def generate(rng, ctx):
    maxops = 30 if ctx.tier == "thorough" else 16
    nops = rng.randrange(1, maxops + 1)
    bad = rng.choice([0.0, 0.0, 0.1, 0.25])
    if rng.random() < 0.5:
        cfg_items = rng.random() < 0.3
        if cfg_items:
            sub = {"kind": "schema", "key": "", "fields": []}
            for k in gen.pick_keys(rng, rng.choice([1, 2, 3])):
                fld = _mkfield(rng, rng.choice(["str", "int", "bool", "float", "host"]))
                fld["key"] = k
                if rng.random() < 0.25:
                    fld["params"]["required"] = True
                sub["fields"].append(fld)
            if rng.random() < 0.6:
                # a typed list with a default inside the item: changing it in place leaves the item's field "at its default"
                sub["fields"].append({"kind": "field", "key": "ztags", "family": "list", "params": {"default": []},
                                      "item": {"kind": "field", "family": "str", "params": {}}})
            item = sub if rng.random() < 0.5 else {"kind": "ctype", "key": "", "name": "CI", "schema": sub}
        else:
            item = _mkfield(rng, rng.choice(ITEM_FAMS))
            if rng.random() < (0.5 if item["family"] == "str" else 0.1):
                item = _restrip_field(rng)
        restrip = bool(_edge_chars(item))
        f = {"kind": "field", "key": "c", "family": "list", "params": {}, "item": item}
        kinds = ["list", "tuple", "iter", "gen", "proxy_same", "list", "iter"] + ([] if cfg_items else ["proxy_other"])
        if restrip:
            # (whether the items of another typed list of this field are "put in" as they are or normalised once more is the
            # same for every idempotent field; here it is not, and the property does not settle it: not generated)
            kinds = [k for k in kinds if k != "proxy_same"]
        if item.get("family") in ("int", "float", "port", "bool"):
            kinds.append("range")
        if item.get("family") == "str":
            kinds.append("str")
        ops = []
        for _ in range(nops):
            name = weighted(rng, [(4, "append"), (3, "insert"), (4, "extend"), (3, "setitem"), (5, "setslice"),
                                  (3, "iadd"), (6 if restrip else 2, "add"), (1, "mul"), (1, "imul"), (2, "copy"), (2, "pop"), (1, "remove"),
                                  (1, "delitem"), (1, "delslice"), (1, "sort"), (1, "reverse"), (0.5, "clear"),
                                  (2, "query")])
            if cfg_items and name in ("remove", "sort", "imul", "mul", "query"):
                name = "append"
                if item["kind"] == "ctype" and rng.random() < 0.6:
                    # configuration types compare by content: a second member equal to an earlier one, and removal of a
                    # member by handing the object itself over (the builtin takes out the first EQUAL one)
                    name = rng.choice(["dup_member", "remove_member", "remove_member", "default_alias_probe"])
            op = {"op": name}
            if name in ("append", "insert", "setitem", "remove"):
                op["x"] = _vals(rng, item, 1, bad)[0]
            if name in ("insert", "setitem", "pop", "delitem"):
                op["i"] = rng.randrange(-4, 6)
                op["index_object"] = rng.random() < 0.3
            if name in ("extend", "iadd", "add", "setslice"):
                op["it"] = _iterable(rng, item, kinds, bad)
                if name in ("extend", "iadd") and not cfg_items and rng.random() < 0.2:
                    # a lazy argument that looks at the list while it is being extended (the builtin consumes it item by item)
                    vs = [v for v in _vals(rng, item, 3, 0.0)]
                    op["it"] = {"kind": "gen_dedup", "vals": vs + vs[:2] + vs[:1]}
            if name in ("setslice", "delslice"):
                op["a"], op["b"] = rng.choice([None, 0, 1, 2, -1]), rng.choice([None, 0, 1, 3, -1])
                op["c"] = rng.choice([None, None, None, 1, 2, -1])
            if name in ("mul", "imul"):
                op["n"] = rng.choice([0, 1, 2, 3, -1])
            if name == "sort":
                op["reverse"] = rng.random() < 0.5
                op["key"] = rng.choice([None, None, "len_str", "first", "const", "mod10"])
            if name in ("dup_member", "remove_member", "default_alias_probe"):
                op["i"] = rng.randrange(0, 6)
            ops.append(op)
        init = _vals(rng, item, rng.choice([0, 1, 3, 5]))
        if restrip and not init:
            init = _vals(rng, item, 2)
        if cfg_items:
            # one configuration object as an item of the lists of two configurations of the schema
            shared = []
            for _ in range(2):
                shared.append({"xs": _vals(rng, item, rng.choice([1, 2, 3]), 0.0), "own": _vals(rng, item, rng.choice([0, 1, 2]), 0.0),
                               "i": rng.randrange(0, 3), "pos": rng.randrange(-2, 3),
                               "via": rng.choice(["append", "insert", "extend_list", "extend_iter", "extend_proxy", "iadd_proxy", "add_list",
                                                  "add_proxy", "setslice", "setitem", "assign_list", "assign_proxy"]),
                               "change": gen.tree_for(rng, item, None, valid=True, partial=0.0)})
    else:
        kf = _mkfield(rng, rng.choice(KEY_FAMS)) if rng.random() < 0.9 else None
        vf = _mkfield(rng, rng.choice(ITEM_FAMS)) if rng.random() < 0.9 or kf is None else None
        f = {"kind": "field", "key": "c", "family": "dict", "params": {}, "keyf": kf, "valf": vf}
        kinds = ["dict", "pairs", "pairs_iter", "kwargs", "dict+kwargs", "none", "proxy_same", "proxy_other", "mapping",
                 "pairs_tuple", "proxy_same+kwargs", "proxy_other+kwargs", "pairs+kwargs", "mapping+kwargs", "pairs_iter+kwargs",
                 "multimap"]
        ops = []

        def pairs(n):
            ks = _vals(rng, kf, n, bad) if kf else [rng.choice(["k1", "k2", "kk", "K", 5]) for _ in range(n)]
            vs = _vals(rng, vf, n, bad) if vf else [rng.choice([1, "x", None, [1]]) for _ in range(n)]
            return [[k, v] for k, v in zip(ks, vs)]

        for _ in range(nops):
            name = weighted(rng, [(4, "setitem"), (6, "update"), (4, "setdefault"), (4, "ior"), (2, "pop"), (1, "popitem"),
                                  (1, "delitem"), (0.5, "clear"), (2, "copy"), (2, "query"), (1, "or")])
            op = {"op": name}
            if name in ("setitem", "setdefault", "pop", "delitem"):
                kv = pairs(1)[0]
                op["k"], op["v"] = kv
                op["has_v"] = rng.random() < 0.6
            if name in ("update", "ior", "or"):
                k = rng.choice(kinds if name == "update" else ["dict", "pairs", "mapping", "proxy_same", "proxy_other"])
                op["it"] = {"kind": k, "pairs": pairs(rng.choice([0, 1, 2, 3]))}
                if k in ("kwargs", "dict+kwargs", "pairs+kwargs") and op["it"]["pairs"] and rng.random() < 0.35 and (
                        kf is None or kf["family"] == "str"):
                    # keyword names that a careless signature would take for its own parameters
                    op["it"]["pairs"][-1][0] = rng.choice(["iterable", "self", "other", "kwargs", "mapping"])
                    op["it"]["named_like_parameters"] = True
                if k == "multimap":
                    # a multi-valued mapping (like e-mail headers): one name twice with different values
                    ps = pairs(3)
                    op["it"]["pairs"] = ps + [[ps[0][0], ps[1][1]], [ps[2][0], ps[0][1]]]
            ops.append(op)
            if name == "setitem" and vf and vf.get("family") == "float" and rng.random() < 0.5:
                # one key given two values in a row that compare equal but are not the same (the zero of either sign, an
                # integer and the float equal to it): the builtin holds the later one
                first, second = rng.choice([(0.0, -0.0), (-0.0, 0.0), (-0.0, 0), (0, -0.0)])
                op["v"] = first
                ops.append({"op": "setitem", "k": op["k"], "v": second, "has_v": True})
        init = pairs(rng.choice([0, 1, 3]))
    def tidy(o):
        # (the inner list of an item is there for the member operations; what the item schema makes of odd values for it is
        # not this property's subject: it is left out unless it is a plain list of texts)
        if isinstance(o, dict):
            if "ztags" in o and not (isinstance(o["ztags"], list) and all(isinstance(t, str) for t in o["ztags"])):
                del o["ztags"]
            for v in o.values():
                tidy(v)
        elif isinstance(o, list):
            for v in o:
                tidy(v)

    tidy(init)
    tidy(ops)
    case = {"field": f, "init": init, "ops": ops}
    if f["family"] == "list" and cfg_items:
        tidy(shared)
        case["shared"] = shared
    return case


# ------------------------------------------------------------------------------------------------


def _loose_field(node):
    """Same kind of values, none of the constraints or transforms: a 'different field' whose proxies hold items
    the target field must validate and normalise again."""
    if node is None:
        return None
    if node.get("kind") in ("schema", "ctype"):
        return copy.deepcopy(node)
    fam = node["family"]
    if fam in ("str", "loglevel", "ipv4", "net", "host", "url"):
        return {"kind": "field", "family": "str", "params": {}}
    if fam in ("int", "port"):
        return {"kind": "field", "family": "int", "params": {}}
    if fam == "float":
        return {"kind": "field", "family": "float", "params": {}}
    out = copy.deepcopy(node)
    return out


def _loosen(f):
    out = copy.deepcopy(f)
    for sub in ("item", "keyf", "valf"):
        if sub in out:
            out[sub] = _loose_field(out[sub])
    if out["family"] == "dict" and out.get("keyf") is None and out.get("valf") is None:
        out["valf"] = {"kind": "field", "family": "int", "params": {}}
    return out


class Skip(Exception):
    pass



def _builtin_rejects(res, exc, fn, ref, proxy, what):
    """The builtin answered the call with IndexError / KeyError / ValueError (no such position, key or member) although every
    item handed over is acceptable.  A container that behaves like the builtin cannot carry the call out instead: the typed one
    must raise as well and hold what it held.  (Which exception class it raises is not judged.)"""
    if not isinstance(exc, (IndexError, KeyError, ValueError)):
        raise Skip()
    res.count("calls_the_builtin_rejects_given_to_the_typed_container")
    try:
        fn()
    except Exception:
        d = _cmp(ref, proxy)
        if d:
            return "viol", "%s: the builtin raises %s and keeps its contents, the typed container raised and changed: %s" % (what, type(exc).__name__, d)
        raise Skip()
    return "viol", "%s: the builtin raises %r, the typed container carried the call out: %s" % (what, exc, _cmp(ref, proxy) or "contents unchanged")


def _norm_item(f, x):
    if f is None:
        return True, x
    if f.get("kind") in ("schema", "ctype"):
        if not isinstance(x, dict):
            return False, None
        return model.accepts_tree(f, x)
    return model.accepts(f, x)


def run(case, ctx, res):
    cc = ctx.cc
    f = case["field"]
    other = _loosen(f)
    other["key"] = "other"
    root = {"kind": "schema", "key": "", "fields": [f, other]}
    if f["family"] == "dict" and (f.get("valf") or {}).get("family") in ("int", "port"):
        # a sibling dict field whose values are declared as another number type (for comparisons of equal entries)
        root["fields"].append({"kind": "field", "key": "other_float", "family": "dict", "params": {}, "keyf": _loose_field(f.get("keyf")),
                               "valf": {"kind": "field", "family": "float", "params": {}}})
    built = spec.build(cc, root)
    cfg = built.schema()
    is_list = f["family"] == "list"
    # initial content: only model-valid entries
    if is_list:
        init = [x for x in case["init"] if _norm_item(f["item"], x)[0] is True]
        cfg.c = [spec.realize(cc, x) for x in init]
        ref = [_norm_item(f["item"], x)[1] for x in init]
    else:
        ref, raw = {}, {}
        for k, v in case["init"]:
            ok1, nk = _norm_item(f["keyf"], k)
            ok2, nv = _norm_item(f["valf"], v)
            if ok1 is True and ok2 is True and _hashable(nk):
                ref[nk] = nv
                raw[k] = v
        # re-derive through the proxy so that colliding normalised keys behave like the builtin
        ref = {}
        for k, v in raw.items():
            ref[_norm_item(f["keyf"], k)[1]] = _norm_item(f["valf"], v)[1]
        cfg.c = raw
    proxy = cfg.c
    if proxy is None:
        return
    if is_list and f["item"].get("kind") in ("schema", "ctype"):
        res.count("config_item_lists")
    d = _cmp(ref, proxy)
    if d:
        res.viol("M-differential", "init", "initial content differs: %s" % d)
        return
    compared = mutations = 0
    for idx, op in enumerate(case["ops"]):
        name = op["op"]
        try:
            outcome = (_list_op if is_list else _dict_op)(cc, cfg, f, proxy, ref, op, res)
        except Skip:
            res.count("ops_skipped_builtin_rejects")
            continue
        if outcome is None:
            continue
        kind, detail = outcome
        res.count("op:" + name)
        if op.get("it"):
            res.count("iter:" + op["it"]["kind"])
        feat = "%s.%s%s" % ("list" if is_list else "dict", name, ("(" + op["it"]["kind"] + ")") if op.get("it") else "")
        if kind == "viol":
            res.viol("M-differential", feat, "step %d %s: %s" % (idx, _opstr(op), detail))
            return
        if kind == "invalid-raised":
            res.count("invalid_argument_rejected")
            # resynchronise (partial application is not judged here); contents must still be typed
            ref = list(plain(proxy)) if is_list else dict(plain(proxy))
            continue
        compared += 1
        res.count("ops_compared")
        res.count("list_ops_compared" if is_list else "dict_ops_compared")
        if name not in ("query", "copy", "add", "mul", "or"):
            mutations += 1
        d = _cmp(ref, proxy)
        if d:
            res.viol("M-differential", feat, "step %d %s: %s" % (idx, _opstr(op), d))
            return
        if cfg.c is not proxy:
            res.viol("M-differential", feat, "step %d: the configuration no longer holds the proxy" % idx)
            return
    if compared >= 2 and mutations >= 1:
        res.nontrivial(case["field"], case["init"], case["ops"])
    for sh in case.get("shared") or ():
        d = _shared_member(cc, cfg, f, sh, res)
        if d:
            res.viol("M-differential", "list.%s(member of another configuration's list)" % sh["via"], "%s: %s" % (_opstr(sh), d))
            return


def _shared_member(cc, cfg, f, sh, res):
    """One configuration object put into the typed lists of two configurations of the schema.  The builtin list that is given
    the same objects is the oracle (no model): contents, length and the answers to in / index / count / remove must agree
    right after the hand-over and after the object was changed through the reference the caller kept."""
    item = f["item"]

    def trees(xs):
        return [spec.realize(cc, x) for x in xs if isinstance(x, dict) and _norm_item(item, x)[0] is True]

    try:
        first, second = cfg._schema(), cfg._schema()
        first.c = trees(sh["xs"])
        second.c = trees(sh["own"])
        held, target = first.c, second.c
        if not held or target is None:
            return None
    except Exception:
        return None  # (what the field makes of the trees is judged by the histories)
    blist = list(target)
    member = held[sh["i"] % len(held)]
    via, pos = sh["via"], sh["pos"]
    try:
        if via == "append":
            target.append(member)
            blist.append(member)
        elif via == "insert":
            target.insert(pos, member)
            blist.insert(pos, member)
        elif via == "extend_list":
            target.extend([member])
            blist.extend([member])
        elif via == "extend_iter":
            target.extend(iter((member,)))
            blist.extend(iter((member,)))
        elif via == "extend_proxy":
            target.extend(held)
            blist.extend(list(held))
        elif via == "iadd_proxy":
            target = target.__iadd__(held)
            blist += list(held)
        elif via == "add_list":
            target = target + [member]
            blist = blist + [member]
        elif via == "add_proxy":
            target = target + held
            blist = blist + list(held)
        elif via == "setslice":
            target[0:1] = iter([member])
            blist[0:1] = [member]
        elif via == "setitem":
            if not blist:
                return None
            target[pos % len(blist)] = member
            blist[pos % len(blist)] = member
        elif via == "assign_list":
            second.c = [member] + blist
            target, blist = second.c, [member] + blist
        else:
            second.c = held
            target, blist = second.c, list(held)
    except Exception:
        res.count("shared_member_hand_over_refused")
        return None
    res.count("members_shared_between_two_configurations")

    def differs(when):
        if not isinstance(target, list):
            return "%s: the value is a %s" % (when, type(target).__name__)
        got, want = [plain(m) for m in target], [plain(m) for m in blist]
        if len(target) != len(blist) or not eqstar(got, want):
            return "%s: the typed list holds %r, the builtin list given the same objects holds %r" % (when, got, want)
        return None

    d = differs("after the hand-over")
    if d:
        return d
    before = plain(member)
    for key, raw in sorted(sh["change"].items()):
        try:
            if key == "ztags":
                member.ztags.append("zz")
            elif not isinstance(raw, (dict, list)):
                setattr(member, key, spec.realize(cc, raw))
        except Exception:
            pass
    if not eqstar(plain(member), before):
        res.count("shared_members_changed_afterwards")
    d = differs("after the object was changed")
    if d:
        return d
    try:
        checks = [("in", member in target, member in blist), ("count", target.count(member), blist.count(member)),
                  ("index", target.index(member), blist.index(member))]
    except Exception as exc:
        return "a query with the object raised %r, the builtin list answers it" % (exc,)
    for what, a, b in checks:
        if a != b:
            return "%s of the object gives %r, the builtin list gives %r" % (what, a, b)
    try:
        got = target.remove(member)
    except Exception as exc:
        return "remove(object) raised %r, the builtin list removes it" % (exc,)
    blist.remove(member)
    if got is not None:
        return "remove returned %r" % (got,)
    if len(held) != len(first.c) or not any(m is member for m in first.c):
        return "the list the object was taken from lost it"
    return differs("after remove(object)")


def _has_nan(vals):
    return any(isinstance(v, float) and v != v for v in vals)


def _hashable(k):
    try:
        hash(k)
        return True
    except TypeError:
        return False


def _opstr(op):
    from ..jsonx import short

    return short(op, 300)


def _cmp(ref, proxy):
    got = plain(proxy)
    if isinstance(ref, list):
        if not isinstance(proxy, list):
            return "value is a %s" % type(proxy).__name__
        if any(isinstance(x, dict) for x in ref):
            d = model.match(list(ref), list(got))
            return ("builtin has %r, proxy has %r (%s)" % (ref, list(got), d)) if d else None
        if not eqstar(ref, list(got), zero_sign=True):
            return "builtin has %r, proxy has %r" % (ref, list(got))
        if len(proxy) != len(ref):
            return "len differs"
        return None
    if not isinstance(proxy, dict):
        return "value is a %s" % type(proxy).__name__
    if not eqstar(list(ref.items()), [(k, v) for k, v in got.items()], zero_sign=True):
        return "builtin has %r, proxy has %r" % (ref, dict(got))
    return None


def _labels(f, vals):
    """(all_valid, any_unknown, norms)"""
    norms, allok, unk = [], True, False
    for v in vals:
        ok, n = _norm_item(f, v)
        if ok is None:
            unk = True
        elif ok is False:
            allok = False
        norms.append(n)
    return allok, unk, norms


def _make_iter(cc, cfg, f, it, is_list):
    """Materialise an iterable argument of the requested kind."""
    kind = it["kind"]
    vals = [spec.realize(cc, v) for v in it.get("vals", [])]
    if kind == "list":
        return list(vals)
    if kind == "tuple":
        return tuple(vals)
    if kind == "iter":
        return iter(list(vals))
    if kind == "gen":
        return (v for v in list(vals))
    if kind == "range":
        return range(vals[0], vals[-1] + 1) if vals else range(0)
    if kind == "str":
        return "".join(vals)
    if kind == "proxy_same":
        cfg2 = cfg
        return type(cfg.c)(cfg2, _field(cfg, "c"), vals)
    if kind == "proxy_other":
        cfg.other = vals
        return cfg.other
    raise ValueError(kind)


class _Index:
    def __init__(self, i):
        self.i = i

    def __index__(self):
        return self.i

    def __repr__(self):
        return "Index(%d)" % self.i


def _field(cfg, key):
    import cincoconfig

    for path, _schema, field in cincoconfig.get_all_fields(cfg):
        if path == key:
            return field
    raise KeyError(key)


def _expect_raise(fn):
    try:
        fn()
    except Exception:
        return True
    return False


def _probe_typed(res, result, f, what, is_list):
    """A copy / concatenation must stay typed: it rejects an invalid item (no item family used
    here accepts a bare object())."""
    bad = object()
    res.count("typed_result_probes")
    try:
        if is_list:
            result.append(bad)
        elif f["valf"] is not None:
            if not len(result):
                return None
            result[next(iter(result))] = bad
        else:
            result[bad] = 1
    except Exception:
        return None
    return "%s accepted an invalid item %r - it is not typed and validated (type %s)" % (what, bad, type(result).__name__)


_SORT_KEYS = {None: None, "len_str": lambda v: len(str(v)), "first": lambda v: str(v)[:1], "const": lambda v: 0,
              "mod10": lambda v: (hash(str(v)) if not isinstance(v, (int, float)) or v != v else int(v)) % 10 if not (
                  isinstance(v, float) and (v != v or v in (float("inf"), float("-inf")))) else 0}


def _list_op(cc, cfg, f, proxy, ref, op, res):
    item = f["item"]
    name = op["op"]
    if name == "query":
        checks = [("len", len(proxy), len(ref)), ("bool", bool(proxy), bool(ref))]
        if not _has_nan(ref):
            checks.append(("eq", proxy == list(ref), True))
            checks += [("eq-copy", proxy == proxy.copy(), True), ("ne", proxy != list(ref), False), ("eq-none", proxy == None, False),  # noqa: E711
                       ("eq-tuple", proxy == tuple(ref), False), ("eq-longer", proxy == list(ref) + [None], False),
                       ("lt-longer", proxy < list(ref) + [list(ref)[0]] if ref else True, True)]
            res.count("list_equality_queries")
            if item.get("kind", "field") == "field":
                try:
                    twin = cfg._schema()
                    twin.c = list(plain(proxy))
                    twin_c = twin.c if eqstar(plain(twin.c), plain(proxy)) else None
                except Exception:
                    twin_c = None
                if twin_c is not None:
                    checks += [("eq-twin", proxy == twin_c, True), ("ne-twin", proxy != twin_c, False)]
                    res.count("list_equality_with_a_twin_configuration")
        got = plain(proxy)
        if ref and not _has_nan(ref):
            x = ref[len(ref) // 2]
            try:
                checks += [("index", got.index(x), ref.index(x)), ("count", got.count(x), ref.count(x)),
                           ("getitem", got[-1], ref[-1]), ("slice", got[1:3], ref[1:3]), ("contains", x in proxy, True)]
            except Exception as exc:
                return "viol", "query raised %r" % (exc,)
        checks.append(("iteration", [plain(v) for v in proxy], list(ref)))
        for what, a, b in checks:
            if not eqstar(a, b):
                return "viol", "%s gives %r, builtin gives %r" % (what, a, b)
        return "ok", None
    if name == "default_alias_probe":
        # two members that are equal and still hold the default of their inner list; one of them has that list changed in
        # place; the other one is then looked up, counted and removed by handing the object over
        if not len(ref):
            return None
        i = op["i"] % len(ref)
        import copy as _copy

        member = proxy[i]
        try:
            if "ztags" not in ref[i] or ref[i]["ztags"] != [] or cc.is_value_defined(member, "ztags"):
                return None
        except Exception:
            return None
        sparse = {k: _copy.deepcopy(v) for k, v in plain(member).items() if k != "ztags"}
        try:
            proxy.append(sparse)
        except Exception as exc:
            return "viol", "append of a copy of member %d without its inner list raised %r" % (i, exc)
        ref.append(_copy.deepcopy(ref[i]))
        member.ztags.append("zz")
        ref[i] = dict(ref[i], ztags=["zz"])
        probe = proxy[len(proxy) - 1]
        res.count("members_equal_up_to_an_inner_default_changed_in_place")
        checks = [("index", proxy.index(probe), ref.index(ref[-1])), ("count", proxy.count(probe), ref.count(ref[-1])),
                  ("contains", probe in proxy, True), ("eq", member == probe, ref[i] == ref[-1])]
        for what, a, b in checks:
            if a != b:
                return "viol", "%s of the unchanged twin member gives %r, builtin gives %r" % (what, a, b)
        trial = list(ref)
        trial.remove(ref[-1])
        proxy.remove(probe)
        ref[:] = trial
        return "ok", None
    if name in ("dup_member", "remove_member"):
        if not len(ref):
            return None
        i = op["i"] % len(ref)
        if name == "dup_member":
            import copy as _copy

            res.count("equal_members_added")
            proxy.append(_copy.deepcopy(plain(proxy[i])))
            ref.append(_copy.deepcopy(ref[i]))
            return "ok", None
        member = proxy[i]
        trial = list(ref)
        trial.remove(ref[i])
        try:
            got = proxy.remove(member)
        except Exception as exc:
            return "viol", "remove(member) raised %r" % (exc,)
        res.count("members_removed_by_object")
        ref[:] = trial
        if got is not None:
            return "viol", "remove returned %r" % (got,)
        return "ok", None
    if name in ("append", "insert", "setitem"):
        ok, n = _norm_item(item, op["x"])
        if ok is None:
            return None
        x = spec.realize(cc, op["x"])
        trial = list(ref)
        try:
            if name == "append":
                want = trial.append(n)
            elif name == "insert":
                want = trial.insert(op["i"], n)
            else:
                trial[op["i"]] = n
                want = None
        except Exception as exc:
            rejected = exc
        else:
            rejected = None
        pos = op.get("i")
        if pos is not None and op.get("index_object"):
            pos = _Index(pos)  # an object with __index__ (numpy integers, enum members ...) is a position like any int
            res.count("positions_given_as_index_objects")
        fn = {"append": lambda: proxy.append(x), "insert": lambda: proxy.insert(pos, x),
              "setitem": lambda: proxy.__setitem__(pos, x)}[name]
        if rejected is not None:
            if not ok:
                raise Skip()
            return _builtin_rejects(res, rejected, fn, ref, proxy, "%s at position %r of %d items" % (name, op.get("i"), len(ref)))
        if not ok:
            return ("invalid-raised", None) if _expect_raise(fn) else ("viol", "invalid item %r was accepted" % (op["x"],))
        try:
            got = fn()
        except Exception as exc:
            return "viol", "raised %r for an acceptable argument (normal form %r)" % (exc, n)
        ref[:] = trial
        if got is not want:
            return "viol", "returned %r, builtin returns %r" % (got, want)
        return "ok", None
    if name in ("extend", "iadd", "add", "setslice"):
        it = op["it"]
        vals = it["vals"]
        node = item
        arg = None
        if it["kind"] == "proxy_other":
            try:
                arg = _make_iter(cc, cfg, f, it, True)
            except Exception:
                return None  # cannot even build the argument
            vals = list(plain(arg))
        allok, unk, norms = _labels(node, vals)
        if it["kind"] == "proxy_same" and not allok:
            return None
        if unk:
            return None
        trial = list(ref)
        if it["kind"] == "gen_dedup":
            if not allok or _has_nan(norms) or _has_nan(ref):
                return None
            real = [spec.realize(cc, v) for v in vals]
            try:
                for rv, nv in zip(real, norms):
                    if rv not in trial:
                        trial.append(nv)
            except Exception:
                return None
            arg = (rv for rv in real if rv not in proxy)
            res.count("iter:gen_dedup")
        try:
            if it["kind"] == "gen_dedup":
                pass
            elif name == "setslice":
                trial[slice(op["a"], op["b"], op["c"])] = list(norms)
            else:
                trial.extend(norms)
        except Exception:
            raise Skip()
        if arg is None:
            arg = _make_iter(cc, cfg, f, it, True)
        result = None

        def fn():
            nonlocal result
            if name == "extend":
                result = proxy.extend(arg)
            elif name == "iadd":
                result = proxy.__iadd__(arg)
            elif name == "add":
                result = proxy + arg
            else:
                proxy[slice(op["a"], op["b"], op["c"])] = arg

        if not allok:
            return ("invalid-raised", None) if _expect_raise(fn) else ("viol", "iterable with an invalid item %r was accepted" % (vals,))
        if name == "add" and it["kind"] not in ("list", "proxy_same", "proxy_other"):
            # builtin list + non-list raises TypeError: skipped
            raise Skip()
        try:
            fn()
        except Exception as exc:
            return "viol", "raised %r for acceptable items (normal forms %r)" % (exc, norms)
        if name == "add":
            if _edge_chars(item) and any(not eqstar(_norm_item(item, r)[1], r) for r in ref):
                res.count("concatenations_of_lists_holding_items_a_second_pass_would_change")
            if not eqstar(list(plain(result)), trial):
                return "viol", "+ gives %r, builtin gives %r" % (list(plain(result)), trial)
            bad = _probe_typed(res, result, f, "the result of +", True)
            if bad:
                return "viol", bad
            if not eqstar(list(plain(proxy)), list(ref)):
                return "viol", "+ changed the left operand"
            return "ok", None
        ref[:] = trial
        if name == "iadd":
            if result is not proxy:
                return "viol", "+= returned a different object (%s)" % type(result).__name__
        elif name == "extend" and result is not None:
            return "viol", "extend returned %r" % (result,)
        return "ok", None
    if name in ("mul", "imul"):
        n = op["n"]
        if name == "mul":
            got = proxy * n
            if not eqstar(list(plain(got)), ref * n):
                return "viol", "* gives %r, builtin %r" % (got, ref * n)
            return "ok", None
        got = proxy.__imul__(n)
        ref *= n
        if got is not proxy:
            return "viol", "*= returned a different object"
        return "ok", None
    if name == "copy":
        c = proxy.copy()
        if not eqstar(list(plain(c)), list(ref)):
            return "viol", "copy has %r" % (c,)
        if c is proxy:
            return "viol", "copy returned the same object"
        bad = _probe_typed(res, c, f, "the copy", True)
        if bad:
            return "viol", bad
        if not eqstar(list(plain(proxy)), list(ref)):
            return "viol", "mutating the copy changed the original"
        return "ok", None
    trial = list(ref)
    try:
        if name == "pop":
            want = trial.pop(op["i"])
        elif name == "remove":
            ok, n = _norm_item(item, op["x"])
            if ok is not True:
                return None
            want = trial.remove(n)
        elif name == "delitem":
            del trial[op["i"]]
            want = None
        elif name == "delslice":
            del trial[slice(op["a"], op["b"], op["c"])]
            want = None
        elif name == "sort":
            want = trial.sort(key=_SORT_KEYS[op.get("key")], reverse=op["reverse"])
        elif name == "reverse":
            want = trial.reverse()
        elif name == "clear":
            want = trial.clear()
        else:
            return None
    except Exception as exc:
        if name in ("pop", "delitem"):
            return _builtin_rejects(res, exc, (lambda: proxy.pop(op["i"])) if name == "pop" else (lambda: proxy.__delitem__(op["i"])),
                                    ref, proxy, "%s at position %r of %d items" % (name, op["i"], len(ref)))
        if name == "remove" and not _has_nan([n]) and not _has_nan(ref):
            return _builtin_rejects(res, exc, lambda: proxy.remove(n), ref, proxy, "remove of a value that is no member")
        raise Skip()
    try:
        if name == "pop":
            got = proxy.pop(op["i"])
        elif name == "remove":
            got = proxy.remove(n)
        elif name == "delitem":
            got = proxy.__delitem__(op["i"])
        elif name == "delslice":
            got = proxy.__delitem__(slice(op["a"], op["b"], op["c"]))
        elif name == "sort":
            if op.get("key") and op["reverse"]:
                res.count("sorts_with_key_and_reverse")
            got = proxy.sort(key=_SORT_KEYS[op.get("key")], reverse=op["reverse"])
        elif name == "reverse":
            got = proxy.reverse()
        else:
            got = proxy.clear()
    except Exception as exc:
        return "viol", "raised %r where the builtin succeeds" % (exc,)
    ref[:] = trial
    if not eqstar(plain(got), want):
        return "viol", "returned %r, builtin returns %r" % (got, want)
    return "ok", None


def _dict_arg(cc, cfg, f, it):
    kind = it["kind"]
    pairs = [(spec.realize(cc, k), spec.realize(cc, v)) for k, v in it["pairs"]]
    if kind in ("dict", "dict+kwargs"):
        return dict(pairs)
    if kind == "pairs":
        return [list(p) for p in pairs]
    if kind == "pairs_tuple":
        return tuple(tuple(p) for p in pairs)
    if kind == "pairs_iter":
        return iter([tuple(p) for p in pairs])
    if kind == "mapping":
        return types.MappingProxyType(dict(pairs))
    if kind == "multimap":
        return MultiMap(pairs)
    if kind == "proxy_same":
        return type(cfg.c)(cfg, _field(cfg, "c"), dict(pairs))
    if kind == "proxy_other":
        cfg.other = dict(pairs)
        return cfg.other
    raise ValueError(kind)


class MultiMap:
    """A mapping with repeated names: keys() lists every occurrence, m[name] is the FIRST value, items() lists all
    pairs.  dict.update(m) reads it through keys() and m[name]."""

    def __init__(self, pairs):
        self._pairs = list(pairs)

    def keys(self):
        return [k for k, _ in self._pairs]

    def __getitem__(self, key):
        for k, v in self._pairs:
            if k == key:
                return v
        raise KeyError(key)

    def items(self):
        return list(self._pairs)

    def values(self):
        return [v for _, v in self._pairs]

    def __iter__(self):
        return iter(self.keys())

    def __len__(self):
        return len(self._pairs)

    def __contains__(self, key):
        return any(k == key for k, _ in self._pairs)


def _dict_plan(cc, kind, pairs):
    """Raw (key, value) pairs in the order the proxy gets to see them for this argument kind."""
    real = [(spec.realize(cc, k), v) for k, v in pairs]
    if kind == "multimap":
        first = {}
        for k, v in real:
            first.setdefault(k, v)
        return [(k, first[k]) for k, _v in real]
    if kind in ("pairs", "pairs_tuple", "pairs_iter"):
        return real
    if kind == "none":
        return []
    return list(dict(real).items())


def _dict_op(cc, cfg, f, proxy, ref, op, res):
    kf, vf = f["keyf"], f["valf"]
    name = op["op"]
    if name == "query":
        got = plain(proxy)
        checks = [("len", len(proxy), len(ref)), ("bool", bool(proxy), bool(ref)), ("keys", list(got.keys()), list(ref.keys())),
                  ("values", list(got.values()), list(ref.values()))]
        if not _has_nan(list(ref.values())) and not _has_nan(list(ref.keys())):
            checks.append(("eq", proxy == dict(ref), True))
            # comparisons the builtin answers too: with a copy (another typed container), with None, with the list of pairs,
            # with a dict that differs in one entry
            other = dict(ref)
            other["\x00no-such-key"] = None
            checks += [("eq-copy", proxy == proxy.copy(), True), ("eq-self", proxy == proxy, True), ("ne", proxy != dict(ref), False),
                       ("eq-none", proxy == None, False), ("eq-pairs", proxy == list(ref.items()), dict(ref) == list(ref.items())),  # noqa: E711
                       ("eq-other", proxy == other, False), ("ne-other", proxy != other, True)]
            res.count("dict_equality_queries")
            # ... and with the typed dict of a second configuration of the schema that holds the same entries
            try:
                twin = cfg._schema()
                twin.c = dict(got)
                twin_c = twin.c if eqstar(plain(twin.c), got) else None
            except Exception:
                twin_c = None
            if twin_c is not None:
                checks += [("eq-twin", proxy == twin_c, True), ("ne-twin", proxy != twin_c, False), ("eq-twin-reversed", twin_c == proxy, True)]
                res.count("dict_equality_with_a_twin_configuration")
            # ... and with the typed dicts of sibling fields that hold equal entries (1 == 1.0 for the builtin, too)
            for sib in ("other", "other_float"):
                try:
                    if not hasattr(cfg, sib) or not got:
                        continue
                    setattr(cfg, sib, dict(got))
                    held = getattr(cfg, sib)
                    if dict(plain(held)) != dict(got):
                        continue
                except Exception:
                    continue
                checks += [("eq-sibling-field", proxy == held, True), ("ne-sibling-field", proxy != held, False)]
                res.count("dict_equality_with_a_sibling_field")
        if ref:
            k = next(iter(ref))
            checks += [("getitem", got[k], ref[k]), ("get", plain(proxy.get(k)), ref.get(k)), ("contains", k in proxy, True)]
        for what, a, b in checks:
            if not eqstar(a, b):
                return "viol", "%s gives %r, builtin gives %r" % (what, a, b)
        return "ok", None
    if name in ("setitem", "setdefault"):
        ok1, nk = _norm_item(kf, op["k"])
        has_v = op.get("has_v", True) or name == "setitem"
        v = op["v"] if has_v else None
        ok2, nv = _norm_item(vf, v)
        if ok1 is None or ok2 is None or (ok1 and not _hashable(nk)):
            return None
        k, rv = spec.realize(cc, op["k"]), spec.realize(cc, v)
        if not _hashable(k):
            return None
        if name == "setitem":
            fn = lambda: proxy.__setitem__(k, rv)  # noqa: E731
        elif has_v:
            fn = lambda: proxy.setdefault(k, rv)  # noqa: E731
        else:
            fn = lambda: proxy.setdefault(k)  # noqa: E731
        if name == "setdefault" and ok1 and nk in ref and (not has_v or not ok2):
            # setdefault(key[, default]) for a key that is there only looks the value up and stores nothing, whatever the
            # value field thinks of None (or of a default that it would refuse): the builtin does not look at it either
            res.count("setdefault_lookups_of_existing_keys")
            try:
                got = fn()
            except Exception as exc:
                return "viol", "setdefault(%r) for an existing key raised %r, builtin returns %r" % (op["k"], exc, ref[nk])
            if not eqstar(plain(got), ref[nk]):
                return "viol", "setdefault(%r) for an existing key returned %r, builtin returns %r" % (op["k"], got, ref[nk])
            return "ok", None
        if not (ok1 and ok2):
            return ("invalid-raised", None) if _expect_raise(fn) else ("viol", "invalid entry %r: %r was accepted" % (op["k"], v))
        trial = dict(ref)
        if name == "setitem":
            trial[nk] = nv
            want = None
        else:
            want = trial.setdefault(nk, nv)
        try:
            got = fn()
        except Exception as exc:
            return "viol", "raised %r for an acceptable entry (normal form %r: %r)" % (exc, nk, nv)
        ref.clear()
        ref.update(trial)
        if not eqstar(plain(got), want):
            return "viol", "returned %r, builtin returns %r" % (got, want)
        return "ok", None
    if name in ("update", "ior", "or"):
        it = op["it"]
        pairs = it["pairs"]
        kind = it["kind"]
        base = kind[:-7] if kind.endswith("+kwargs") else kind
        half = len(pairs) // 2 if kind.endswith("+kwargs") else len(pairs)
        if kind == "kwargs" and not all(isinstance(k, str) for k, _ in pairs):
            return None
        if kind.endswith("+kwargs") and not all(isinstance(k, str) for k, _ in pairs[half:]):
            return None
        if it.get("named_like_parameters"):
            res.count("update_keywords_named_like_parameters")
        pos_it = {"kind": base, "pairs": pairs[:half]}
        if not all(_hashable(spec.realize(cc, k)) for k, _ in pairs):
            return None
        prebuilt = None
        if base == "proxy_other":
            try:
                prebuilt = _dict_arg(cc, cfg, f, pos_it)
            except Exception:
                return None
            plan = list(plain(prebuilt).items()) + _dict_plan(cc, "dict", pairs[half:])
        elif kind.endswith("+kwargs"):
            plan = _dict_plan(cc, base, pairs[:half]) + _dict_plan(cc, "dict", pairs[half:])
        else:
            plan = _dict_plan(cc, kind, pairs)
        ok1, unk1, nks = _labels(kf, [k for k, _ in plan])
        ok2, unk2, nvs = _labels(vf, [v for _, v in plan])
        if unk1 or unk2:
            return None
        allok = ok1 and ok2
        if not allok and base == "proxy_same":
            return None
        if allok and not all(_hashable(k) for k in nks):
            return None
        trial = dict(ref)
        if allok:
            for rk, rv_ in plan:
                trial[_norm_item(kf, rk)[1]] = _norm_item(vf, rv_)[1]
        result = None

        def fn():
            nonlocal result
            if name == "ior":
                result = proxy.__ior__(prebuilt if prebuilt is not None else _dict_arg(cc, cfg, f, it))
            elif name == "or":
                result = proxy | (prebuilt if prebuilt is not None else _dict_arg(cc, cfg, f, it))
            elif kind == "kwargs":
                result = proxy.update(**{k: spec.realize(cc, v) for k, v in pairs})
            elif kind.endswith("+kwargs"):
                res.count("update:" + kind)
                result = proxy.update(prebuilt if prebuilt is not None else _dict_arg(cc, cfg, f, pos_it),
                                      **{k: spec.realize(cc, v) for k, v in pairs[half:]})
            elif kind == "none":
                result = proxy.update()
            else:
                result = proxy.update(prebuilt if prebuilt is not None else _dict_arg(cc, cfg, f, it))

        if kind == "none":
            trial = dict(ref)
        if name == "or":
            if kind not in ("dict", "proxy_same", "proxy_other"):
                raise Skip()  # dict | non-dict is a TypeError for the builtin
            if not allok:
                return None
            try:
                fn()
            except Exception as exc:
                return "viol", "| raised %r" % (exc,)
            if kind == "dict":
                want = dict(ref) | {spec.realize(cc, k): spec.realize(cc, v) for k, v in pairs}
            elif kind == "proxy_other":
                want = dict(ref) | dict(plan)
            else:
                want = trial
            if not eqstar(dict(plain(result)), want):
                return "viol", "| gives %r, builtin gives %r" % (dict(plain(result)), want)
            if not eqstar(dict(plain(proxy)), dict(ref)):
                return "viol", "| changed the left operand"
            return "ok", None
        if not allok and kind != "none":
            return ("invalid-raised", None) if _expect_raise(fn) else ("viol", "argument with an invalid entry %r was accepted" % (pairs,))
        try:
            fn()
        except Exception as exc:
            return "viol", "raised %r for acceptable entries %r" % (exc, pairs)
        ref.clear()
        ref.update(trial)
        if name == "ior":
            if result is not proxy:
                return "viol", "|= returned a different object (%s)" % type(result).__name__
        elif result is not None:
            return "viol", "update returned %r" % (result,)
        return "ok", None
    if name == "copy":
        c = proxy.copy()
        if not eqstar(dict(plain(c)), dict(ref)) or c is proxy:
            return "viol", "copy has %r" % (c,)
        bad = _probe_typed(res, c, f, "the copy", False)
        if bad:
            return "viol", bad
        if not eqstar(dict(plain(proxy)), dict(ref)):
            return "viol", "mutating the copy changed the original"
        return "ok", None
    trial = dict(ref)
    ok1, nk = _norm_item(kf, op.get("k")) if "k" in op else (True, None)
    if ok1 is not True or not _hashable(nk):
        return None
    try:
        if name == "pop":
            want = trial.pop(nk, "dflt") if op.get("has_v") else trial.pop(nk)
        elif name == "popitem":
            want = trial.popitem()
        elif name == "delitem":
            del trial[nk]
            want = None
        elif name == "clear":
            want = trial.clear()
        else:
            return None
    except Exception as exc:
        call = {"pop": lambda: proxy.pop(nk), "popitem": lambda: proxy.popitem(), "delitem": lambda: proxy.__delitem__(nk)}.get(name)
        if call is None:
            raise Skip()
        return _builtin_rejects(res, exc, call, ref, proxy, "%s of a key that is not there (%d entries)" % (name, len(ref)))
    try:
        if name == "pop":
            got = proxy.pop(nk, "dflt") if op.get("has_v") else proxy.pop(nk)
        elif name == "popitem":
            got = proxy.popitem()
        elif name == "delitem":
            got = proxy.__delitem__(nk)
        else:
            got = proxy.clear()
    except Exception as exc:
        return "viol", "raised %r where the builtin succeeds" % (exc,)
    ref.clear()
    ref.update(trial)
    if not eqstar(plain(got), want):
        return "viol", "returned %r, builtin returns %r" % (got, want)
    return "ok", None


def abbreviate(case):
    return case
