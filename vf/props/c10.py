"""C10 - a sensitive-value mask hides every sensitive value at every depth of the tree."""
import base64
import os

from .. import aes_ref, trees
from ..common import eqstar, token
from ..monitors import find_token, find_token_deep

PLAN = {
    "quick": {"shards": 8, "cases": 250, "min_nontrivial": 1500, "budget_s": 300},
    "thorough": {"shards": 16, "cases": 4000, "min_nontrivial": 22400, "budget_s": 1500},
}
RULE = ("a case marks a random subset of fields (text, host, integer, boolean, bytes, secret with sensitive on/off, "
        "challenge, list of text) as sensitive at the root, in sub-schemas of depth 1-2, in a config-type field and in "
        "items of lists of schemas and of config types, fills them with values carrying unique tokens (also empty / "
        "falsy values), and renders the configuration with masks None, '', one character and several characters as a "
        "tree and in every format; checks: no token of a non-empty sensitive value in the output (raw, UTF-16, base64, "
        "hex), every sensitive position holds the mask (a one-character mask repeated to the value's length for text, "
        "mask characters only for other types, the mask verbatim otherwise; unset for empty values), every non-"
        "sensitive position equals the unmasked rendering (non-sensitive AES secrets are compared by decrypting), "
        "mask None changes nothing, documents decode to the masked tree; in a fraction of the cases a section / config-"
        "type field is first offered a configuration built from a second schema of the same layout with other sensitive "
        "flags (refused or taken over, the declared flags decide), and a small second configuration whose untyped dict / "
        "list field was assigned the value of a typed dict / list field is rendered with every mask in every format; non-trivial = >= 2 sensitive non-empty "
        "positions at >= 2 depths and >= 1 non-sensitive position; distinct = distinct case content")
REQUIRED = ("foreign_configurations_offered_with_other_flags", "typed_containers_copied_to_untyped_fields", "copied_container_documents_scanned",
            "lists_with_equal_items", "sensitive_flags_given_as_other_true_values", "fields_declared_twice_second_time_sensitive",
            "configurations_held_by_untyped_fields", "renders_after_failed_masked_render", "renders_after_schema_growth",
            "virtual_documents_scanned", "virtual_renderings_checked", "lists_reassigned_from_own_items",
            "sensitive_lists_checked", "unmasked_reference_checks", "trees_scanned", "documents_scanned", "sensitive_positions_checked", "nonsensitive_positions_checked",
            "mask:none", "mask:empty", "mask:one-char", "mask:multi-char", "sensitive_in_list_items", "sensitive_in_ctype",
            "sensitive_at_depth>=2")
ASSUMPTIONS = ["the length rule (mask character repeated to the value's length) is asserted for text values only",
               "documents are decoded with the library's codecs (C04)"]
KINDS = ["s", "h", "n", "b", "by", "sec", "ch", "l"]
FOREIGN_TARGETS = ["sub.deep", "sub.deep", "t", "sub.t", "sub.deep.t", "plain.t"]
MASKS = [None, "", "*", "#", "x", "***", "[hidden]", "REDACTED", " ", "\u2022", "\u00d7", "\u2588\u2588"]


def _scope(rng, depth_ok=True):
    """{field key: (kind, sensitive, value)}"""
    out = {}
    for kind in KINDS:
        if rng.random() < 0.3:
            continue
        sens = rng.random() < 0.55
        tok = token(rng)
        empty = rng.random() < 0.12
        if kind == "s":
            v = "" if empty else rng.choice([tok, tok + " pad\u00e9", "x" * rng.randrange(1, 5) + tok])
        elif kind == "h":
            v = None if empty else tok[:15]
        elif kind == "n":
            v = 0 if empty else rng.choice([7, 12345678, -3, 10**12])
        elif kind == "b":
            v = rng.random() < 0.5
        elif kind == "by":
            v = b"" if empty else tok.encode() + bytes([rng.randrange(256)])
        elif kind == "sec":
            v = "" if empty else tok + rng.choice(["", "-secret"])
        elif kind == "ch":
            v = None if empty else tok
        else:
            v = [] if empty else [tok, token(rng)]
        out[kind + "1"] = [kind, sens, v]
    return out


def generate(rng, ctx):
    layout = {
        "root": _scope(rng), "sub": _scope(rng), "sub.deep": _scope(rng), "t": _scope(rng),
        "sub.t": _scope(rng), "sub.deep.t": _scope(rng), "plain.t": _scope(rng),
        "items": [_scope(rng) for _ in range(rng.choice([0, 1, 2, 3]))],
        "sitems": [token(rng) for _ in range(rng.choice([0, 1, 2]))],
        "vtok": token(rng), "reassign": rng.choice([None, None, "slice", "list", "filter", "add", "copy", "shared", "taken-over"]),
        # a configuration object held by an untyped field (and by an extra field of a dynamic section)
        "held": rng.random() < 0.5,
        "titems": [_scope(rng) for _ in range(rng.choice([0, 1, 2]))],
    }
    # two EQUAL items in a list (configuration types compare by content), also the very same values three times
    import copy as _copy

    for lst in ("items", "titems"):
        if layout[lst] and rng.random() < 0.3:
            for _ in range(rng.choice([1, 2])):
                layout[lst].insert(rng.randrange(len(layout[lst]) + 1), _copy.deepcopy(layout[lst][0]))
            layout["equal_items"] = True
    # all items of one list share the item schema: sensitivity per kind is fixed by the first item
    for lst in ("items", "titems"):
        sens = {k: rng.random() < 0.55 for k in KINDS}
        for it in layout[lst]:
            for key, rec in it.items():
                rec[1] = sens[rec[0]]
        layout[lst + "_sens"] = sens
    case = {"layout": layout, "masks": rng.sample(MASKS, 4), "fmts": rng.sample(trees.FORMATS, rng.choice([1, 2, 3])),
            "method": rng.choice(["aes", "xor"]), "truthy_flags": rng.random() < 0.3, "redeclare": rng.random() < 0.3}
    # a section / config-type field is offered a configuration built from a SECOND schema of the same layout (a schema
    # factory called twice) whose sensitive flags differ from the declared ones
    case["foreign"] = None
    if rng.random() < 0.6:
        case["foreign"] = {"target": rng.choice(FOREIGN_TARGETS), "mode": rng.choice(["flip", "flip", "plain", "random", "same"]),
                           "values": _scope(rng), "rflags": {k: rng.random() < 0.5 for k in KINDS}}
    # the entries of a typed dict / list field carried over to an untyped dict / list field, then masked documents
    case["copied"] = None
    if rng.random() < 0.5:
        nkeys = rng.choice([1, 2, 3, 5])
        case["copied"] = {
            "src": rng.choice(["same", "same", "sub", "sub", "other"]), "dst": rng.choice(["root", "sub"]),
            "vkind": rng.choice(["int", "str"]), "secret": rng.choice(["str", "secure"]),
            "entries": {"k%d%s" % (i, rng.choice(["", "_x", "cpu"])): rng.randrange(-5, 10**6) for i in range(nkeys)},
            "toks": [token(rng) for _ in range(5)], "naccounts": rng.choice([0, 1, 2]), "how": rng.choice(["attr", "item", "tree-first"]),
            "lists": rng.random() < 0.5}
    return case


def abbreviate(case):
    return case


def _field(cc, kind, sens, method):
    if kind == "s":
        return cc.StringField(sensitive=sens)
    if kind == "h":
        return cc.HostnameField(sensitive=sens)
    if kind == "n":
        return cc.IntField(sensitive=sens)
    if kind == "b":
        return cc.BoolField(sensitive=sens)
    if kind == "by":
        return cc.BytesField(sensitive=sens)
    if kind == "sec":
        return cc.SecureField(method=method, sensitive=sens)
    if kind == "ch":
        return cc.ChallengeField(sensitive=sens)
    return cc.ListField(cc.StringField(), sensitive=sens)


STYLE = {"flags": "bool", "redeclare": False, "n": 0}


def _fill_schema(cc, schema, scope, method, all_kinds=None):
    import zlib

    for key, (kind, sens, _v) in (all_kinds or scope).items():
        flag = sens
        h = zlib.crc32(key.encode())
        if STYLE["flags"] == "truthy":
            # the flag is given as some other true / false value than the two booleans
            flag = [True, 1, "yes", 2.5][h % 4] if sens else [False, 0, None, ""][h % 4]
            STYLE["n"] += 1
        if STYLE["redeclare"] and h % 3 == 0:
            # the key is declared twice: first an identical field that is NOT sensitive, then the real one
            setattr(schema, key, _field(cc, kind, False, method))
            STYLE["n"] += 1
        setattr(schema, key, _field(cc, kind, flag, method))


def run(case, ctx, res):
    cc = ctx.cc
    lay, method = dict(case["layout"]), case["method"]
    STYLE.update(flags="truthy" if case.get("truthy_flags") else "bool", redeclare=bool(case.get("redeclare")), n=0)
    if lay.get("equal_items"):
        res.count("lists_with_equal_items")
    if case.get("truthy_flags"):
        res.count("sensitive_flags_given_as_other_true_values")
    if case.get("redeclare"):
        res.count("fields_declared_twice_second_time_sensitive")
    root = cc.Schema()
    _fill_schema(cc, root, lay["root"], method)
    _fill_schema(cc, root.sub, lay["sub"], method)
    _fill_schema(cc, root.sub.deep, lay["sub.deep"], method)
    ts = cc.Schema()
    _fill_schema(cc, ts, lay["t"], method)
    root.t = cc.make_type(ts, "T", module="vf_types")
    # config types inside nested sub-configurations (one of them below a schema with nothing else sensitive)
    for n, (holder, key) in enumerate(((root.sub, "sub.t"), (root.sub.deep, "sub.deep.t"), (root.plain, "plain.t"))):
        sub_ts = cc.Schema()
        _fill_schema(cc, sub_ts, lay.get(key, {}), method)
        holder.t = cc.make_type(sub_ts, "T%d" % n, module="vf_types")
        if key == "sub.deep.t":
            deep_type = holder.t
    root.plain.note = cc.StringField(default="nothing sensitive here")
    item = cc.Schema()
    _fill_schema(cc, item, None, method, {k + "1": (k, lay["items_sens"][k], None) for k in KINDS})
    root.items = cc.ListField(item)
    tis = cc.Schema()
    _fill_schema(cc, tis, None, method, {k + "1": (k, lay["titems_sens"][k], None) for k in KINDS})
    root.titems = cc.ListField(cc.make_type(tis, "TI", module="vf_types"))
    # computed (virtual) fields can be sensitive too: rendered only with virtual=True, and then masked
    vtok = lay.get("vtok") or "tkffffffffffffffff"
    root.vsecret = cc.VirtualField(lambda c, vtok=vtok: vtok + "-virtual", sensitive=True)
    root.vplain = cc.VirtualField(lambda c: "plain-virtual")
    root.sub.vsecret = cc.VirtualField(lambda c, vtok=vtok: vtok + "-subvirtual", sensitive=True)
    # a list of configurations that is sensitive as a whole
    sitem = cc.Schema()
    sitem.owner = cc.StringField()
    sitem.n = cc.IntField()
    root.sitems = cc.ListField(sitem, sensitive=True)
    root.sub.sitems = cc.ListField(sitem, sensitive=True)
    # a computed field that can be made to fail: a rendering that raises half-way must leave nothing behind
    boom = {"on": False}

    def zgetter(c):
        if boom["on"]:
            raise ZeroDivisionError("computed field failed")
        return "fine"

    root.zboom = cc.VirtualField(zgetter)
    root.holder = cc.AnyField() if hasattr(cc, "AnyField") else cc.Field()
    root.dynsec = cc.Schema(dynamic=True)
    root.dynsec.note = cc.StringField(default="n")
    hs = cc.Schema()
    hs.password = cc.StringField(sensitive=True)
    hs.label = cc.StringField()
    hs.inner.token = cc.StringField(sensitive=True)
    keypath = os.path.join(ctx.dir, "mask.key")
    cfg = cc.Config(root, key_filename=keypath)

    def assign(target, scope):
        for key, (kind, sens, v) in scope.items():
            setattr(target, key, v)

    assign(cfg, lay["root"])
    assign(cfg.sub, lay["sub"])
    assign(cfg.sub.deep, lay["sub.deep"])
    assign(cfg.t, lay["t"])
    assign(cfg.sub.t, lay.get("sub.t", {}))
    assign(cfg.sub.deep.t, lay.get("sub.deep.t", {}))
    assign(cfg.plain.t, lay.get("plain.t", {}))
    for lst, scopes in (("items", lay["items"]), ("titems", lay["titems"])):
        setattr(cfg, lst, [])
        for sc in scopes:
            getattr(cfg, lst).append({})
            assign(getattr(cfg, lst)[-1], sc)
    how = lay.get("reassign")
    if how:
        # lists re-assigned from their own current items (pruned / copied): still typed, still masked
        for lst in ("items", "titems"):
            cur = getattr(cfg, lst)
            if how == "add":
                setattr(cfg, lst, cur + [])
            elif how == "copy":
                setattr(cfg, lst, cur.copy())
            elif how == "shared" and len(cur):
                # the first item object is put into the list of a second configuration as well
                other = cc.Config(root, key_filename=keypath)
                setattr(other, lst, [])
                getattr(other, lst).append(cur[0])
            elif how == "taken-over" and len(cur):
                # a second configuration takes the whole list over
                other = cc.Config(root, key_filename=keypath)
                setattr(other, lst, cur)
            elif how == "slice":
                setattr(cfg, lst, cur[0:])
            elif how == "list":
                setattr(cfg, lst, list(cur))
            else:
                setattr(cfg, lst, [it for it in cur if it is not None])
        res.count("lists_reassigned_from_own_items")
    htok = "tk%016x" % ((hash(vtok) >> 3) & 0xFFFFFFFFFFFFFFFF)
    if lay.get("held"):
        for where in ("holder", "dynsec"):
            held = hs()
            held.password = htok + "-pw-" + where
            held.label = "plain-label"
            held.inner.token = htok + "-tok-" + where
            if where == "holder":
                cfg.holder = held
            else:
                cfg.dynsec.extra_cfg = held
        res.count("configurations_held_by_untyped_fields")
    if case.get("foreign"):
        _offer_foreign(cc, cfg, lay, case["foreign"], method, deep_type, assign, res)
    if case.get("copied") and not _copied_containers(cc, case["copied"], case["masks"], method, keypath, res):
        return
    stoks = lay.get("sitems", [])
    cfg.sitems = [{"owner": t, "n": i} for i, t in enumerate(stoks)]
    cfg.sub.sitems = [{"owner": t + "-sub", "n": i} for i, t in enumerate(stoks[:1])]
    # positions: (path list, kind, sensitive, value)
    positions = []
    for prefix, scope in (([], lay["root"]), (["sub"], lay["sub"]), (["sub", "deep"], lay["sub.deep"]), (["t"], lay["t"]),
                          (["sub", "t"], lay.get("sub.t", {})), (["sub", "deep", "t"], lay.get("sub.deep.t", {})),
                          (["plain", "t"], lay.get("plain.t", {}))):
        for key, (kind, sens, v) in scope.items():
            positions.append((prefix + [key], kind, sens, v))
    for lst in ("items", "titems"):
        for i, sc in enumerate(lay[lst]):
            for key, (kind, sens, v) in sc.items():
                positions.append(([lst, i, key], kind, sens, v))
    with open(keypath, "rb") if os.path.exists(keypath) else open(os.devnull, "rb") as fp:
        pass
    try:
        plain_tree = cfg.to_tree()
    except Exception as exc:
        res.viol("M-mask", "to_tree-raises", "to_tree() raised %r" % (exc,))
        return
    for path, kind, sens, v in positions:
        if kind not in ("s", "h", "n", "b", "l", "by"):
            continue
        try:
            got = _dig(plain_tree, path)
        except Exception:
            res.viol("M-mask", "position-missing:unmasked", "to_tree() has no entry %s" % _p(path))
            return
        want = base64.b64encode(v).decode() if kind == "by" and v is not None else (list(v) if kind == "l" and v is not None else v)
        res.count("unmasked_reference_checks")
        if not eqstar(got, want):
            res.viol("M-mask", "mask-none-alters:" + ("sensitive" if sens else "plain"), "without a mask the %s value %r at %s is rendered as %r" % (
                "sensitive" if sens else "non-sensitive", _short(v), _p(path), _short(got)))
            return
    key = None
    if os.path.exists(keypath):
        with open(keypath, "rb") as fp:
            key = fp.read()
    for mask in case["masks"]:
        mname = "none" if mask is None else "empty" if mask == "" else "one-char" if len(mask) == 1 else "multi-char"
        res.count("mask:" + mname)
        try:
            tree = cfg.to_tree(sensitive_mask=mask)
        except Exception as exc:
            res.viol("M-mask", "to_tree-raises:" + mname, "to_tree(sensitive_mask=%r) raised %r" % (mask, exc))
            return
        res.count("trees_scanned")
        if not _check_tree(res, tree, plain_tree, positions, mask, mname, key, "tree"):
            return
        if mask is not None and not _check_sensitive_lists(res, tree, stoks, mask, "tree"):
            return
        if mask is not None and lay.get("held"):
            hit = find_token_deep(tree, htok)
            if hit:
                res.viol("M-leak", "unmasked:configuration-held-by-untyped-field", "tree with mask %r shows sensitive values of a "
                         "configuration that an untyped field / a dynamic section holds: %r" % (mask, _short({k: tree.get(k) for k in ("holder", "dynsec")})))
                return
        try:
            vtree = cfg.to_tree(virtual=True, sensitive_mask=mask)
        except Exception as exc:
            res.viol("M-mask", "to_tree-virtual-raises", "to_tree(virtual=True, sensitive_mask=%r) raised %r" % (mask, exc))
            return
        res.count("virtual_renderings_checked")
        # everything else must be rendered exactly as without virtual=True (same masking at every depth)
        if not _check_tree(res, vtree, plain_tree, positions, mask, mname, key, "tree(virtual=True)"):
            return
        if mask is not None and not _check_sensitive_lists(res, vtree, stoks, mask, "tree(virtual=True)"):
            return
        vt = lay.get("vtok") or "tkffffffffffffffff"
        for vpath, text in ((["vsecret"], vt + "-virtual"), (["sub", "vsecret"], vt + "-subvirtual")):
            got = _dig(vtree, vpath) if _has(vtree, vpath) else "<missing>"
            if mask is None:
                ok = got == text
            elif len(mask) == 1:
                ok = got == mask * len(text)
            else:
                ok = got == mask
            if find_token_deep(got, vt) and mask is not None:
                res.viol("M-leak", "unmasked:sensitive-virtual-field", "to_tree(virtual=True, sensitive_mask=%r) shows the sensitive "
                         "virtual field %s: %r" % (mask, _p(vpath), _short(got)))
                return
            if not ok:
                res.viol("M-mask", "virtual-field", "to_tree(virtual=True, sensitive_mask=%r) renders the sensitive virtual field %s as %r" % (
                    mask, _p(vpath), _short(got)))
                return
        if _dig(vtree, ["vplain"]) != "plain-virtual":
            res.viol("M-mask", "nonsensitive-altered:virtual", "non-sensitive virtual field rendered as %r under mask %r" % (_dig(vtree, ["vplain"]), mask))
            return
        if "vsecret" in tree or "vplain" in tree:
            res.viol("M-mask", "virtual-without-asking", "virtual fields appear in to_tree() without virtual=True")
            return
        if mask is not None:
            # a masked rendering that fails half-way, then one without a mask: nothing of the mask may linger
            boom["on"] = True
            try:
                cfg.to_tree(virtual=True, sensitive_mask=mask)
                failed = False
            except Exception:
                failed = True
            finally:
                boom["on"] = False
            if failed:
                res.count("renders_after_failed_masked_render")
                try:
                    after_fail = cfg.to_tree()
                except Exception as exc:
                    res.viol("M-mask", "to_tree-raises:after-failed-render", "to_tree() raised %r after a failed masked rendering" % (exc,))
                    return
                if not _check_tree(res, after_fail, plain_tree, positions, None, "none", key, "tree after a failed masked rendering"):
                    return
        for fmt in case["fmts"]:
            if not trees.in_domain(fmt, tree):
                continue
            try:
                blob = cfg.dumps(fmt, sensitive_mask=mask)
                back = cc.ConfigFormat.get(fmt).loads(cfg, blob)
            except Exception as exc:
                res.viol("M-mask", "dumps-raises:" + fmt, "dumps(%s, sensitive_mask=%r) raised %r" % (fmt, mask, exc))
                return
            res.count("documents_scanned")
            if mask is not None:
                for path, kind, sens, v in positions:
                    tok = _token_of(v)
                    if sens and tok and find_token(blob, tok):
                        res.viol("M-leak", "document:%s" % _where(path), "%s document rendered with mask %r contains the sensitive value at %s (%s)" % (
                            fmt, mask, _p(path), find_token(blob, tok)))
                        return
            if not _check_tree(res, back, plain_tree, positions, mask, mname, key, fmt):
                return
            if mask is not None and not _check_sensitive_lists(res, back, stoks, mask, fmt):
                return
            if mask is not None and trees.in_domain(fmt, vtree):
                try:
                    vblob = cfg.dumps(fmt, virtual=True, sensitive_mask=mask)
                    vback = cc.ConfigFormat.get(fmt).loads(cfg, vblob)
                except Exception as exc:
                    res.viol("M-mask", "dumps-raises:virtual:" + fmt, "dumps(%s, virtual=True, sensitive_mask=%r) raised %r" % (fmt, mask, exc))
                    return
                res.count("virtual_documents_scanned")
                for path, kind, sens, v in positions:
                    tok = _token_of(v)
                    if sens and tok and find_token(vblob, tok):
                        res.viol("M-leak", "document(virtual=True):%s" % _where(path), "%s document rendered with virtual=True and mask %r "
                                 "contains the sensitive value at %s (%s)" % (fmt, mask, _p(path), find_token(vblob, tok)))
                        return
                if not _check_tree(res, vback, plain_tree, positions, mask, mname, key, fmt + "(virtual=True)"):
                    return
    # ---- the schema grows after it has been rendered with a mask: sensitive fields added by item / path syntax to the
    # root, a nested section and the item schema of a list are masked like all others, in old and new configurations
    ltok = "tk%016x" % (hash(vtok) & 0xFFFFFFFFFFFFFFFF)
    try:
        root["late_secret"] = cc.StringField(sensitive=True)
        root["sub.deep.late_secret"] = cc.StringField(sensitive=True)
        root["sub.late_plain"] = cc.StringField()
        item["late_secret"] = cc.StringField(sensitive=True)
        newer = cc.Config(root, key_filename=keypath)
        for c in (cfg, newer):
            c.late_secret = ltok + "-root"
            c["sub.deep.late_secret"] = ltok + "-deep"
            c.sub.late_plain = "late-plain"
            if c is newer:
                c.items = [{}]
            if len(c.items):
                c.items[0].late_secret = ltok + "-item"
    except Exception as exc:
        res.viol("M-mask", "late-fields-raise", "adding sensitive fields to the schema after a rendering raised %r" % (exc,))
        return
    for mask in ("*", "<late-mask>"):
        for which, c in (("existing", cfg), ("new", newer)):
            try:
                t = c.to_tree(sensitive_mask=mask)
            except Exception as exc:
                res.viol("M-mask", "to_tree-raises:late-fields", "to_tree(sensitive_mask=%r) raised %r after the schema grew" % (mask, exc))
                return
            res.count("renders_after_schema_growth")
            checks = [(["late_secret"], ltok + "-root"), (["sub", "deep", "late_secret"], ltok + "-deep")]
            if len(c.items):
                checks.append((["items", 0, "late_secret"], ltok + "-item"))
            if find_token_deep(t, ltok):
                res.viol("M-leak", "unmasked:field-added-after-first-render", "%s configuration, mask %r: a sensitive field added to the "
                         "schema after the first masked rendering is shown in clear: %r" % (which, mask, _short(t)))
                return
            for pth, text in checks:
                got = _dig(t, pth) if _has(t, pth) else "<missing>"
                want = mask * len(text) if len(mask) == 1 else mask
                if got != want:
                    res.viol("M-mask", "late-field-not-masked", "%s configuration, mask %r: %s is rendered as %r" % (which, mask, _p(pth), _short(got)))
                    return
            if _dig(t, ["sub", "late_plain"]) != "late-plain":
                res.viol("M-mask", "nonsensitive-altered:late", "non-sensitive late field rendered as %r" % (_dig(t, ["sub", "late_plain"]),))
                return
    sens_pos = [(p, v) for p, k, s, v in positions if s and _nonempty(v) and k != "b"]
    if len(sens_pos) >= 2 and len({len(p) for p, _v in sens_pos}) >= 2 and any(not s for _p2, _k, s, _v in positions):
        res.nontrivial(case["layout"], case["masks"], case["fmts"])


def _offer_foreign(cc, cfg, lay, spec, method, deep_type, assign, res):
    """A section / a config-type field is assigned a configuration that was built from a second, separately built schema of
    the same layout (same keys, same field classes) whose sensitive flags differ.  The library may refuse it or take it
    over; either way the fields keep the sensitivity that the schema of the rendered configuration DECLARES.  `lay` is
    updated with the values the positions hold afterwards."""
    target, mode = spec["target"], spec["mode"]
    declared = lay.get(target, {})
    fscope = {}
    for key, (kind, sens, v) in declared.items():
        rec = spec["values"].get(key)
        fsens = {"flip": not sens, "plain": False, "same": sens}.get(mode, bool(spec["rflags"].get(kind)))
        fscope[key] = [kind, fsens, rec[2] if rec else v]
    fs = cc.Schema()
    saved = dict(STYLE)
    STYLE.update(redeclare=False)  # (the second schema declares every key once; the flag style is the case's)
    try:
        _fill_schema(cc, fs, fscope, method)
    finally:
        n = STYLE["n"]
        STYLE.update(saved)
        STYLE["n"] = n
    if target == "sub.deep":
        fs.t = deep_type
    fcfg = fs()
    assign(fcfg, fscope)
    if target == "sub.deep":
        assign(fcfg.t, lay.get("sub.deep.t", {}))
    holder = cfg
    names = target.split(".")
    for name in names[:-1]:
        holder = getattr(holder, name)
    res.count("foreign_configurations_offered")
    if any(fscope[k][1] != declared[k][1] for k in declared):
        res.count("foreign_configurations_offered_with_other_flags")
    try:
        setattr(holder, names[-1], fcfg)
    except Exception:
        res.count("foreign_configurations_refused")
        return
    res.count("foreign_configurations_taken_over")
    lay[target] = {key: [kind, declared[key][1], v] for key, (kind, _s, v) in fscope.items()}


def _copied_containers(cc, spec, masks, method, keypath, res):
    """The value of a TYPED dict (list) field is assigned to an UNTYPED dict (list) field - copied between two fields of one
    configuration, of a section, or of two configurations - and the configuration is rendered with each mask as a tree and
    as a document in EVERY format: no sensitive value of the rendered configuration in the output, sensitive positions hold
    the mask, the copied entries and everything else are rendered as without a mask."""
    toks = spec["toks"]
    vfield = cc.IntField if spec["vkind"] == "int" else cc.StringField
    entries = {k: (v if spec["vkind"] == "int" else "v%d" % v) for k, v in spec["entries"].items()}
    schema = cc.Schema()
    schema.user = cc.StringField(default="admin")
    schema.password = cc.StringField(sensitive=True)
    schema.limits = cc.DictField(cc.StringField(), vfield())
    schema.extra = cc.DictField()
    schema.names = cc.ListField(cc.StringField())
    schema.anylist = cc.ListField()
    if spec["secret"] == "secure":
        schema.api.token = cc.SecureField(method=method)
    else:
        schema.api.token = cc.StringField(sensitive=True)
    schema.api.limits = cc.DictField(cc.StringField(), vfield())
    schema.api.extra = cc.DictField()
    schema.api.names = cc.ListField(cc.StringField())
    schema.api.anylist = cc.ListField()
    acct = cc.Schema()
    acct.name = cc.StringField()
    acct.secret = cc.StringField(sensitive=True)
    schema.accounts = cc.ListField(acct)
    cfg = cc.Config(schema, key_filename=keypath)
    other = cc.Config(schema, key_filename=keypath)
    secrets = []  # (path, text) of the rendered configuration
    for c, base in ((cfg, 0), (other, 3)):
        c.password = toks[base % 5] + "-pw"
        c.api.token = toks[(base + 1) % 5] + "-tok"
        c.extra = {"note": "x"}
        c.api.extra = {"note": "y"}
        c.limits = dict(entries)
        c.api.limits = dict(entries)
        c.names = list(entries)
        c.api.names = list(entries)
        c.accounts = [{"name": "acct%d" % i, "secret": toks[2] + "-acct%d" % i} for i in range(spec["naccounts"] if c is cfg else 0)]
    secrets = [(["password"], toks[0] + "-pw"), (["api", "token"], toks[1] + "-tok")]
    secrets += [(["accounts", i, "secret"], toks[2] + "-acct%d" % i) for i in range(spec["naccounts"])]
    if spec["how"] == "tree-first":
        cfg.to_tree(sensitive_mask="*")
    src = {"same": cfg, "sub": cfg.api, "other": other}[spec["src"]]
    dst = cfg if spec["dst"] == "root" else cfg.api
    try:
        if spec["how"] == "item":
            dst["extra"] = src["limits"]
        else:
            dst.extra = src.limits
        if spec["lists"]:
            dst.anylist = src.names
    except Exception as exc:
        res.count("copied_containers_refused")
        return True  # (whether an untyped field accepts the typed value is not this property's matter)
    res.count("typed_containers_copied_to_untyped_fields")
    try:
        plain = cfg.to_tree()
    except Exception as exc:
        res.viol("M-mask", "to_tree-raises:copied-container", "to_tree() raised %r after a typed dict was assigned to an untyped dict field" % (exc,))
        return False
    want_extra = dict(entries)
    dpath = ["extra"] if spec["dst"] == "root" else ["api", "extra"]
    if not eqstar(_dig(plain, dpath), want_extra):
        res.viol("M-mask", "mask-none-alters:copied-container", "without a mask the copied entries %r at %s are rendered as %r" % (
            _short(want_extra), _p(dpath), _short(_dig(plain, dpath))))
        return False
    plain_paths = [["user"], ["limits"], ["extra"], ["names"], ["anylist"], ["api", "limits"], ["api", "extra"], ["api", "names"], ["api", "anylist"]]
    plain_paths += [["accounts", i, "name"] for i in range(spec["naccounts"])]
    for mask in masks:
        if mask is None:
            continue
        try:
            tree = cfg.to_tree(sensitive_mask=mask)
        except Exception as exc:
            res.viol("M-mask", "to_tree-raises:copied-container", "to_tree(sensitive_mask=%r) raised %r" % (mask, exc))
            return False
        outputs = [("tree", tree, None)]
        for fmt in sorted(trees.FORMATS, key=lambda f: f != "pickle"):  # (the reference-following format first)
            if not trees.in_domain(fmt, plain):
                continue
            try:
                blob = cfg.dumps(fmt, sensitive_mask=mask)
            except Exception as exc:
                res.viol("M-mask", "dumps-raises:copied-container:" + fmt, "dumps(%s, sensitive_mask=%r) raised %r after the entries of a "
                         "typed dict field were assigned to an untyped dict field" % (fmt, mask, exc))
                return False
            res.count("copied_container_documents_scanned")
            for path, text in secrets:
                hit = find_token(blob, text[:18])
                if hit:
                    res.viol("M-leak", "document:copied-container", "%s document rendered with mask %r contains the sensitive value at %s (%s) "
                             "after the entries of a typed dict field (%s) were assigned to an untyped dict field" % (
                                 fmt, mask, _p(path), hit, spec["src"]))
                    return False
            try:
                back = cc.ConfigFormat.get(fmt).loads(cfg, blob)
            except Exception as exc:
                res.viol("M-mask", "dumps-raises:copied-container:" + fmt, "the %s document rendered with mask %r cannot be read back: %r" % (
                    fmt, mask, exc))
                return False
            outputs.append((fmt, back, blob))
        for what, out, _blob in outputs:
            for path, text in secrets:
                got = _dig(out, path) if _has(out, path) else "<missing>"
                res.count("copied_container_positions_checked")
                if find_token_deep(got, text[:18]):
                    res.viol("M-leak", "unmasked:copied-container", "%s with mask %r shows the sensitive value at %s: %r" % (
                        what, mask, _p(path), _short(got)))
                    return False
                if got != (mask * len(text) if len(mask) == 1 else mask):
                    res.viol("M-mask", "not-masked:copied-container", "%s: sensitive value at %s is rendered as %r under mask %r" % (
                        what, _p(path), _short(got), mask))
                    return False
            for path in plain_paths:
                got = _dig(out, path) if _has(out, path) else "<missing>"
                if not eqstar(got, _dig(plain, path)):
                    res.viol("M-mask", "nonsensitive-altered:copied-container", "%s with mask %r: %s is rendered as %r, without a mask as %r" % (
                        what, mask, _p(path), _short(got), _short(_dig(plain, path))))
                    return False
    return True


def _check_sensitive_lists(res, tree, stoks, mask, what):
    """A list of configurations that is itself marked sensitive is hidden as a whole."""
    for path, toks in ((["sitems"], stoks), (["sub", "sitems"], [t + "-sub" for t in stoks[:1]])):
        try:
            got = _dig(tree, path)
        except Exception:
            res.viol("M-mask", "position-missing:sensitive-list", "%s has no entry %s" % (what, _p(path)))
            return False
        res.count("sensitive_lists_checked")
        if not toks:
            continue
        for t in toks:
            if find_token_deep(got, t[:18]):
                res.viol("M-leak", "unmasked:sensitive-list-of-configs", "%s with mask %r shows members of the sensitive list %s: %r" % (
                    what, mask, _p(path), _short(got)))
                return False
        ok = (isinstance(got, str) and got and set(got) == {mask}) if len(mask) == 1 else got == mask
        if not ok:
            res.viol("M-mask", "not-masked:sensitive-list-of-configs", "%s: the sensitive list %s is rendered as %r under mask %r" % (
                what, _p(path), _short(got), mask))
            return False
    return True


def _nonempty(v):
    return bool(v)


def _token_of(v):
    if isinstance(v, str) and "tk" in v:
        i = v.index("tk")
        return v[i:i + 18] if len(v) >= i + 18 else None
    if isinstance(v, bytes) and b"tk" in v:
        return _token_of(v.decode("latin-1"))
    if isinstance(v, list) and v:
        return _token_of(v[0])
    return None


def _p(path):
    return ".".join(str(x) for x in path)


def _where(path):
    if path[0] in ("items", "titems"):
        return "list-item"
    if "t" in path[:-1]:
        return "ctype"
    return "depth%d" % len(path)


def _has(tree, path):
    try:
        _dig(tree, path)
        return True
    except Exception:
        return False


def _dig(tree, path):
    cur = tree
    for x in path:
        cur = cur[x]
    return cur


def _check_tree(res, tree, plain_tree, positions, mask, mname, key, what):
    for path, kind, sens, v in positions:
        try:
            got = _dig(tree, path)
            ref = _dig(plain_tree, path)
        except Exception:
            res.viol("M-mask", "position-missing:" + _where(path), "%s rendered with mask %r has no entry %s" % (what, mask, _p(path)))
            return False
        where = _where(path)
        if sens and mask is not None:
            res.count("sensitive_positions_checked")
            if where == "list-item":
                res.count("sensitive_in_list_items")
            elif where == "ctype":
                res.count("sensitive_in_ctype")
            elif len(path) >= 3:
                res.count("sensitive_at_depth>=2")
            tok = _token_of(v)
            if tok and find_token_deep(got, tok):
                res.viol("M-leak", "unmasked:" + where, "%s with mask %r shows the sensitive value at %s: %r" % (what, mask, _p(path), _short(got)))
                return False
            if not v and kind != "b" or (kind == "b" and v is False) or v is None:
                if got is not None and what == "tree":
                    res.viol("M-mask", "empty-sensitive:" + where, "empty sensitive value at %s is rendered as %r under mask %r" % (_p(path), got, mask))
                    return False
                continue
            if len(mask) == 1:
                if kind in ("s", "h", "sec"):
                    want = mask * len(v)
                    if got != want:
                        res.viol("M-mask", "one-char-length:" + where, "%s: sensitive text %s (%d characters) is rendered as %r under mask %r" % (
                            what, _p(path), len(v), _short(got), mask))
                        return False
                elif not (isinstance(got, str) and got and set(got) == {mask}):
                    res.viol("M-mask", "not-masked:" + where, "%s: sensitive %s value at %s is rendered as %r under mask %r" % (
                        what, kind, _p(path), _short(got), mask))
                    return False
            elif got != mask:
                res.viol("M-mask", "not-masked:" + where, "%s: sensitive value at %s is rendered as %r under mask %r" % (what, _p(path), _short(got), mask))
                return False
        else:
            res.count("nonsensitive_positions_checked")
            if kind == "sec" and v:
                # ciphertexts differ between renderings (fresh IV): compare by decrypting
                ok = isinstance(got, dict) and set(got) == {"method", "ciphertext"} and key is not None
                if ok:
                    ct = base64.b64decode(got["ciphertext"])
                    pt = aes_ref.aes_decrypt(key, ct) if got["method"] == "aes" else aes_ref.xor_stream(key, ct)
                    ok = pt == v.encode()
                if not ok:
                    res.viol("M-mask", "nonsensitive-altered:" + where, "%s: non-sensitive secret at %s is rendered as %r under mask %r" % (
                        what, _p(path), _short(got), mask))
                    return False
            elif kind == "ch":
                if not (isinstance(got, dict) and isinstance(ref, dict) and got == ref) and not (got is None and ref is None):
                    res.viol("M-mask", "nonsensitive-altered:" + where, "%s: non-sensitive digest at %s differs: %r vs %r" % (what, _p(path), _short(got), _short(ref)))
                    return False
            elif not eqstar(got, ref):
                res.viol("M-mask", ("mask-none-alters:" if mask is None else "nonsensitive-altered:") + where,
                         "%s with mask %r: %s at %s is rendered as %r, without a mask as %r" % (
                             what, mask, "value" if not sens else "sensitive value", _p(path), _short(got), _short(ref)))
                return False
    return True


def _short(v):
    r = repr(v)
    return r if len(r) < 90 else r[:87] + "..."
