"""C02 - saving and re-loading a configuration reproduces it exactly, in every format."""
import copy
import os

from .. import gen, history, model, roundtrip, spec, trees
from ..common import plain
from ..monitors import FileLog
from .c05 import env_of

PLAN = {
    "quick": {"shards": 8, "cases": 500, "min_nontrivial": 2000, "budget_s": 300},
    "thorough": {"shards": 16, "cases": 8000, "min_nontrivial": 44800, "budget_s": 1500},
}
RULE = ("a case is a schema over all persistent families (containers of encoded items such as ListField(BytesField), "
        "DictField(StringField, BytesField(hex)), ListField(ChallengeField), ListField(SecureField); lists of schemas / "
        "config types with nested sub-configurations; dynamic fields; virtual and instance-method fields) and a state "
        "reached by loading a valid tree followed by valid assignments and list/dict mutations (in part of the cases with "
        "reset_value() called on every calculated field, or on every field of the new configuration), required to pass "
        "validate(); for every format whose domain contains the state and every option value: to_tree() must be plain "
        "data with string keys and without virtual / method keys (with them only when virtual=True), "
        "loads(dumps(S)) into a fresh configuration with the same non-default key file must succeed and equal S "
        "modulo the two stated normalisations, and the default key file must stay untouched; out-of-domain (state, "
        "format) pairs are skipped and counted; non-trivial = state with >= 3 set values reloaded in >= 2 formats; "
        "distinct = distinct (schema, state)")
REQUIRED = ("resets_of_calculated_fields", "calculated_field_key_checks", "roundtrips_after_a_field_was_declared_again", "second_loads_after_in_place_changes", "documents_with_related_strings", "dynamic_fields_with_dotted_names", "roundtrips_after_key_rotation", "schema_key_equals_root_tag", "nested_encoded_containers", "roundtrips:json", "roundtrips:yaml", "roundtrips:bson", "roundtrips:xml", "roundtrips:pickle",
            "tree_plainness_checks", "virtual_key_checks", "states_validated", "list_of_config_states",
            "encoded_item_containers")
ASSUMPTIONS = ["equality is judged on the plain image of the configurations (values at every depth), not on object identity",
               "include fields, env-bound fields and FilenameField are excluded (they have their own properties / depend on "
               "the file system)", "typed dict keys are string-like (non-string keys: known finding K6)"]
EXCLUDED = ["NaN values", "tuples in untyped fields", "non-text values in SecureField", "DictField with non-string key field (K6)"]


def generate(rng, ctx):
    thorough = ctx.tier == "thorough"
    fmt = rng.choice(trees.FORMATS)
    fams = [f for f in gen.SCALAR_FAMILIES if f != "file"] + ["list", "list", "dict", "dict"]
    schema = gen.gen_schema(rng, depth=rng.choice([1, 2, 3] if thorough else [1, 2]), width=rng.choice([3, 4, 5]),
                            families=fams, defaults=0.4, dynamic=0.15)
    # containers of encoded items are the point of this property: add one explicitly
    enc = rng.choice(["bytes", "challenge", "secure", "bytes"])
    item = {"kind": "field", "family": enc, "params": gen.gen_params(rng, enc)}
    item["params"].pop("required", None)
    nest = rng.random()
    if nest < 0.25:
        # containers of containers: list of lists / list of dicts / dict of lists of encoded items
        inner = rng.choice([
            {"kind": "field", "family": "list", "params": {}, "item": item},
            {"kind": "field", "family": "dict", "params": {}, "keyf": {"kind": "field", "family": "str", "params": {}}, "valf": item}])
        if rng.random() < 0.6:
            schema["fields"].append({"kind": "field", "key": "enc_l", "family": "list", "params": {}, "item": inner})
        else:
            schema["fields"].append({"kind": "field", "key": "enc_d", "family": "dict", "params": {},
                                     "keyf": {"kind": "field", "family": "str", "params": {}}, "valf": inner})
    elif rng.random() < 0.5:
        schema["fields"].append({"kind": "field", "key": "enc_l", "family": "list", "params": {}, "item": item})
    else:
        schema["fields"].append({"kind": "field", "key": "enc_d", "family": "dict", "params": {},
                                 "keyf": {"kind": "field", "family": "str", "params": {}}, "valf": item})
    if rng.random() < 0.4:
        schema["fields"].append({"kind": "field", "key": "virt0", "family": "virtual", "params": {"returns": "v"}})
    if rng.random() < 0.3:
        schema["fields"].append({"kind": "field", "key": "meth0", "family": "method", "params": {"source": "def f(cfg, a=1):\n    return a\n"}})
    if rng.random() < 0.3:
        # a calculated field inside a section
        secs = [ch for ch in schema["fields"] if ch["kind"] == "schema"]
        if secs:
            rng.choice(secs)["fields"].append({"kind": "field", "key": "virt1", "family": "virtual", "params": {"returns": "w"}})
    roundtrip.persistable(schema, rng)
    env = gen.GEN_ENV
    tree = roundtrip.state_tree(rng, schema, fmt, env, partial=0.25)
    ops = history.gen_ops(rng, schema, env, rng.randrange(0, 10), bad=0.0)
    ops = [op for op in ops if op["op"] in ("set", "listop", "dictop", "reset")]
    dyn = {}
    if schema.get("dynamic") and rng.random() < 0.7:
        dyn = {"dyn_%d" % i: roundtrip.plain_value(rng, fmt) for i in range(rng.choice([1, 2]))}
        # extra fields may have any name, also one that reads like a path into a section of the same configuration
        secs = [ch for ch in schema["fields"] if ch["kind"] == "schema"]
        if rng.random() < 0.5:
            names = ["dotted.name", "a.b.c"]
            for sec in secs[:2]:
                names.append(sec["key"] + ".zz")
                leaves = [c for c in sec["fields"] if c["kind"] == "field" and c["family"] in ("str", "int", "bool", "float")]
                if leaves:
                    names.append(sec["key"] + "." + rng.choice(leaves)["key"])
            for nm in rng.sample(names, rng.choice([1, 2])):
                dyn[nm] = rng.choice([1, "s", True, 2.5])
    # reset_value() is also called on the keys of calculated fields (virtual fields, the is_<mode>_mode helpers of an
    # application-mode field, instance methods): a "factory reset" loop over everything the schema declares, on the new
    # configuration before the document is loaded ("before"), on the final state ("after") or both
    calc = None
    if rng.random() < 0.6:
        calc = {"when": rng.choice(["before", "after", "after", "both"]), "route": rng.choice(["parent", "dotted"]),
                "every_field": rng.random() < 0.5, "n": rng.randrange(1 << 16)}
    return {"schema": schema, "fmt": fmt, "tree": tree, "ops": ops, "dyn": dyn,
            "rotate": rng.randrange(1, 1 << 20) if rng.random() < 0.5 else 0, "calc_reset": calc}


RELATED_STRINGS = [
    ("C:\\ProgramData\\app\\logs\\", "^[a-z0-9_,]+$"), ("ends with a backslash\\", "{a, b, }"), ("say \\\"", "x,]"), ("/* open", "close */ , }"),
    ("<!-- open", "close --> &amp;"), ("<![CDATA[", "]]> tail"), ("'" * 3, "'" * 3 + " # not a comment"), ("${HOME", "}"), ("- a\n- b", "k: v"),
    ("line one\\", "line two"), ("%(name", ")s"), ("{{", "}}"),
]


def directed(ctx):
    """Pairs of strings that only confuse a text pre-/post-processor when both occur in one document."""
    schema = {"kind": "schema", "key": "", "fields": [
        {"kind": "field", "key": "first", "family": "str", "params": {}}, {"kind": "field", "key": "second", "family": "str", "params": {}},
        {"kind": "field", "key": "both", "family": "list", "params": {}, "item": None},
        {"kind": "schema", "key": "sec", "fields": [{"kind": "field", "key": "again", "family": "str", "params": {}}]}]}
    # a configuration whose only top-level entry is a section named like a document-level name of a format
    for name in ("k0", "CONFIG", "config", "cfg", "item"):
        one = {"kind": "schema", "key": "", "fields": [{"kind": "schema", "key": name, "fields": [
            {"kind": "field", "key": "host", "family": "str", "params": {}}, {"kind": "field", "key": "port", "family": "int", "params": {}}]}]}
        yield {"schema": one, "fmt": "yaml", "tree": {name: {"host": "h", "port": 1}}, "ops": [], "dyn": {}, "rotate": 0, "related": True}
    for a, b in RELATED_STRINGS:
        for x, y in ((a, b), (b, a)):
            yield {"schema": schema, "fmt": "json", "tree": {"first": x, "second": y, "both": [x, y, {"k": x}], "sec": {"again": y}},
                   "ops": [], "dyn": {}, "rotate": 0, "related": True}


def probes(ctx):
    # K6: a typed dict with a non-string key field puts non-string keys into the tree
    schema = {"kind": "schema", "key": "", "fields": [
        {"kind": "field", "key": "d", "family": "dict", "params": {},
         "keyf": {"kind": "field", "family": "int", "params": {}}, "valf": {"kind": "field", "family": "str", "params": {}}}]}
    yield "K6", {"schema": schema, "fmt": "json", "tree": {}, "ops": [{"op": "set", "route": "attr", "path": "d", "value": {1: "a", 2: "b"}}],
                 "dyn": {}, "raw": True}


def abbreviate(case):
    return {"schema": case["schema"], "fmt": case["fmt"], "tree": case["tree"], "ops": case["ops"][:4], "ops_total": len(case["ops"])}


def _count_set(v):
    if isinstance(v, dict):
        return sum(_count_set(x) for x in v.values())
    if isinstance(v, list):
        return sum(_count_set(x) for x in v) + 1
    return 0 if v is None else 1


def run(case, ctx, res):
    cc = ctx.cc
    env = env_of(ctx)
    drv = history.Driver(ctx, res, case["schema"], env)
    cfg, root = drv.cfg, drv.root
    calc = case.get("calc_reset")
    if calc and calc["when"] in ("before", "both"):
        _reset_fields(cc, cfg, calc, res, True)
    try:
        cfg.load_tree(copy.deepcopy(case["tree"]))
    except Exception:
        res.count("state_tree_not_loadable")
        return
    for op in case["ops"]:
        if not case.get("raw") and not _op_ok(root, op):
            res.count("history_ops_not_persistable_skipped")
            continue
        try:
            drv.step(op)
        except Exception:
            res.count("history_op_errors")
    for k, v in case["dyn"].items():
        try:
            setattr(cfg, k, v)
            if "." in k:
                res.count("dynamic_fields_with_dotted_names")
        except Exception:
            pass
    if calc and calc["when"] in ("after", "both"):
        # on the final state only the calculated fields are reset (the persistent values are the point of the round trip)
        _reset_fields(cc, cfg, calc, res, False)
    try:
        cfg.validate()
    except Exception:
        res.count("state_not_valid")
        return
    # no calculated field of any section (declared by the case or created by the library, e.g. is_<mode>_mode) is written
    try:
        early = cfg.to_tree()
    except Exception:
        early = None  # judged below, for the states the model accepts
    if early is not None:
        res.count("calculated_field_key_checks")
        found = _calculated_in_tree(cc, cfg, early, "")
        if found:
            res.viol("M-tree", "virtual-key-in-tree", "to_tree() contains the %s field %r%s" % (
                found[0][1], found[0][0], " (reset_value() had been called on the calculated fields)" if calc else ""))
            return
    state = plain(cfg)
    if model.validate_values(root, state) is not True:
        # e.g. a required field of a list item reset after insertion: Config.validate() does not look into list items
        res.count("state_valid_for_library_but_not_for_model_skipped")
        return
    res.count("states_validated")
    if case.get("related"):
        res.count("documents_with_related_strings")
    if any(isinstance(state.get(k), dict) and state.get(k) for k in ("config", "cfg", "k0")):
        res.count("schema_key_equals_root_tag")
    if _has_list_of_cfg(root, state):
        res.count("list_of_config_states")
    if any(k in state and state[k] for k in ("enc_l", "enc_d")):
        res.count("encoded_item_containers")
        for k in ("enc_l", "enc_d"):
            v = state.get(k)
            vals = list(v.values()) if isinstance(v, dict) else (v or [])
            if any(isinstance(x, (list, dict)) and x for x in vals):
                res.count("nested_encoded_containers")
    # ---- the tree
    try:
        tree = cfg.to_tree()
        vtree = cfg.to_tree(virtual=True)
    except Exception as exc:
        res.viol("M-tree", "to_tree-raises", "to_tree() of a valid state raised %s: %s" % (type(exc).__name__, str(exc)[:200]))
        return
    res.count("tree_plainness_checks")
    for kind, msg in roundtrip.tree_plain_problems(tree)[:2]:
        res.viol("M-tree", kind, "to_tree(): " + msg)
        return
    res.count("virtual_key_checks")
    vkeys = [ch["key"] for ch in model.fields_of(root)["fields"] if ch["kind"] == "field" and ch["family"] == "virtual"]
    mkeys = [ch["key"] for ch in model.fields_of(root)["fields"] if ch["kind"] == "field" and ch["family"] == "method"]
    for k in vkeys + mkeys:
        if k in tree:
            res.viol("M-tree", "virtual-key-in-tree", "to_tree() contains the %s field %r" % ("virtual" if k in vkeys else "method", k))
            return
    for k in vkeys:
        if k not in vtree:
            res.viol("M-tree", "virtual-key-missing", "to_tree(virtual=True) lacks the virtual field %r" % k)
            return
    for k in mkeys:
        if k in vtree:
            res.viol("M-tree", "method-key-in-tree", "to_tree(virtual=True) contains the instance-method field %r" % k)
            return
    # ---- every format x option
    log = ctx.filelog
    if log is None:
        log = ctx.filelog = FileLog(ctx.sb.root)
    done = 0
    basic = _strip_secrets(tree)
    for fmt in trees.FORMATS:
        if not trees.in_domain(fmt, basic) or not trees.in_domain(fmt, tree):
            res.count("skipped_out_of_domain:" + fmt)
            continue
        for opts in trees.OPTIONS[fmt]:
            label = fmt + ("(%s)" % ",".join("%s=%s" % kv for kv in opts.items()) if opts else "")
            log.clear()
            fresh = cc.Config(drv.built.schema, key_filename=drv.keyfile)
            with log:
                try:
                    blob = cfg.dumps(fmt, **opts)
                    given = blob
                    if fmt in ("json", "yaml", "xml") and len(blob) % 3 == 0:
                        try:
                            given = blob.decode()  # documents may be handed over as text
                            res.count("documents_given_as_text")
                        except UnicodeDecodeError:
                            pass
                    fresh.loads(given, fmt, **opts)
                    err = None
                except Exception as exc:
                    err = exc
            if err is not None:
                res.viol("M-roundtrip", "raises:%s:%s" % (fmt, _errkind(err)), "%s: saving and re-loading a valid state raised %s: %s" % (
                    label, type(err).__name__, str(err)[:200]))
                return
            res.count("roundtrips:" + fmt)
            diff = roundtrip.diff_states(root, state, plain(fresh))
            if diff:
                fam = _family_of(root, diff[0].split(":")[0])
                res.viol("M-roundtrip", "differs:%s:%s" % (fmt, fam), "%s: re-loaded configuration differs: %s" % (label, "; ".join(diff[:3])))
                return
            if not opts:
                # what the first re-load got is changed in place (untyped lists / maps are held as decoded); a second
                # load of the same bytes into another configuration must still reproduce the saved state
                from .c13 import _containers

                conts = []
                _containers(cc, fresh, "", conts)
                raw = [c for _p, c in conts if type(c) in (list, dict)]
                if raw:
                    for c in raw:
                        if isinstance(c, list):
                            c.append("__changed__")
                        else:
                            c["__changed__"] = 1
                    again = cc.Config(drv.built.schema, key_filename=drv.keyfile)
                    try:
                        again.loads(blob, fmt)
                    except Exception as exc:
                        res.viol("M-roundtrip", "raises:%s:second-load" % fmt, "%s: loading the same document a second time raised %r" % (label, exc))
                        return
                    res.count("second_loads_after_in_place_changes")
                    diff = roundtrip.diff_states(root, state, plain(again))
                    if diff:
                        res.viol("M-roundtrip", "differs:%s:second-load" % fmt, "%s: the same document loaded again after the first result was "
                                 "changed in place differs from the saved state: %s" % (label, "; ".join(diff[:3])))
                        return
            touched = [e for e in log.events if e[1] == ctx.sb.default_keyfile]
            if touched:
                res.viol("M-files", "default-keyfile-touched", "%s: the default key file was %s although the configuration names %s" % (
                    label, touched[0][0], drv.keyfile))
                return
        done += 1
    # ---- the key file is replaced by another program between two saves of the unchanged configuration: what is
    # written afterwards must load back with the key file as it is now
    if done and case.get("rotate"):
        try:
            with open(drv.keyfile, "wb") as fp:
                fp.write(bytes((case["rotate"] * 31 + i * 17) % 256 for i in range(32)))
        except OSError:
            pass
        else:
            fmts = [f for f in trees.FORMATS if trees.in_domain(f, basic) and trees.in_domain(f, tree)]
            fmt = fmts[case["rotate"] % len(fmts)]
            fresh = cc.Config(drv.built.schema, key_filename=drv.keyfile)
            try:
                fresh.loads(cfg.dumps(fmt), fmt)
            except Exception as exc:
                res.viol("M-roundtrip", "raises-after-key-rotation:%s" % _errkind(exc), "%s: the key file was replaced between two saves of "
                         "the unchanged state; saving and re-loading raised %s: %s" % (fmt, type(exc).__name__, str(exc)[:200]))
                return
            res.count("roundtrips_after_key_rotation")
            diff = roundtrip.diff_states(root, state, plain(fresh))
            if diff:
                res.viol("M-roundtrip", "differs-after-key-rotation:%s" % fmt, "%s: the key file was replaced between two saves of the "
                         "unchanged state; the re-loaded configuration differs: %s" % (fmt, "; ".join(diff[:3])))
                return
    # ---- after the configuration has been serialised, a bytes field of its schema is declared again under the same key
    # with the other text encoding; the next document is written for the schema as it is now and loads into a fresh one
    if done:
        cands = [nd for nd in root["fields"] if nd["kind"] == "field" and nd["family"] == "bytes"]
        if cands:
            nd = cands[0]
            nd2 = dict(nd, params=dict(nd["params"], encoding="hex" if nd["params"].get("encoding", "base64") != "hex" else "base64"))
            nd2["params"].pop("default", None)
            try:
                setattr(drv.built.schema, nd["key"], spec.make_field(cc, nd2, drv.built, nd["key"]))
                if cfg[nd["key"]] is None:
                    cfg[nd["key"]] = b"\x00\xffdeclared-again"
                want = bytes(cfg[nd["key"]])
            except Exception:
                want = None
            if want is not None:
                fmt = [f for f in trees.FORMATS if trees.in_domain(f, basic) and trees.in_domain(f, tree)][0]
                fresh = cc.Config(drv.built.schema, key_filename=drv.keyfile)
                try:
                    fresh.loads(cfg.dumps(fmt), fmt)
                    got = fresh[nd["key"]]
                except Exception as exc:
                    res.viol("M-roundtrip", "raises-after-redeclaration:%s" % _errkind(exc), "%s: the bytes field %s was declared again "
                             "(%s encoding) after the first save; saving and re-loading raised %s: %s" % (
                                 fmt, nd["key"], nd2["params"]["encoding"], type(exc).__name__, str(exc)[:200]))
                    return
                res.count("roundtrips_after_a_field_was_declared_again")
                if got != want:
                    res.viol("M-roundtrip", "differs-after-redeclaration", "%s: the bytes field %s was declared again (%s encoding) after "
                             "the first save; %r re-loads as %r" % (fmt, nd["key"], nd2["params"]["encoding"], want, got))
                    return
    if done >= 2 and _count_set(state) >= 3:
        res.nontrivial(case["schema"], case["tree"], case["ops"], case["dyn"])


def _sections(cc, cfg, path="", depth=0):
    """(path, configuration) for the configuration and every configuration below it (sections, items of lists)."""
    out = [(path, cfg)]
    if depth > 6:
        return out
    for key, val in list(cfg._data.items()):
        sub = (path + "." if path else "") + key
        if isinstance(val, cc.Config):
            out.extend(_sections(cc, val, sub, depth + 1))
        elif isinstance(val, list):
            for i, item in enumerate(list(val)):
                if isinstance(item, cc.Config):
                    out.extend(_sections(cc, item, "%s[%d]" % (sub, i), depth + 1))
    return out


def _is_calculated(cc, field):
    if isinstance(field, cc.core.InstanceMethodFieldMixin):
        return "method"
    if isinstance(field, cc.core.VirtualFieldMixin):
        return "virtual"
    return None


def _reset_fields(cc, cfg, calc, res, fresh):
    """reset_value() on the calculated fields of every section; on a new configuration (fresh) optionally on every field
    the schema declares.  Sections are collected first: resetting a section replaces the object."""
    for path, sec in _sections(cc, cfg):
        for key, field in list(sec._schema._fields.items()):
            kind = _is_calculated(cc, field)
            if kind is None and not (fresh and calc["every_field"]):
                continue
            if kind is None and isinstance(field, (cc.Schema, cc.core.ConfigTypeField)):
                continue  # replaces the section object (C12's subject); the fields inside are reset one by one
            try:
                if calc["route"] == "dotted" and "[" not in path and path:
                    cc.reset_value(cfg, path + "." + key)
                else:
                    cc.reset_value(sec, key)
            except Exception:
                res.count("calculated_field_reset_errors")
                continue
            if kind:
                res.count("resets_of_calculated_fields")
                res.count("resets_of_calculated_fields:" + kind)
            else:
                res.count("resets_of_persistent_fields_before_load")


def _calculated_in_tree(cc, cfg, tree, path):
    """[(path, kind)] of calculated fields (virtual, instance method) that occur as keys in the tree of cfg."""
    out = []
    if not isinstance(tree, dict):
        return out
    for key, field in list(cfg._schema._fields.items()) + list(cfg._fields.items()):
        kind = _is_calculated(cc, field)
        sub = (path + "." if path else "") + key
        if kind:
            if key in tree:
                out.append((sub, kind))
            continue
        val = cfg._data.get(key)
        if isinstance(val, cc.Config):
            out.extend(_calculated_in_tree(cc, val, tree.get(key), sub))
        elif isinstance(val, list) and isinstance(tree.get(key), list) and len(val) == len(tree[key]):
            for i, item in enumerate(list(val)):
                if isinstance(item, cc.Config):
                    out.extend(_calculated_in_tree(cc, item, tree[key][i], "%s[%d]" % (sub, i)))
    return out


def _errkind(err):
    msg = str(err)
    for key in ("padding", "must be a string", "not a string", "required", "Unknown", "invalid"):
        if key in msg:
            return key.replace(" ", "-")
    return type(err).__name__


def _strip_secrets(tree):
    return tree


def _has_list_of_cfg(root, state):
    for path, nd in spec.walk(root):
        if nd["kind"] == "field" and nd["family"] == "list" and nd.get("item") and nd["item"]["kind"] != "field" and "[]" not in path:
            try:
                v = history.pget(state, path)
            except Exception:
                continue
            if v:
                return True
    return False


def _family_of(root, path):
    import re

    nd = spec.node_at(root, re.sub(r"\[[^\]]*\]", "", path).strip())
    if nd is None:
        return "?"
    if nd["kind"] != "field":
        return nd["kind"]
    sub = ""
    for k in ("item", "valf"):
        if nd.get(k) and nd[k].get("kind") == "field":
            sub = "(" + nd[k]["family"] + ")"
    return nd["family"] + sub


def _persistable_value(root, op):
    """Assignments made on the way to the state: only plain / text values (tuples, NaN, opaque objects and
    non-text secrets cannot be carried by a document)."""
    v = op.get("value")
    nd = spec.node_at(root, op["path"].replace("[]", "[0]"))
    if nd is None or nd["kind"] != "field":
        return isinstance(v, dict) and roundtrip._plain(v) and roundtrip._no_nan(v) and not _has_bytes(v)
    return _ok(nd, v)


def _op_ok(root, op):
    if op["op"] == "set":
        return op.get("value") is None or _persistable_value(root, op)
    if op["op"] in ("listop", "dictop"):
        nd = spec.node_at(root, op["path"].replace("[]", "[0]"))
        if nd is None or nd["kind"] != "field":
            return False
        if op["op"] == "listop":
            it = nd.get("item")
            vals = [op.get("x")] + list(op.get("xs", []))
            if it is None:
                return all(roundtrip._plain(v) and roundtrip._no_nan(v) and not _has_bytes(v) for v in vals)
            if it["kind"] != "field":
                return all(v is None or (isinstance(v, dict) and roundtrip._plain(v) and roundtrip._no_nan(v) and not _has_bytes(v))
                           for v in vals)
            return all(v is None or _ok(it, v) for v in vals)
        vf = nd.get("valf")
        pairs = [op.get("kv")] + list(op.get("pairs", []))
        for k, v in pairs:
            if not isinstance(k, str):
                return False
            if vf is None:
                if not (roundtrip._plain(v) and roundtrip._no_nan(v) and not _has_bytes(v)):
                    return False
            elif v is not None and not _ok(vf, v):
                return False
        return True
    return True


def _ok(nd, v):
    from ..jsonx import DigestSpec

    fam = nd["family"]
    if fam == "secure":
        return isinstance(v, str)
    if fam == "any":
        return roundtrip._plain(v) and not isinstance(v, bytes) and roundtrip._no_nan(v)
    if isinstance(v, float) and v != v:
        return False
    if fam == "list":
        if not isinstance(v, list):
            return False
        it = nd.get("item")
        if it is None:
            return roundtrip._plain(v) and roundtrip._no_nan(v) and not _has_bytes(v)
        if it["kind"] != "field":
            return roundtrip._plain(v) and roundtrip._no_nan(v) and not _has_bytes(v)
        return all(x is None or _ok(it, x) for x in v)
    if fam == "dict":
        if not isinstance(v, dict) or not all(isinstance(k, str) for k in v):
            return False
        vf = nd.get("valf")
        if vf is None:
            return roundtrip._plain(v) and roundtrip._no_nan(v) and not _has_bytes(v)
        return all(x is None or _ok(vf, x) for x in v.values())
    if isinstance(v, DigestSpec):
        return True
    return roundtrip._plain(v)


def _has_bytes(v):
    if isinstance(v, bytes):
        return True
    if isinstance(v, list):
        return any(_has_bytes(x) for x in v)
    if isinstance(v, dict):
        return any(_has_bytes(x) for x in v.values())
    return False
