"""C09 - challenge fields keep only a salted hash that verifies exactly the secret."""
import base64
import hashlib
import pickle

from .. import trees
from ..common import token, weighted
from ..monitors import find_token, find_token_deep

PLAN = {
    "quick": {"shards": 8, "cases": 800, "min_nontrivial": 3500, "budget_s": 300},
    "thorough": {"shards": 16, "cases": 15000, "min_nontrivial": 84000, "budget_s": 1500},
}
RULE = ("a case is (hash algorithm, secret p as text or bytes - empty, Unicode, long, containing a unique token -, a set "
        "of near-miss secrets q: prefix, suffix, case flip, appended NUL, the base64 of the digest, p as the other "
        "type), a placement (root, nested schema, list item, ListField(ChallengeField), default given as plaintext or "
        "as a digest value), a feature flag in front of the challenge fields of the sections (none, on, undecided, off by "
        "default / assignment / document, switched on after the assignment) and formats; checks: digest == H(salt || p) recomputed with hashlib, salt length == digest "
        "size, two assignments give different salts, challenge(p) succeeds and challenge(q) fails, the token of p is "
        "absent from repr/str/pickle of the value and from every serialised form, salt and digest survive "
        "dumps/loads in every format so the same challenges keep their outcome, and a plaintext written by hand into "
        "a document is hashed on load; non-trivial = non-empty p with >= 3 near misses judged; distinct = distinct "
        "case content")
REQUIRED = ("sections_bound_to_a_feature_flag", "secrets_assigned_with_the_feature_switched_off", "features_switched_on_after_the_secret",
            "dict_of_challenges_checks", "plaintext_in_hand_typed_xml_hashed", "byte_string_secrets_given_as_default", "sibling_text_lists_taken_over", "digest_values_made_with_a_chosen_salt", "chosen_salts_refused", "secrets_of_round_sizes", "secrets_of_whole_mebibytes", "secrets_shaped_like_references", "printed_forms_parsed_back", "byte_secrets_that_are_not_utf8", "digest_values_with_other_salt_length", "plaintext_in_included_file_hashed", "same_field_reassignments", "env_bound_unset_variable", "reset_default_checks", "bulk_list_salt_checks", "digests_recomputed", "fresh_salt_checks", "challenge_accepts_p", "challenge_rejects_q", "leak_scans_memory",
            "leak_scans_documents", "roundtrips_digest_unchanged", "plaintext_in_document_hashed", "alg:md5", "alg:sha1",
            "alg:sha224", "alg:sha256", "alg:sha384", "alg:sha512")
ASSUMPTIONS = ["hashlib is the reference implementation of the six algorithms", "documents are produced/decoded with the "
               "library's codecs (C04)"]
ALGS = {"md5": 16, "sha1": 20, "sha224": 28, "sha256": 32, "sha384": 48, "sha512": 64}


def generate(rng, ctx):
    alg = rng.choice(list(ALGS))
    tok = token(rng)
    kind = weighted(rng, [(5, "token"), (1, "empty"), (2, "unicode"), (1, "long"), (1, "short"), (2, "shaped"), (2, "compat"), (1.5, "rawbytes"), (1.2, "expands"), (0.25, "sized"), (1, "numeric")])
    size = None
    if kind == "empty":
        p = ""
    elif kind == "unicode":
        p = "p\u00e4ss\u4e2d\U0001f600" + tok
    elif kind == "long":
        p = (tok + "x" * 50) * 100
    elif kind == "short":
        p = rng.choice(["a", "0", " ", "pw"])
    elif kind == "shaped":
        # secrets that look like other on-disk shapes: 'salt:digest' text, base64, JSON, key=value
        p = rng.choice(["pass:word", "abcd:efgh", ":", "QUJD:REVG", "a:b", "YWJj", "{\"salt\": \"x\"}", "salt=1;digest=2",
                        "c2FsdA==:ZGlnZXN0", tok[:8] + ":" + tok[8:], "::", "=" * 4,
                        # pasted multi-line passphrases: the line breaks and the indentation belong to the secret
                        "\n" + tok + "\nsecond line\n", "\n", "\n  " + tok + "\n  ", "\r\n" + tok + "\r\n", "\t" + tok + "\n\t"])
    elif kind == "expands":
        # secrets that some layer might expand, substitute or unescape: environment references (HOME and PATH are set),
        # home directories, format directives, escapes, entities
        p = rng.choice(["$HOME", "${HOME}", "tok-${PATH}-x", "$PATH:" + tok, "~", "~/" + tok, "%(HOME)s", "%HOME%", "{0}", "{HOME}",
                        "\\n" + tok, "&amp;" + tok, "&#36;HOME", "%24HOME", "$$HOME", "`echo x`", "$(echo x)", "!!str x", "*a", "&a x",
                        "<<: x", "@" + tok, "%s" + tok]) + rng.choice(["", "", tok])
    elif kind == "numeric":
        # PINs and other secrets that read like numbers, booleans or nothing
        p = rng.choice(["4711", "0042", "1e3", "-0", "1_000", "nan", "12.50", "true", "null", "0x1F", "+7", "1,5", " 42 "])
    elif kind == "sized":
        # long secrets whose encoded length sits on and next to the round sizes a buffered reader or hasher would use
        unit = rng.choice([1 << 16, 1 << 20, 1 << 20, 1 << 19, 4096, 1 << 21])
        size = unit * rng.choice([1, 2, 2, 3, 4]) + rng.choice([0, 0, 0, 1, -1])
        p = tok
    elif kind == "compat":
        # not in NFC/NFKC form: full-width letters, ligature, superscript, combining accent
        p = rng.choice(["\uff50\uff41\uff53\uff53", "\ufb01le", "x\u00b2", "e\u0301", "\u212b", "\u00e9"]) + rng.choice(["", tok])
    elif kind == "rawbytes":
        p = tok  # made a byte string that is not UTF-8 below
    else:
        p = tok
    as_bytes = rng.random() < 0.3
    if kind == "rawbytes":
        raw = rng.choice([b"pa\xffss\xfe", b"\x80", b"\xc3(", b"\xed\xa0\x80"]) + tok.encode() + rng.choice([b"", b"\xff"])
        return {"alg": alg, "p": raw, "tok": tok, "place": rng.choice(["root", "nested", "list-of-challenge", "default-digest", "assigned-digest"]),
                "salt_len": rng.choice([None, None, 1, -1, 8, "double", "hexlike3", "hexlike48"]),
                "fmts": rng.sample(trees.FORMATS, rng.choice([2, 3, 5])), "upper": rng.random() < 0.3,
                "env": rng.choice([None, None, "field-named", "schema-prefix"]), "reassign_route": "attr", "flag": _flag(rng)}
    return {"alg": alg, "p": p.encode() if as_bytes else p, "tok": tok if tok in p else None, "size": size, "kind": kind,
            "place": rng.choice(["root", "nested", "list-item", "list-of-challenge", "default-plain", "default-digest",
                                 "assigned-digest"]),
            # digest values given directly (imported hashes) may carry a salt of any length
            "salt_len": rng.choice([None, None, 1, -1, 8, "double", "hexlike3", "hexlike48"]),
            "fmts": rng.sample(trees.FORMATS, rng.choice([2, 3, 5])), "upper": rng.random() < 0.3,
            # the field may be bound to an environment variable that is NOT set (must behave as if unbound)
            "env": rng.choice([None, None, "field-named", "field-auto", "schema-prefix"]),
            "reassign_route": rng.choice(["attr", "item", "attr"]),
            # the sections that hold the challenge fields may be bound to a feature flag, switched off in various ways
            "flag": _flag(rng)}


def _flag(rng):
    """How the feature flag of the sections is declared and set before the secret is assigned (None: no flag field)."""
    return weighted(rng, [(5, None), (2, "default-false"), (1.5, "assigned-false"), (1.5, "loaded-false"), (1, "default-true"),
                          (0.5, "undecided"), (1, "off-then-on")])


def abbreviate(case):
    c = dict(case)
    if len(c["p"]) > 60:
        c["p"] = c["p"][:60]
        c["p_truncated"] = True
    return c


def near_misses(p, digest):
    import unicodedata

    pb = p.encode() if isinstance(p, str) else p
    extra = []
    if isinstance(p, str):
        for form in ("NFC", "NFD", "NFKC", "NFKD"):
            q = unicodedata.normalize(form, p)
            if q != p:
                extra.append(q.encode())
        if p.lower() != p or p.upper() != p:
            extra.append(p.swapcase().encode())
    qs = [pb + b"\x00", pb + b" ", pb[:-1] if pb else b"x", b"x" + pb, pb.swapcase() if pb.swapcase() != pb else pb + b"!",
          base64.b64encode(digest), pb * 2 if pb else b"\x00", pb.strip() if pb.strip() != pb else pb + b"\n"]
    out = []
    for q in qs + extra:
        if q != pb:
            out.append(q)
            try:
                out.append(q.decode())
            except UnicodeDecodeError:
                pass
    try:
        pb.decode()
    except UnicodeDecodeError:
        # a byte string that is not UTF-8 has no text form: its surrogate-escaped spelling is another (unassignable) secret
        out.append(pb.decode("utf-8", "surrogateescape"))
    return out


def run(case, ctx, res):
    cc = ctx.cc
    alg, p, tok, place = case["alg"], case["p"], case["tok"], case["place"]
    if case.get("size"):
        p = (p * (case["size"] // len(p) + 1))[:case["size"]]
        res.count("secrets_of_round_sizes")
        if case["size"] % (1 << 20) == 0 and case["size"] > (1 << 20):
            res.count("secrets_of_whole_mebibytes")
    if case.get("kind") == "expands":
        res.count("secrets_shaped_like_references")
    pb = p.encode() if isinstance(p, str) else p
    res.count("alg:" + alg)
    if not _decodable(pb):
        res.count("byte_secrets_that_are_not_utf8")
    algname = alg.upper() if case["upper"] else alg
    feat = "%s:%s" % (place, alg)
    envmode = case.get("env")
    if envmode:
        import os

        if any(k.startswith("VFC09") for k in os.environ):
            return
        res.count("env_bound_unset_variable")
    schema = cc.Schema(env="VFC09P") if envmode == "schema-prefix" else cc.Schema()
    item = cc.Schema(env="VFC09I") if envmode == "schema-prefix" else cc.Schema()
    flag = case.get("flag")
    flag_default = {"default-false": False, "off-then-on": False, "undecided": None}.get(flag, True)
    if flag:
        # a feature flag in front of the challenge field of a list item, ...
        item.enabled = cc.FeatureFlagField(default=flag_default)
    item.pw = cc.ChallengeField(algname)
    item.n = cc.IntField(default=0)
    kw = {}
    if place == "default-plain":
        kw["default"] = p  # text or bytes
    given = None
    if place in ("default-digest", "assigned-digest"):
        sl = case.get("salt_len")
        if sl is None:
            given = cc.DigestValue.create(p, cc.ChallengeField.ALGORITHMS[alg])
        else:
            if sl in ("hexlike3", "hexlike48"):
                # salts whose base64 text consists of hexadecimal digits only and needs no padding
                salt = base64.b64decode("c0de" if sl == "hexlike3" else "deadbeefcafef00d" * 4)
            else:
                n = {1: 1, -1: ALGS[alg] - 1, 8: ALGS[alg] + 8, "double": 2 * ALGS[alg]}[sl]
                salt = bytes((7 * i + len(pb)) % 256 for i in range(n))
            given = cc.DigestValue(salt, hashlib.new(alg, salt + pb).digest(), cc.ChallengeField.ALGORITHMS[alg])
            res.count("digest_values_with_other_salt_length")
    if place == "default-digest":
        kw["default"] = given
    if envmode == "field-named":
        kw["env"] = "VFC09_PW"
    elif envmode == "field-auto":
        kw["env"] = True
    if flag:
        # ... of the root and of the nested section: a switched-off feature still keeps only salted hashes of its secrets
        schema.enabled = cc.FeatureFlagField(default=flag_default)
        schema.sub.deep.enabled = cc.FeatureFlagField(default=flag_default)
    schema.pw = cc.ChallengeField(algname, **kw)
    schema.sub.deep.pw = cc.ChallengeField(algname, **({"env": "VFC09_DEEP"} if envmode == "field-named" else {}))
    schema.items = cc.ListField(item)
    schema.pws = cc.ListField(cc.ChallengeField(algname))
    schema.initial = cc.ListField(cc.StringField())  # a list of plain texts right next to the list of challenges
    schema.named = cc.DictField(cc.StringField(), cc.ChallengeField(algname))
    schema.name = cc.StringField(default="n")
    schema.inc = cc.IncludeField()

    def build():
        cfg = schema()
        off = {}
        if flag == "assigned-false":
            cfg.enabled = False
            cfg.sub.deep.enabled = False
            off = {"enabled": False}
        elif flag == "loaded-false":
            cfg.load_tree({"enabled": False, "sub": {"deep": {"enabled": False}}})
            off = {"enabled": False}
        if place == "root":
            cfg.pw = p
        elif place == "assigned-digest":
            cfg.pw = given
        elif place == "nested":
            cfg.sub.deep.pw = p
        elif place == "list-item":
            cfg.items = [dict(off, pw=p if isinstance(p, str) else p.decode(), n=1), dict(off, n=2)]
        elif place == "list-of-challenge":
            cfg.pws = [p, "other-secret", p]
        if flag == "off-then-on":
            # the secret was assigned while the feature was off; the feature is switched on afterwards
            cfg.enabled = True
            cfg.sub.deep.enabled = True
        return cfg

    def value_of(cfg):
        if place in ("root", "default-plain", "default-digest", "assigned-digest"):
            return cfg.pw
        if place == "nested":
            return cfg.sub.deep.pw
        if place == "list-item":
            return cfg.items[0].pw
        return cfg.pws[0]

    # digest values made with a salt of the caller's choosing (how an application prepares a default): whatever salt the
    # value ends up with, its digest is the hash of that salt and the secret, and the secret passes the challenge
    size0 = ALGS[alg]
    for n in (size0, size0 + 8, 2 * size0, size0 - 1, 1):
        chosen = bytes((11 * i + n + len(pb)) % 256 for i in range(n))
        try:
            made = cc.DigestValue.create(p, cc.ChallengeField.ALGORITHMS[alg], salt=chosen)
        except TypeError:
            res.count("chosen_salts_refused")
            continue
        except Exception as exc:
            res.viol("M-digest", "chosen-salt-raises:" + alg, "DigestValue.create with a %d-byte salt raised %r" % (n, exc))
            return
        res.count("digest_values_made_with_a_chosen_salt")
        if hashlib.new(alg, bytes(made.salt) + pb).digest() != bytes(made.digest) or not chosen.startswith(bytes(made.salt)) or not made.salt:
            res.viol("M-digest", "chosen-salt-digest:" + alg, "DigestValue.create with a %d-byte salt gives salt %s / digest %s, which is not "
                     "%s(salt || p)" % (n, bytes(made.salt).hex()[:16], bytes(made.digest).hex()[:16], alg))
            return
        try:
            made.challenge(p)
        except Exception as exc:
            res.viol("M-challenge", "rejects-the-secret:chosen-salt:" + alg, "challenge(p) on a value made with a chosen salt raised %r" % (exc,))
            return
    try:
        cfg1, cfg2 = build(), build()
    except UnicodeDecodeError:
        return
    except TypeError as exc:
        if place != "default-plain":
            raise
        res.viol("M-digest", "default-secret-refused:" + type(p).__name__, "a configuration whose challenge field declares the default "
                 "secret %s cannot be built: %s" % (_short(p), exc))
        return
    if place == "default-plain" and not isinstance(p, str):
        res.count("byte_string_secrets_given_as_default")
    if flag:
        # what the flags of the root and of the nested section read now (harness self-check: the case is what it says)
        state = (cfg1.enabled, cfg1.sub.deep.enabled)
        want_state = {"default-false": False, "assigned-false": False, "loaded-false": False, "undecided": None}.get(flag, True)
        if state != (want_state, want_state):
            raise AssertionError("flag mode %s: the flags read %r" % (flag, state))
        res.count("sections_bound_to_a_feature_flag")
        if want_state is False:
            res.count("secrets_assigned_with_the_feature_switched_off")
        elif flag == "off-then-on":
            res.count("features_switched_on_after_the_secret")
    try:
        v1, v2 = value_of(cfg1), value_of(cfg2)
    except (AttributeError, TypeError, IndexError, KeyError) as exc:
        res.viol("M-digest", "not-a-digest:" + feat, "the stored secret cannot be read back as a challenge value: %r" % (exc,))
        return
    if not isinstance(v1, cc.DigestValue):
        res.viol("M-digest", "not-a-digest:" + feat, "challenge field holds %r after assigning the secret" % (v1,))
        return
    size = ALGS[alg]
    res.count("digests_recomputed")
    want = hashlib.new(alg, bytes(v1.salt) + pb).digest()
    if bytes(v1.digest) != want:
        res.viol("M-digest", "digest-not-hash-of-salt-plus-secret:" + feat, "stored digest %s differs from %s(salt || p) = %s" % (
            bytes(v1.digest).hex()[:16], alg, want.hex()[:16]))
        return
    if given is not None and (bytes(v1.salt) != bytes(given.salt) or bytes(v1.digest) != bytes(given.digest)):
        res.viol("M-digest", "given-digest-altered:" + feat, "a digest value given directly (salt of %d bytes) is held as salt %d bytes / "
                 "digest %s" % (len(given.salt), len(v1.salt), bytes(v1.digest).hex()[:16]))
        return
    if (given is None and len(v1.salt) != size) or len(v1.digest) != size:
        res.viol("M-digest", "salt-length:" + feat, "salt has %d bytes, digest %d, %s digests have %d" % (
            len(v1.salt), len(v1.digest), alg, size))
        return
    if place not in ("default-digest", "assigned-digest"):
        res.count("fresh_salt_checks")
        if bytes(v1.salt) == bytes(v2.salt):
            res.viol("M-digest", "salt-reused:" + feat, "two assignments of one secret got the same salt %s" % bytes(v1.salt).hex()[:16])
            return
        if len(set(bytes(v1.salt))) <= 2 and size >= 16:
            res.viol("M-digest", "salt-not-random:" + feat, "salt %s" % bytes(v1.salt).hex())
            return
    # the same secret assigned again to the same field of the same configuration gets a new salt
    if pb and place != "list-of-challenge" and given is None:
        target = {"root": "pw", "default-plain": "pw", "default-digest": "pw", "assigned-digest": "pw", "nested": "sub.deep.pw",
                  "list-item": None}[place]
        try:
            if target is None:
                cfg1.items[0].pw = p if isinstance(p, str) else p.decode()
            elif case.get("reassign_route") == "item":
                cfg1[target] = p
            else:
                holder = cfg1
                for seg in target.split(".")[:-1]:
                    holder = getattr(holder, seg)
                setattr(holder, target.split(".")[-1], p)
        except Exception as exc:
            res.viol("M-digest", "reassign-raises:" + feat, "assigning the same secret again raised %r" % (exc,))
            return
        again = value_of(cfg1)
        res.count("same_field_reassignments")
        if not isinstance(again, cc.DigestValue) or hashlib.new(alg, bytes(again.salt) + pb).digest() != bytes(again.digest):
            res.viol("M-digest", "not-a-digest:reassign:" + feat, "after assigning the secret again the field holds %r" % (_short(again),))
            return
        if bytes(again.salt) == bytes(v1.salt):
            res.viol("M-digest", "salt-reused:reassign", "assigning the same secret again to the same field kept the salt %s" % bytes(v1.salt).hex()[:16])
            return
        v1 = again
    # a reset of a plaintext default must hash again; repeated secrets in one bulk list operation get their own salts
    if place == "default-plain":
        cc.reset_value(cfg1, "pw")
        res.count("reset_default_checks")
        r = cfg1.pw
        if not isinstance(r, cc.DigestValue) or hashlib.new(alg, bytes(r.salt) + pb).digest() != bytes(r.digest):
            res.viol("M-digest", "reset-leaves-plaintext-default", "after reset_value the challenge field holds %r" % (_short(r),))
            return
        if bytes(r.salt) == bytes(v1.salt) and pb:
            res.viol("M-digest", "salt-reused:reset", "reset_value re-used the salt of the previous value")
            return
        v1 = r
    if place == "list-of-challenge":
        lst = cfg1.pws
        res.count("bulk_list_salt_checks")
        ops = [("assign", lst)]
        cfg2.pws.extend([p, p])
        ops.append(("extend", cfg2.pws))
        cfg2.pws[0:1] = [p, p]
        ops.append(("slice", cfg2.pws))
        cfg2.pws += (p, p)
        ops.append(("iadd", cfg2.pws))
        if isinstance(p, str):
            # the typed list of a sibling field (plain texts) is handed over as it is
            cfg2.initial = [p, p]
            cfg2.pws = cfg2.initial
            ops.append(("assign-sibling", cfg2.pws))
            cfg2.pws.extend(cfg2.initial)
            ops.append(("extend-sibling", cfg2.pws))
            cfg2.pws += cfg2.initial
            ops.append(("iadd-sibling", cfg2.pws))
            cfg2.pws[0:0] = cfg2.initial
            ops.append(("slice-sibling", cfg2.pws))
            res.count("sibling_text_lists_taken_over")
        for how, l in ops:
            mine = [bytes(x.salt) for x in l if isinstance(x, cc.DigestValue) and hashlib.new(alg, bytes(x.salt) + pb).digest() == bytes(x.digest)]
            if len(mine) < 2 or any(not isinstance(x, cc.DigestValue) for x in l):
                res.viol("M-digest", "list-items-not-hashed:" + how, "%s: items of the challenge list are %r" % (how, _short(list(l))))
                return
            if len(set(mine)) != len(mine):
                res.viol("M-digest", "salt-reused:list-" + how, "%s: equal secrets in one list operation share a salt (%d items, %d salts)" % (
                    how, len(mine), len(set(mine))))
                return
    # a dict of challenges: every way of putting the secret in hashes it (update with the dict's own copy plus keywords too)
    if pb:
        d = cfg2.named
        if d is None:
            cfg2.named = {}
            d = cfg2.named
        d["direct"] = p
        d.update({"mapped": p})
        d.update(viakw=p)
        d.update(d.copy(), withcopy=p)
        d.setdefault("dflt", p)
        d |= {"ior": p}
        res.count("dict_of_challenges_checks")
        for k, v in d.items():
            if not isinstance(v, cc.DigestValue) or hashlib.new(alg, bytes(v.salt) + pb).digest() != bytes(v.digest):
                res.viol("M-digest", "dict-entry-not-hashed:" + k, "the entry %r of a dict of challenge values holds %s" % (k, _short(v)))
                return
        if len({bytes(v.salt) for v in d.values()}) != len(d):
            res.viol("M-digest", "salt-reused:dict", "entries of a dict of challenge values share a salt")
            return
    # the printed form salt:digest parses back to the same pair
    res.count("printed_forms_parsed_back")
    try:
        back = cc.DigestValue.parse(str(v1), v1.algorithm)
    except Exception as exc:
        res.viol("M-digest", "printed-form-does-not-parse:" + feat, "DigestValue.parse(str(v)) raised %r for %r" % (exc, str(v1)[:60]))
        return
    if bytes(back.salt) != bytes(v1.salt) or bytes(back.digest) != bytes(v1.digest):
        res.viol("M-digest", "printed-form-changes:" + feat, "DigestValue.parse(str(v)) gives salt %s / digest %s for salt %s / digest %s (text %r)" % (
            bytes(back.salt).hex()[:16], bytes(back.digest).hex()[:16], bytes(v1.salt).hex()[:16], bytes(v1.digest).hex()[:16], str(v1)[:40]))
        return
    # challenges
    for candidate in ([p, pb] + ([pb.decode()] if _decodable(pb) else [])):
        res.count("challenge_accepts_p")
        try:
            v1.challenge(candidate)
        except Exception as exc:
            res.viol("M-challenge", "rejects-the-secret:" + feat, "challenge(%r) raised %r" % (_short(candidate), exc))
            return
    misses = near_misses(p, bytes(v1.digest))
    for q in misses:
        res.count("challenge_rejects_q")
        try:
            v1.challenge(q)
        except ValueError:
            continue
        except Exception as exc:
            res.viol("M-challenge", "wrong-error:" + feat, "challenge(%r) raised %s instead of a ValueError" % (_short(q), type(exc).__name__))
            return
        res.viol("M-challenge", "accepts-another-secret:" + feat, "challenge(%r) succeeded although the secret is %r" % (_short(q), _short(p)))
        return
    # plaintext absent from memory images
    if tok:
        res.count("leak_scans_memory")
        images = {"repr": repr(v1), "str": str(v1), "pickle": pickle.dumps(tuple(v1[:2])), "vars": repr(getattr(v1, "__dict__", {})),
                  "tuple": repr(tuple(v1))}
        for name, img in images.items():
            hit = find_token(img, tok)
            if hit:
                res.viol("M-leak", "plaintext-in-memory:" + name, "%s of the stored value contains the secret (%s)" % (name, hit))
                return
    # serialised forms + round trip
    for fmt in case["fmts"]:
        try:
            blob = cfg1.dumps(fmt)
            tree = cfg1.to_tree()
        except Exception as exc:
            res.viol("M-roundtrip", "dumps-raises:" + feat, "dumps(%s) raised %s: %s" % (fmt, type(exc).__name__, exc))
            return
        if tok:
            res.count("leak_scans_documents")
            hit = find_token(blob, tok) or find_token_deep(tree, tok)
            if hit:
                res.viol("M-leak", "plaintext-in-document:" + fmt, "%s output contains the secret (%s encoding)" % (fmt, hit))
                return
        fresh = schema()
        try:
            fresh.loads(blob, fmt)
        except Exception as exc:
            res.viol("M-roundtrip", "loads-raises:%s" % place, "%s: loading the saved document raised %s: %s" % (fmt, type(exc).__name__, str(exc)[:150]))
            return
        w = value_of(fresh)
        res.count("roundtrips_digest_unchanged")
        if not isinstance(w, cc.DigestValue) or bytes(w.salt) != bytes(v1.salt) or bytes(w.digest) != bytes(v1.digest):
            res.viol("M-roundtrip", "digest-changed:%s" % place, "%s: salt/digest changed by save and load: %r -> %r" % (fmt, v1, w))
            return
        try:
            w.challenge(p)
        except Exception as exc:
            res.viol("M-roundtrip", "challenge-after-reload:%s" % place, "%s: challenge(p) fails after reload: %r" % (fmt, exc))
            return
        for q in misses[:3]:
            try:
                w.challenge(q)
            except ValueError:
                continue
            res.viol("M-roundtrip", "challenge-after-reload-accepts-q:%s" % place, "%s: challenge(%r) succeeds after reload" % (fmt, _short(q)))
            return
        if pb and place in ("root", "default-plain", "default-digest", "assigned-digest"):
            fresh.pw = p
            res.count("same_field_reassignments")
            if not isinstance(fresh.pw, cc.DigestValue) or bytes(fresh.pw.salt) == bytes(w.salt):
                res.viol("M-digest", "salt-reused:reassign-after-reload", "%s: assigning the secret again after a reload kept the stored "
                         "salt (value %r)" % (fmt, _short(fresh.pw)))
                return
    # a plaintext written by hand into a document is hashed on load
    if isinstance(p, str) and p:
        fmt = case["fmts"][0]
        doc = {"pw": p, "sub": {"deep": {"pw": p}}, "items": [{"pw": p, "n": 3}], "pws": [p]}
        if trees.in_domain(fmt, doc):
            hand = schema()
            try:
                hand.loads(cc.ConfigFormat.get(fmt).dumps(hand, doc), fmt)
            except Exception as exc:
                res.viol("M-hand", "plaintext-document-rejected", "%s document with plaintext secrets raised %s: %s" % (fmt, type(exc).__name__, str(exc)[:150]))
                return
            res.count("plaintext_in_document_hashed")
            for where, v in (("pw", hand.pw), ("sub.deep.pw", hand.sub.deep.pw), ("items[0].pw", hand.items[0].pw), ("pws[0]", hand.pws[0])):
                if not isinstance(v, cc.DigestValue) or hashlib.new(alg, bytes(v.salt) + pb).digest() != bytes(v.digest):
                    res.viol("M-hand", "plaintext-not-hashed:" + where.split("[")[0].split(".")[0], "plaintext at %s of a %s document was "
                             "loaded as %r" % (where, fmt, _short(v)))
                    return
            if tok:
                out = hand.dumps(fmt)
                if find_token(out, tok):
                    res.viol("M-hand", "plaintext-survives-resave", "saving after loading a hand-written plaintext still writes it")
                    return
    # ... also in an XML document typed by hand: the leaves carry no type attribute, whatever the text looks like
    if isinstance(p, str) and p and trees.in_domain("xml", {"k": p}) and p == p.strip() and "\r" not in p:
        from xml.sax.saxutils import escape

        e = escape(p)
        text = ("<config><pw>%s</pw><sub type=\"dict\"><deep type=\"dict\"><pw>%s</pw></deep></sub><pws type=\"list\"><item>%s</item>"
                "</pws></config>" % (e, e, e))
        hand = schema()
        try:
            hand.loads(text, "xml")
        except Exception as exc:
            res.viol("M-hand", "untyped-xml-plaintext-rejected", "an XML document typed by hand (leaves without a type attribute) with the "
                     "plaintext %s raised %s: %s" % (_short(p), type(exc).__name__, str(exc)[:120]))
            return
        res.count("plaintext_in_hand_typed_xml_hashed")
        for where, v in (("pw", hand.pw), ("sub.deep.pw", hand.sub.deep.pw), ("pws[0]", hand.pws[0])):
            if not isinstance(v, cc.DigestValue) or hashlib.new(alg, bytes(v.salt) + pb).digest() != bytes(v.digest):
                res.viol("M-hand", "untyped-xml-plaintext-not-hashed", "plaintext %s at %s of a hand-typed XML document was loaded as %s" % (
                    _short(p), where, _short(v)))
                return
    # ... also when it comes from an included file and the including document holds a saved salt/digest pair for the key
    if isinstance(p, str) and p and place in ("root", "default-plain", "assigned-digest", "default-digest", "nested"):
        import os

        fmt = case["fmts"][-1]
        p2 = p + "-new"
        base = cfg1.to_tree()
        incpath = os.path.join(ctx.dir, "c09inc." + fmt)
        base["inc"] = incpath
        over = {"pw": p2, "sub": {"deep": {"pw": p2}}}
        codec = cc.ConfigFormat.get(fmt)
        if trees.in_domain(fmt, base) and trees.in_domain(fmt, over):
            hand = schema()
            try:
                with open(incpath, "wb") as fp:
                    fp.write(codec.dumps(hand, over))
                hand.loads(codec.dumps(hand, base), fmt)
            except Exception as exc:
                res.viol("M-hand", "include-with-plaintext-rejected", "%s: a document with saved digests that includes a file with "
                         "hand-written plaintext raised %s: %s" % (fmt, type(exc).__name__, str(exc)[:150]))
                return
            res.count("plaintext_in_included_file_hashed")
            for where, v in (("pw", hand.pw), ("sub.deep.pw", hand.sub.deep.pw)):
                if not isinstance(v, cc.DigestValue) or hashlib.new(alg, bytes(v.salt) + p2.encode()).digest() != bytes(v.digest):
                    res.viol("M-hand", "included-plaintext-not-hashed", "%s: the included file gives the plaintext %r for %s, the "
                             "including document a saved digest; loaded as %r, which does not verify the new secret" % (
                                 fmt, _short(p2), where, _short(v)))
                    return
    if pb and len(misses) >= 3:
        res.nontrivial(case["alg"], case["p"], case.get("size"), case["place"], case["fmts"])


def _decodable(b):
    try:
        b.decode()
        return True
    except UnicodeDecodeError:
        return False


def _short(v):
    r = repr(v)
    return r if len(r) < 70 else r[:67] + "..."
