"""C19 - a failed save never damages the file on disk; a successful one loads back."""
import os

from .. import gen, model, roundtrip, spec, trees
from ..common import plain, weighted
from ..monitors import Failpoints, FileLog, InjectedFault
from .c05 import env_of

PLAN = {
    "quick": {"shards": 8, "cases": 150, "min_nontrivial": 600, "budget_s": 300},
    "thorough": {"shards": 16, "cases": 1500, "min_nontrivial": 8400, "budget_s": 1500},
}
LEVEL = "fault_enumeration"
RULE = ("a case is a schema (secrets aes/xor/best, challenge, bytes, containers, nesting, config types, untyped "
        "fields) with two valid states and a format; the destination (given as an absolute, a working-directory-relative "
        "or a home-relative path) is pre-filled by a successful save of state 1; in 2/3 of the cases the file is then "
        "rewritten, truncated or removed by somebody else (or by another configuration) and the unchanged "
        "configuration is saved again; "
        "then (a) natural failures of the second save: a value no format can encode in an untyped field, a malformed "
        "key file, an unknown format, an unknown format option, a value outside the format's domain (BSON 2**70, XML "
        "NUL); (b) line-level failpoints: a clean save is traced, the number N of line events inside the package "
        "that precede the first write-open of the destination is measured, and the save is repeated with an exception "
        "injected at event k (quick: first and last occurrence of every distinct line; thorough: every k < N, capped "
        "at 400); (c) crash points: a forked child that os._exit()s at event k; after every failing save the "
        "destination's bytes and existence are compared and the audit log must show no write-open of it; every "
        "successful save is compared with dumps() (deterministic states) and loaded back; non-trivial = >= 1 failing "
        "save judged with a pre-existing destination; distinct = distinct (schema, states, format, fault)")
REQUIRED = ("saves_of_a_configuration_that_includes_its_own_file", "schema_grown_after_first_save", "states_with_python_objects:yaml", "states_with_python_objects:pickle", "fault:keyfile-again-bad", "fault:keyfile-again-rekey", "dest_form:rel", "dest_form:home", "resaves_after_foreign_change", "failing_saves_judged", "natural_failures_judged", "injected_failures_judged", "successful_saves_judged",
            "loaded_back_equal", "distinct_injection_lines", "fault:unencodable", "fault:keyfile", "fault:format",
            "fault:option", "fault:domain", "fault:keyfile-same-secret", "fault:rekey", "crash_points_judged")
ASSUMPTIONS = ["atomicity of the write itself (a crash between open and the end of write) is not part of the property",
               "an injected exception that the library swallows (bare except) lets the save complete: the success "
               "clause is judged instead"]
FAULTS = ["none", "unencodable", "keyfile", "format", "option", "domain"]


def generate(rng, ctx):
    fmt = rng.choice(trees.FORMATS)
    fams = ["str", "int", "float", "bool", "bytes", "secure", "secure", "challenge", "list", "dict", "any", "host", "port",
            "loglevel"]
    schema = gen.gen_schema(rng, depth=rng.choice([1, 2]), width=rng.choice([3, 4, 5]), families=fams, defaults=0.4)
    # make sure a secret and an untyped holder exist
    schema["fields"].append({"kind": "field", "key": "sec0", "family": "secure", "params": {"method": rng.choice(["aes", "xor", "best"])}})
    schema["fields"].append({"kind": "field", "key": "extra0", "family": "any", "params": {}})
    roundtrip.persistable(schema, rng)
    env = gen.GEN_ENV
    t1 = roundtrip.state_tree(rng, schema, fmt, env)
    t2 = roundtrip.state_tree(rng, schema, fmt, env)
    t1.setdefault("sec0", "tk%016x" % rng.getrandbits(64))
    if fmt in ("yaml", "pickle") and rng.random() < 0.4:
        # the Python-native formats carry Python objects beyond plain data in untyped places
        from ..jsonx import PYOBJ
        import copy as _copy

        obj = _copy.deepcopy(PYOBJ[rng.choice(sorted(PYOBJ))])
        (t1 if rng.random() < 0.5 else t2)["extra0"] = rng.choice([obj, [1, obj], {"k": obj}])
    fault = weighted(rng, [(3, "none"), (2, "unencodable"), (2, "keyfile"), (1.5, "keyfile-same-secret"), (1.5, "rekey"), (1, "option-values"), (1, "format"),
                           (1, "option"), (2, "domain")])
    return {"schema": schema, "fmt": fmt, "t1": t1, "t2": t2, "fault": fault, "r": rng.getrandbits(30),
            "dest_form": rng.choice(["abs", "abs", "rel", "home"]), "grow": rng.random() < 0.4, "self_include": rng.random() < 0.25,
            "foreign": rng.choice(["none", "none", "garbage", "truncate", "delete", "other-config"]),
            "crash": rng.random() < (0.5 if ctx.tier == "thorough" else 0.3)}


def abbreviate(case):
    return case


def _read(path):
    try:
        with open(path, "rb") as fp:
            return fp.read()
    except OSError:
        return None


class Dest(str):
    """Absolute path of the destination; .given is the form handed to the library (absolute, relative to the
    working directory, or home-relative)."""
    given = None


class Unencodable:
    """A value none of the formats can encode (not even pickle / YAML's python tags)."""

    def __reduce_ex__(self, proto):
        raise TypeError("cannot serialise this")


def run(case, ctx, res):
    cc = ctx.cc
    env = env_of(ctx)
    fmt = case["fmt"]
    root = spec.resolve(case["schema"], {"$FX": ctx.sb.fx})
    built = spec.build(cc, root)
    keypath = os.path.join(ctx.dir, "save.key")
    cfg = cc.Config(built.schema, key_filename=keypath)
    form = case.get("dest_form", "abs")
    res.count("dest_form:" + form)
    if form == "home":
        hd = os.path.join(os.path.expanduser("~"), "c19-" + os.path.basename(ctx.dir))
        os.makedirs(hd, exist_ok=True)
        dest = Dest(os.path.join(hd, "out.cfg"))
        dest.given = "~/" + os.path.basename(hd) + "/out.cfg"
    elif form == "rel":
        os.chdir(ctx.dir)
        dest = Dest(os.path.join(ctx.dir, "out.cfg"))
        dest.given = rng_choice(case["r"], ["out.cfg", "./out.cfg", "../%s/out.cfg" % os.path.basename(ctx.dir)])
    else:
        dest = Dest(os.path.join(ctx.dir, "out.cfg"))
        dest.given = str(dest)
    try:
        return _run(case, ctx, res, cc, env, fmt, root, built, keypath, cfg, dest)
    finally:
        if form == "home":
            import shutil

            shutil.rmtree(hd, ignore_errors=True)
        if form == "rel":
            os.chdir(ctx.sb.root)


def rng_choice(r, options):
    return options[r % len(options)]


def _run(case, ctx, res, cc, env, fmt, root, built, keypath, cfg, dest):
    log = ctx.filelog
    if log is None:
        log = ctx.filelog = FileLog(ctx.sb.root)
    try:
        cfg.load_tree(_copy(case["t1"]))
    except Exception:
        res.count("state_not_loadable")
        return
    from ..jsonx import py_name as _pn

    def _has_py(v):
        return bool(_pn(v)) if not isinstance(v, (list, dict)) else any(_has_py(x) for x in (v.values() if isinstance(v, dict) else v))

    if _has_py(case["t1"].get("extra0")) or _has_py(case["t2"].get("extra0")):
        res.count("states_with_python_objects:" + fmt)
    # ---- first save: must succeed or leave no file behind
    ok = _judged_save(cc, ctx, res, cfg, built, root, dest, fmt, {}, log, keypath, "first")
    if ok is None:
        return
    if not ok:
        res.count("first_save_failed_naturally")
        return
    # ---- something else rewrites / removes the destination, the same configuration is saved again unchanged
    foreign = case.get("foreign", "none")
    if foreign != "none":
        if foreign == "garbage":
            with open(dest, "wb") as fp:
                fp.write(b"\x00garbage written by somebody else\n")
        elif foreign == "truncate":
            with open(dest, "wb") as fp:
                pass
        elif foreign == "delete":
            os.unlink(dest)
        elif foreign == "other-config":
            other = cc.Config(built.schema, key_filename=keypath)
            try:
                other.save(dest.given, fmt)
            except Exception:
                pass
        res.count("resaves_after_foreign_change")
        ok = _judged_save(cc, ctx, res, cfg, built, root, dest, fmt, {}, log, keypath, "resave-after-" + foreign)
        if ok is None:
            return
        if not ok:
            res.count("resave_failed_naturally")
            return
    # ---- the schema grows after the configuration has been saved once (a plug-in registering its options late): the new
    # field is part of every later save
    if case.get("grow"):
        try:
            built.schema["late0"] = cc.IntField(default=1)
            holder = root
            subs = [ch for ch in root["fields"] if ch["kind"] == "schema"]
            if subs and case["r"] % 3 == 0:
                holder = subs[0]
                built.schema[subs[0]["key"] + ".late1"] = cc.StringField(default="d")
                holder["fields"].append({"kind": "field", "key": "late1", "family": "str", "params": {"default": "d"}})
                cfg[subs[0]["key"] + ".late1"] = "set-late"
            root["fields"].append({"kind": "field", "key": "late0", "family": "int", "params": {"default": 1}})
            cfg.late0 = 4
            res.count("schema_grown_after_first_save")
        except Exception as exc:
            res.viol("M-file", "late-field-raises", "adding a field to the schema after a save and setting it raised %r" % (exc,))
            return
    # ---- the configuration names the very file it is saved to as its include file (the destination holds a previous save):
    # the save succeeds and the file loads back into an equal configuration
    if case.get("self_include") and os.path.isfile(str(dest)):
        try:
            built.schema["zinc"] = cc.IncludeField()
            root["fields"].append({"kind": "field", "key": "zinc", "family": "include", "params": {}})
            cfg.zinc = os.path.abspath(os.path.expanduser(dest.given))
        except Exception as exc:
            res.viol("M-file", "self-include-raises", "declaring an include field late and naming the destination raised %r" % (exc,))
            return
        res.count("saves_of_a_configuration_that_includes_its_own_file")
        ok = _judged_save(cc, ctx, res, cfg, built, root, dest, fmt, {}, log, keypath, "self-include")
        if ok is None:
            return
    # ---- second state + natural fault
    try:
        t2 = _copy(case["t2"])
        if case["fault"] in ("keyfile-same-secret", "rekey"):
            t2.pop("sec0", None)
        cfg.load_tree(t2)
    except Exception:
        res.count("state_not_loadable")
    fault, kwargs, usefmt = case["fault"], {}, fmt
    if fault == "unencodable":
        cfg.extra0 = Unencodable() if case["r"] % 2 else (x for x in [1])
    elif fault == "keyfile":
        cfg.sec0 = "tk%016x" % case["r"]
        with open(keypath, "wb") as fp:
            fp.write(b"short-key-16byte"[: [0, 1, 16, 31, 33][case["r"] % 5]])
    elif fault == "keyfile-same-secret":
        # the secret is NOT changed after the first save: the key file alone becomes unusable
        cfg.sec0 = case["t1"].get("sec0") or "tk%016x" % case["r"]
        with open(keypath, "wb") as fp:
            fp.write(b"short-key-16byte"[: [0, 1, 16, 31, 33][case["r"] % 5]])
    elif fault == "rekey":
        # the key file is replaced by another valid key between two saves of an unchanged secret: no failure expected,
        # but what is written must load back with the key file as it is now
        cfg.sec0 = case["t1"].get("sec0") or "tk%016x" % case["r"]
        try:
            before = os.stat(keypath)
        except OSError:
            before = None
        with open(keypath, "wb") as fp:
            fp.write(bytes((case["r"] * 7 + i * 11) % 256 for i in range(32)))
        if before is not None and case["r"] % 2:
            # the other key comes with the old file's time stamps (restored from a backup with cp -p / rsync -t): same size, same times
            os.utime(keypath, ns=(before.st_atime_ns, before.st_mtime_ns))
            res.count("key_files_replaced_with_time_stamps_kept")
    elif fault == "option-values":
        # a formatter option given two values one after the other: the document is written with the value of THIS call
        earlier = {"xml": {"root_tag": "app"}, "yaml": {"root_key": "app"}, "json": {"pretty": True}}.get(fmt)
        if earlier:
            try:
                cfg.dumps(fmt, **earlier)
                res.count("formatter_options_given_another_value_before")
            except Exception:
                pass
            kwargs = {"xml": {"root_tag": "settings"}, "yaml": {"root_key": "settings"}, "json": {"pretty": False}}[fmt]
    elif fault == "format":
        usefmt = ["toml", "JSON", "", "ini"][case["r"] % 4]
    elif fault == "option":
        kwargs = [{"nope": 1}, {"root_key": "x", "pretty": True}, {"root_tag": 5, "zzz": None}][case["r"] % 3]
        if fmt == "yaml" and "root_key" in kwargs:
            kwargs = {"pretty": True}
    elif fault == "domain":
        if fmt == "bson":
            cfg.extra0 = 2**70
        elif fmt == "xml":
            cfg.extra0 = "nul\x00char" if case["r"] % 2 else {"bad key": 1}
        elif fmt == "json":
            cfg.extra0 = {"b": b"bytes"}
        elif fmt == "yaml":
            cfg.extra0 = Unencodable()
        else:
            cfg.extra0 = lambda: 0
    if fault != "none":
        res.count("fault:" + fault)
    ok = _judged_save(cc, ctx, res, cfg, built, root, dest, usefmt, kwargs, log, keypath, "fault:" + fault)
    if ok is None:
        return
    if ok is True and fault == "option-values" and fmt in ("xml", "yaml") and kwargs:
        # read with a decoder of our own (the library's would be the one that wrote it): the document's root is the one asked for now
        try:
            with open(os.path.abspath(dest), "rb") as fp:
                raw = fp.read()
            if fmt == "xml":
                import xml.etree.ElementTree as _ET

                top = _ET.fromstring(raw).tag
            else:
                import yaml as _yaml

                doc = _yaml.safe_load(raw)
                top = list(doc)[0] if isinstance(doc, dict) and len(doc) == 1 else None
        except Exception:
            top = "settings"
            res.count("documents_not_readable_by_the_independent_decoder")
        else:
            res.count("document_roots_read_by_an_independent_decoder")
        if top != "settings":
            res.viol("M-file", "written-with-the-options-of-an-earlier-call:" + fmt, "save(..., %r) after dumps(..., %r) wrote a document whose "
                     "root is %r" % (kwargs, {"xml": {"root_tag": "app"}, "yaml": {"root_key": "app"}}[fmt], top))
            return
    if ok is False:
        res.count("natural_failures_judged")
        res.nontrivial(case["schema"], case["t1"], case["t2"], fmt, fault, case["r"])
        # put the configuration back into a saveable state for the failpoint sweep
        if fault in ("keyfile", "keyfile-same-secret"):
            os.unlink(keypath)
        if fault in ("unencodable", "domain"):
            cfg.extra0 = None
        if fault in ("format", "option"):
            pass
    elif fault not in ("none", "rekey", "option-values"):
        res.count("fault_did_not_fail:" + fault)
        if fault == "keyfile-same-secret":
            os.unlink(keypath)
    # ---- the same object has seen a failed key-file open; after a successful save the key file becomes unusable again
    # (the save must fail and leave the file alone) or is replaced by another key (the file must load back).  This runs
    # before the failpoint sweep: exceptions injected at arbitrary lines may leave the key-file object in states that
    # no real fault produces.
    if fault in ("keyfile", "keyfile-same-secret") and ok is False:
        again = ["bad", "rekey"][case["r"] % 2]
        try:
            if cfg.sec0 is None:
                cfg.sec0 = "tk%016x" % case["r"]
        except Exception:
            return
        ok1 = _judged_save(cc, ctx, res, cfg, built, root, dest, fmt, {}, log, keypath, "after-key-file-repair")
        if ok1 is None:
            return
        if ok1:
            with open(keypath, "wb") as fp:
                fp.write(b"short-key-16byte" if again == "bad" else bytes((case["r"] * 5 + i * 3) % 256 for i in range(32)))
            res.count("fault:keyfile-again-" + again)
            ok2 = _judged_save(cc, ctx, res, cfg, built, root, dest, fmt, {}, log, keypath, "fault:keyfile-again-" + again)
            if ok2 is None:
                return
            if again == "bad" and ok2 is True:
                res.count("fault_did_not_fail:keyfile-again")
            if again == "bad":
                os.unlink(keypath)
    # ---- failpoint sweep on a save that succeeds when left alone
    _sweep(cc, ctx, res, case, cfg, built, root, dest, fmt, log, keypath)


def _copy(t):
    import copy

    return copy.deepcopy(t)


def _judged_save(cc, ctx, res, cfg, built, root, dest, fmt, kwargs, log, keypath, what):
    """Run save; judge the failure clause or the success clause.  True = saved, False = failed cleanly,
    None = violation reported."""
    before = _read(dest)
    log.clear()
    with log:
        try:
            cfg.save(dest.given, fmt, **kwargs)
            err = None
        except Exception as exc:
            err = exc
    after = _read(dest)
    if err is not None:
        res.count("failing_saves_judged")
        return False if _check_untouched(res, log, dest, before, after, what, err) else None
    return True if _check_success(cc, ctx, res, cfg, built, root, dest, fmt, kwargs, keypath, after, what) else None


def _check_untouched(res, log, dest, before, after, what, err):
    """True when the destination is untouched; reports a violation otherwise."""
    if after != before:
        res.viol("M-file", "damaged:" + what.split(":")[0] + ":" + what.split(":")[-1],
                 "save failed with %s: %s but the destination changed: %s -> %s" % (
                     type(err).__name__, str(err)[:100], _describe(before), _describe(after)))
        return False
    w = log.writes(dest)
    if w:
        res.viol("M-file", "opened-for-writing:" + what.split(":")[-1], "save failed with %s but the destination was opened for "
                 "writing (%s)" % (type(err).__name__, w[0][0]))
        return False
    return True


def _describe(b):
    if b is None:
        return "absent"
    return "%d bytes (%r...)" % (len(b), b[:24])


def _check_success(cc, ctx, res, cfg, built, root, dest, fmt, kwargs, keypath, after, what):
    res.count("successful_saves_judged")
    if after is None:
        res.viol("M-file", "success-no-file", "save returned but the destination does not exist")
        return False
    try:
        d1 = cfg.dumps(fmt, **kwargs)
        d2 = cfg.dumps(fmt, **kwargs)
    except Exception as exc:
        res.viol("M-file", "success-but-dumps-fails", "save succeeded but dumps raises %r" % (exc,))
        return False
    if d1 == d2:
        res.count("deterministic_states_compared_with_dumps")
        if after != d1:
            res.viol("M-file", "file-differs-from-dumps", "file has %d bytes, dumps() gives %d bytes (%r vs %r)" % (
                len(after), len(d1), after[:60], d1[:60]))
            return False
    try:
        cfg.validate()
    except Exception:
        res.count("saved_state_does_not_validate_load_back_not_judged")
        return True
    try:
        if what not in ("fault:domain", "fault:unencodable") and not trees.in_domain(fmt, cfg.to_tree()):
            # a declared default outside the format's domain (XML: a dict key with a newline): what such a file
            # loads back to is the codec's business (C04), not the save's.  Not applied to the two stages that put an
            # unrepresentable value in on purpose: there the save is expected to fail, and one that "succeeds" is judged.
            res.count("saved_state_outside_format_domain_load_back_not_judged")
            return True
    except Exception:
        pass
    fresh = cc.Config(built.schema, key_filename=keypath)
    try:
        if kwargs:
            fresh.loads(after, fmt, **kwargs)
        else:
            fresh.load(dest.given, fmt)
    except Exception as exc:
        res.viol("M-file", "saved-file-does-not-load:" + fmt, "file written by a successful save does not load: %s: %s" % (
            type(exc).__name__, str(exc)[:200]))
        return False
    diff = roundtrip.diff_states(root, plain(cfg), plain(fresh))
    if diff:
        res.viol("M-file", "loads-back-different:" + fmt, "file written by a successful save loads back differently: %s" % "; ".join(diff[:3]))
        return False
    res.count("loaded_back_equal")
    return True


def _sweep(cc, ctx, res, case, cfg, built, root, dest, fmt, log, keypath):
    fp = ctx.failpoints
    if fp is None:
        fp = ctx.failpoints = Failpoints(ctx.pkgdir)
    mark = {"n": None}

    def on_event(ev):
        if ev[0] == "open-w" and ev[1] == os.path.abspath(dest) and mark["n"] is None:
            mark["n"] = len(fp.events)

    log.clear()
    log.on_event = on_event
    try:
        with log:
            outcome, val, events = fp.run(lambda: cfg.save(dest.given, fmt))
    finally:
        log.on_event = None
    if outcome != "ok" or mark["n"] is None:
        res.count("sweep_skipped_clean_save_fails")
        return
    n = mark["n"]
    res.count("traced_saves")
    res.count("line_events_before_write_open", n)
    ks = list(range(n))
    if ctx.tier != "thorough":
        first, last = {}, {}
        for k in ks:
            first.setdefault(events[k], k)
            last[events[k]] = k
        ks = sorted(set(first.values()) | set(last.values()))
        if len(ks) > 120:
            ks = ks[:: max(1, len(ks) // 120)]
    elif n > 400:
        ks = ks[:: max(1, n // 400)]
    lines = ctx.cache.setdefault("inj_lines", set())
    judged = 0
    opened = {"v": False}

    def on_open(ev):
        if ev[0] == "open-w" and ev[1] == os.path.abspath(dest):
            opened["v"] = True
            fp.freeze()  # the point of no return is passed: no injection after it

    for k in ks:
        before = _read(dest)
        log.clear()
        opened["v"] = False
        log.on_event = on_open
        try:
            with log:
                outcome, val, _ev = fp.run(lambda: cfg.save(dest.given, fmt), k=k, exc=InjectedFault("injected fault #%d" % k))
        finally:
            log.on_event = None
        after = _read(dest)
        res.count("injections")
        if fp.fired is None:
            res.count("injection_point_not_reached_before_write_open")
            continue
        if fp.fired and fp.fired not in lines:
            lines.add(fp.fired)
            res.count("distinct_injection_lines")
        if outcome == "raised":
            res.count("failing_saves_judged")
            res.count("injected_failures_judged")
            judged += 1
            where = "%s:%d" % fp.fired if fp.fired else "?"
            if not _check_untouched(res, log, dest, before, after, "injected:" + (fp.fired[0] if fp.fired else "?"), val):
                res.notes.append("injection at " + where)
                return
        else:
            res.count("injection_swallowed_save_completed")
            if not _check_success(cc, ctx, res, cfg, built, root, dest, fmt, {}, keypath, after, "after-swallowed-injection"):
                return
    if judged:
        res.nontrivial(case["schema"], case["t1"], case["t2"], fmt, case["fault"], "sweep")
    # ---- crash points: a forked child dies at event k
    if case.get("crash") and n > 0:
        for k in sorted({0, n // 3, (2 * n) // 3, n - 1}):
            before = _read(dest)
            pid = os.fork()
            if pid == 0:
                try:
                    log.on_event = on_open  # no crash is simulated once the destination has been opened
                    with log:
                        fp.run(lambda: cfg.save(dest.given, fmt), k=k, action=lambda: os._exit(9))
                finally:
                    os._exit(0)
            _pid, status = os.waitpid(pid, 0)
            code = os.waitstatus_to_exitcode(status)
            after = _read(dest)
            res.count("crash_points_judged")
            if code == 9 and after != before:
                res.viol("M-file", "damaged:crash", "a process that died at line event %d of %d (before the destination is opened) "
                         "left the destination changed: %s -> %s" % (k, n, _describe(before), _describe(after)))
                return
