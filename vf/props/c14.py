"""C14 - environment variables beat files, assignment beats both, names are predictable."""
import copy
import os

from .. import gen, model, spec
from ..common import plain, weighted

PLAN = {
    "quick": {"shards": 8, "cases": 1500, "min_nontrivial": 6000, "budget_s": 300},
    "thorough": {"shards": 16, "cases": 25000, "min_nontrivial": 140000, "budget_s": 1500},
}
RULE = ("schemas built top-down to depth <= 4 with every combination of schema-level (absent, automatic, named prefix, "
        "disabled) and field-level (absent, automatic, named, disabled) environment settings over scalar families; the "
        "variable NAME of every field is predicted by an independent naming model (nearest prefix, upper-cased keys "
        "joined by '_'); a process environment assigns each predicted name unset / empty / a valid / an invalid "
        "string (names guaranteed absent from the real environment); checks: construction gives the model's normal "
        "form of the variable (or the default when unset / empty / opted out), an invalid variable makes the schema "
        "call raise a ValidationError naming the field's path, documents loaded afterwards (load_tree and loads in a "
        "random format, flat and nested) never override a variable but do set unbound fields, explicit assignment "
        "does; challenge fields without a declared default are among the families; a key may be declared twice (a draft "
        "bound to another variable, then the final field) and the draft's variable is set: only the final declaration "
        "counts; wrongly predicted names are detected because the predicted variable is the only one set; non-trivial = "
        ">= 1 bound field with a non-empty variable and >= 1 unbound or unset field; distinct = distinct case content")
REQUIRED = ("assigned_sections_handed_to_a_second_configuration", "configurations_built_with_keywords_and_bound_validators", "flattened_keys_for_bound_fields_loaded", "sections_built_with_key_and_env_arguments", "upper_case_decoys_for_lower_case_names", "loads_with_undecodable_values_for_bound_fields", "variables_rejected_by_validator_callback:boom",
            "second_build_after_environment_change", "family:bytes", "style:auto", "style:getitem", "style:dotted", "list_item_bound_checked", "list_item_document_names_bound_field",
            "setting:ctype-True", "setting:ctype-named", "constructed_ok", "bound_values_checked", "unbound_defaults_checked", "invalid_variable_rejected",
            "loads_do_not_override_checked", "loads_set_unbound_checked", "assignment_overrides_checked",
            "setting:schema-auto", "setting:schema-named", "setting:schema-disabled", "setting:field-auto",
            "setting:field-named", "setting:field-disabled", "depth>=3",
            "family:challenge", "challenge_fields_bound_to_a_set_variable_checked", "keys_declared_twice",
            "redeclared_keys_loaded_while_the_variable_of_the_draft_is_set",
            "redeclared_keys_hold_the_default_while_the_variable_of_the_draft_is_set",
            "redeclared_item_keys_loaded_while_the_variable_of_the_draft_is_set")
ASSUMPTIONS = ["schemas are built top-down (bottom-up construction is outside the quantifier)",
               "the environment is not changed between construction and loads",
               "list / dict fields and challenge fields WITH a declared default are not generated here (known finding K7); "
               "challenge fields without a default use the generic default hook and are generated",
               "a key may be declared twice (a draft, then the final field): only the final declaration counts"]
FAMS = ["int", "port", "float", "bool", "str", "str", "host", "loglevel", "ipv4", "url", "bytes", "challenge"]


def _schema_setting(rng):
    return weighted(rng, [(5, None), (2, True), (2, "named"), (1.5, False)])


def _field_setting(rng):
    return weighted(rng, [(6, None), (2, True), (1.5, "named"), (1.5, False)])


def gen_node(rng, depth, counter, used):
    n = rng.randrange(1, 4)
    keys = gen.pick_keys(rng, n + 3, avoid=used)
    # keys that are no identifiers (set by item access): the derived variable name is the key in upper case, punctuation kept
    keys = [(k + rng.choice(["-main", "-x", "-2"])) if rng.random() < 0.12 and (k + "-main") not in used else k for k in keys]
    fields = []
    for key in keys[:n]:
        fam = rng.choice(FAMS)
        f = gen.gen_field(rng, fam, 0)
        f["key"] = key
        f["params"].pop("required", None)
        d = gen.normalised_default(rng, f, gen.GEN_ENV)
        if d is not None and rng.random() < 0.6 and fam != "challenge":
            # (a challenge field with a declared default never looks at its variable: known finding K7)
            f["params"]["default"] = d
        s = _field_setting(rng)
        if s == "named":
            counter[0] += 1
            s = rng.choice(["VFX_NAMED_%d", "vfx_named_%d", "VFX_NAMED_%d"]) % counter[0]
        if s is not None:
            f["params"]["env"] = s
        if rng.random() < 0.06:
            # a field-level validator callback that rejects everything, with a ValueError or with another exception type
            f["params"]["validator"] = rng.choice(["fail", "boom"])
            f["params"].pop("default", None)
        if rng.random() < (0.3 if s in (None, False) else 0.1):
            # the key is declared twice: first a draft with another environment setting, then this field (which alone counts)
            ds = weighted(rng, [(3, True), (4, "named"), (1, None)] if s is not None else [(3, True), (4, "named")])
            if ds == "named":
                counter[0] += 1
                ds = rng.choice(["VFX_DRAFT_%d", "vfx_draft_%d", "VFX_DRAFT_%d"]) % counter[0]
            f["draft"] = {"env": ds, "plain": rng.random() < 0.3}
        fields.append(f)
    if depth > 0:
        for key in keys[n:n + rng.choice([0, 1, 1, 2])]:
            sub = gen_node(rng, depth - 1, counter, used)
            sub["key"] = key
            s = _schema_setting(rng)
            if s == "named":
                counter[0] += 1
                s = rng.choice(["VFP%d", "vfp%d", "Vf_P%d", "VFP%d"]) % counter[0]
            if s is not None:
                sub["env"] = s
                sub["ctor_key"] = rng.random() < 0.35
            else:
                sub["style"] = rng.choice([None, None, "auto", "getitem", "dotted"])
            fields.append(sub)
        # configuration types and lists of configurations: their schemas are roots of their own (own prefix setting)
        r = rng.random()
        if r < 0.35:
            key = keys[n + 2]
            sub = gen_node(rng, depth - 1 if rng.random() < 0.5 else 0, counter, used)
            s = weighted(rng, [(2, None), (3, True), (3, "named"), (1, False)])
            if s == "named":
                counter[0] += 1
                s = rng.choice(["VFT%d", "vft%d"]) % counter[0]
            if s is not None:
                sub["env"] = s
            counter[0] += 1
            if r < 0.15:
                fields.append({"kind": "ctype", "key": key, "name": "E%d" % counter[0], "schema": sub})
            else:
                item = sub if rng.random() < 0.4 else {"kind": "ctype", "key": "", "name": "EI%d" % counter[0], "schema": sub}
                if item is sub and rng.random() < 0.6:
                    item["late_fill"] = True  # the list is declared first, the fields of its items afterwards
                # the list itself opts out of the environment (known finding K7 is about bound containers)
                fields.append({"kind": "field", "key": key, "family": "list", "params": {"env": False}, "item": item})
    return {"kind": "schema", "key": "", "fields": fields}


def draw_environ(rng, root):
    names = naming(root)
    environ, seen = {}, set()
    for path, node, name in names:
        if name is None or name in seen:
            continue
        seen.add(name)
        mode = weighted(rng, [(2, "unset"), (1, "empty"), (5, "valid"), (1.2, "invalid")])
        if mode == "invalid" and ("[]" in path or any(n2 == name and "[]" in p2 for p2, _x, n2 in names)):
            mode = "valid"  # items are built by loads, not by the schema call
        if mode == "unset":
            continue
        if mode == "empty":
            environ[name] = ""
            continue
        for _ in range(20):
            v = gen.one_value(rng, node, mode, gen.GEN_ENV)
            if isinstance(v, str) and v and "\x00" not in v and model.accepts(node, v, gen.GEN_ENV)[0] is (mode == "valid"):
                environ[name] = v
                break
    # one variable may name several fields: inside list items and configuration types it has to be valid for all of them
    crossing = {}
    naming(root, crossing)
    for path, node, name in names:
        if name and environ.get(name) and ("[]" in path or path in crossing):
            if model.accepts(node, environ[name], gen.GEN_ENV)[0] is not True or node.get("params", {}).get("validator"):
                del environ[name]
    # decoys: plausible but wrong names for fields the model says are unbound - they must have no effect
    taken = {n for _p, _nd, n in names if n}
    # the variable that an earlier declaration of the same key (a draft, replaced since) was bound to: it has no effect on the
    # final field, whatever that is bound to
    for (path, node, name), dname in zip(names, draft_names(root)):
        if dname and dname != name and dname not in taken and dname not in environ and rng.random() < 0.85:
            v = gen.one_value(rng, node, rng.choice(["valid", "valid", "valid", "invalid"]), gen.GEN_ENV)
            if isinstance(v, str) and v and "\x00" not in v:
                environ[dname] = v
    # ... and the upper-case spelling of a name that has lower-case letters, while the exact variable is unset or empty
    for path, node, name in names:
        if name and name != name.upper() and not environ.get(name) and name.upper() not in taken and name.upper() not in environ:
            v = gen.one_value(rng, node, rng.choice(["valid", "valid", "invalid"]), gen.GEN_ENV)
            if isinstance(v, str) and v and "\x00" not in v:
                environ[name.upper()] = v
    prefixes = set()
    for path2, _nd2, name2 in names:
        flat2 = path2.replace(".", "_").upper()
        if name2 and "[]" not in path2 and name2.upper().endswith(flat2):
            prefixes.add(name2[: len(name2) - len(flat2)])
    for path, node, name in names:
        if name is None and rng.random() < 0.6:
            flat = path.replace("[]", "").replace(".", "_").upper()
            for decoy in [node["key"].upper(), path.replace(".", "_").upper(), "_" + path.replace(".", "_").upper(), flat] + [
                    pre + flat for pre in sorted(prefixes)]:
                if decoy not in taken and decoy not in environ and decoy not in ("PATH", "HOME", "LANG", "TZ", "LC_ALL"):
                    v = gen.one_value(rng, node, "valid", gen.GEN_ENV)
                    if isinstance(v, str) and v and "\x00" not in v:
                        environ[decoy] = v
    return environ


def generate(rng, ctx):
    counter = [0]
    root = gen_node(rng, rng.choice([1, 2, 3, 4] if ctx.tier == "thorough" else [1, 2, 3]), counter, set())
    s = _schema_setting(rng)
    if s == "named":
        s = rng.choice(["VFROOT", "vfroot", "VfRoot"])
    if s is not None:
        root["env"] = s
    environ = draw_environ(rng, root)
    # the process environment changes before a second configuration is built from the SAME schema object
    environ2 = draw_environ(rng, root) if rng.random() < 0.6 else None
    tree = gen.tree_for(rng, root, gen.GEN_ENV, valid=True, partial=0.3)
    _drop_validator_fields(root, tree)
    return {"schema": root, "environ": environ, "environ2": environ2, "tree": tree, "fmt": rng.choice(["json", "yaml", "pickle", "bson", "xml"]),
            "assign": rng.random()}


def _drop_validator_fields(node, tree):
    for ch in model.fields_of(node)["fields"]:
        k = ch["key"]
        if k not in tree:
            continue
        if ch["kind"] in ("schema", "ctype"):
            if isinstance(tree[k], dict):
                _drop_validator_fields(ch, tree[k])
        elif ch.get("params", {}).get("validator"):
            del tree[k]
        elif ch["family"] == "list" and ch.get("item") and ch["item"]["kind"] != "field" and isinstance(tree[k], list):
            for it in tree[k]:
                if isinstance(it, dict):
                    _drop_validator_fields(ch["item"], it)


def probes(ctx):
    # K7: fields that override the default hook ignore their variable, yet load_tree skips their key when it is set
    root = {"kind": "schema", "key": "", "env": True, "fields": [
        {"kind": "field", "key": "tags", "family": "list", "params": {}, "item": {"kind": "field", "family": "str", "params": {}}},
        {"kind": "field", "key": "port", "family": "int", "params": {"default": 1}}]}
    yield "K7", {"schema": root, "environ": {"TAGS": "a,b"}, "tree": {"tags": ["from", "file"], "port": 2}, "fmt": "json",
                 "assign": 0.9, "k7": True}


def directed(ctx):
    """Configurations built WITH keyword values: a bound field's validator callback may look at a sibling the caller gave."""
    for order in ("bound-first", "sibling-first"):
        for how in ("schema-call", "config-type", "config-class"):
            for access in ("attr", "item"):
                yield {"ctor_kw": True, "order": order, "how": how, "access": access, "schema": {}, "environ": {}, "tree": {}}


def abbreviate(case):
    return case


# ------------------------------------------------------------------------------------------------
# naming model


def naming(root, crossing=None):
    """[(path, field node, variable name or None)] by the documented rules; `crossing` receives
    {path: 'ctype'} for fields inside a configuration type ('[]' in the path marks list items)."""
    out = []
    crossing = {} if crossing is None else crossing

    def prefix_of(setting, parent_prefix, key):
        if setting is True:
            return ""
        if isinstance(setting, str):
            return setting
        if setting is False:
            return None
        if parent_prefix is None:
            return None
        return (parent_prefix + "_" if parent_prefix else "") + key.upper()

    def root_prefix_of(setting):
        return "" if setting is True else (setting if isinstance(setting, str) else None)

    def walk(node, prefix, path):
        for ch in node["fields"]:
            p = (path + "." if path else "") + ch["key"]
            if ch["kind"] == "schema":
                walk(ch, prefix_of(ch.get("env"), prefix, ch["key"]), p)
                continue
            if ch["kind"] == "ctype":
                # the schema of a configuration type is a root of its own
                n0 = len(out)
                walk(ch["schema"], root_prefix_of(ch["schema"].get("env")), p)
                for q, _nd, _nm in out[n0:]:
                    crossing[q] = "ctype"
                continue
            if ch["family"] == "list":
                item = ch["item"]
                sch = item["schema"] if item["kind"] == "ctype" else item
                walk(sch, root_prefix_of(sch.get("env")), p + "[]")
                continue
            env = ch.get("params", {}).get("env")
            if env is False:
                name = None
            elif isinstance(env, str):
                name = env or None
            elif env is True:
                name = (prefix + "_" if prefix else "") + ch["key"].upper()
            else:
                name = None if prefix is None else (prefix + "_" if prefix else "") + ch["key"].upper()
            out.append((p, ch, name))

    root_setting = root.get("env")
    root_prefix = "" if root_setting is True else (root_setting if isinstance(root_setting, str) else None)
    walk(root, root_prefix, "")
    return out


def _draft_node(node):
    """The first declaration of a key that is declared twice (node["draft"]): the same field, or a plain string field,
    with another environment setting."""
    d = node["draft"]
    if d.get("plain"):
        out = {"kind": "field", "key": node["key"], "family": "str", "params": {}}
    else:
        out = copy.deepcopy(node)
        out.pop("draft")
        out["params"].pop("validator", None)
    if d["env"] is None:
        out["params"].pop("env", None)
    else:
        out["params"]["env"] = d["env"]
    return out


def _map_fields(node, fn):
    """A copy of a schema node in which the field list of every schema is rebuilt by fn(field node) -> [nodes]."""
    node = dict(node)
    if node["kind"] == "ctype":
        node["schema"] = _map_fields(node["schema"], fn)
        return node
    out = []
    for ch in node["fields"]:
        if ch["kind"] in ("schema", "ctype"):
            out.append(_map_fields(ch, fn))
        elif ch["family"] == "list":
            ch = dict(ch)
            if ch.get("item") and ch["item"]["kind"] != "field":
                ch["item"] = _map_fields(ch["item"], fn)
            out.append(ch)
        else:
            out.extend(fn(ch))
    node["fields"] = out
    return node


def draft_names(root):
    """For every entry of naming(root), in the same order: the variable name of the draft declaration of that key (None when
    the key is declared once or the draft was not bound)."""
    drafts = naming(_map_fields(root, lambda ch: [_draft_node(ch) if ch.get("draft") else ch]))
    return [dn if node.get("draft") else None for (_p, node, _n), (_p2, _nd2, dn) in zip(naming(root), drafts)]


def with_drafts(root):
    """The schema as it is BUILT: every key with a draft is declared twice, the draft first."""
    return _map_fields(root, lambda ch: [_draft_node(ch), ch] if ch.get("draft") else [ch])


def _settings_seen(res, root):
    def walk(node, depth):
        for ch in node["fields"]:
            if ch["kind"] == "schema":
                e = ch.get("env")
                if e is True:
                    res.count("setting:schema-auto")
                elif isinstance(e, str):
                    res.count("setting:schema-named")
                elif e is False:
                    res.count("setting:schema-disabled")
                if depth + 1 >= 3:
                    res.count("depth>=3")
                if ch.get("ctor_key") and e is not None:
                    res.count("sections_built_with_key_and_env_arguments")
                if ch.get("style") and e is None and ch["fields"]:
                    res.count("style:" + ch["style"])
                walk(ch, depth + 1)
            elif ch["kind"] == "ctype":
                res.count("setting:ctype-%s" % ("named" if isinstance(ch["schema"].get("env"), str) else ch["schema"].get("env")))
                walk(ch["schema"], depth + 1)
            elif ch["family"] == "list":
                item = ch["item"]
                sch = item["schema"] if item["kind"] == "ctype" else item
                res.count("setting:item-%s" % ("named" if isinstance(sch.get("env"), str) else sch.get("env")))
                walk(sch, depth + 1)
            else:
                if ch["family"] == "bytes":
                    res.count("family:bytes")
                if ch["family"] == "challenge":
                    res.count("family:challenge")
                if ch.get("draft"):
                    res.count("keys_declared_twice")
                e = ch.get("params", {}).get("env")
                if e is True:
                    res.count("setting:field-auto")
                elif isinstance(e, str):
                    res.count("setting:field-named")
                elif e is False:
                    res.count("setting:field-disabled")
    e = root.get("env")
    if e is True:
        res.count("setting:schema-auto")
    elif isinstance(e, str):
        res.count("setting:schema-named")
    elif e is False:
        res.count("setting:schema-disabled")
    walk(root, 1)


def run_k7(case, ctx, res):
    cc = ctx.cc
    schema = cc.Schema(env=True)
    schema.tags = cc.ListField(cc.StringField())
    schema.port = cc.IntField(default=1)
    os.environ["TAGS"] = "a"
    cfg = schema()
    res.count("constructed_ok")
    cfg.load_tree({"tags": ["from", "file"], "port": 2})
    if cfg.tags is None and cfg.port == 2:
        res.viol("M-env", "k7-container-ignores-variable-but-load-skips", "Schema(env=True) with tags = ListField(StringField()) and "
                 "TAGS='a' in the environment: the field ignores the variable (reads None), yet load_tree({'tags': ['from', 'file']}) "
                 "skips the key because the variable is set - the document value is silently dropped")


def run_ctor_kw(case, ctx, res):
    cc = ctx.cc
    if "VFC14KW_SIZE" in os.environ:
        return

    def check(cfg, value):
        limit = cfg.limit if case["access"] == "attr" else cfg["limit"]
        if limit is None or value > limit:
            raise ValueError("size %r exceeds the limit %r" % (value, limit))
        return value

    schema = cc.Schema()
    if case["order"] == "bound-first":
        schema.size = cc.IntField(env="VFC14KW_SIZE", validator=check, default=1)
        schema.limit = cc.IntField(default=10)
    else:
        schema.limit = cc.IntField(default=10)
        schema.size = cc.IntField(env="VFC14KW_SIZE", validator=check, default=1)
    schema.name = cc.StringField(default="n")
    os.environ["VFC14KW_SIZE"] = "50"
    try:
        if case["how"] == "schema-call":
            cfg = schema(limit=100, name="given")
        elif case["how"] == "config-class":
            cfg = cc.Config(schema, limit=100, name="given")
        else:
            cfg = cc.make_type(schema, "Volume", module="vf_types")(limit=100, name="given")
    except Exception as exc:
        res.viol("M-env", "construction-with-keywords-raises", "VFC14KW_SIZE=50 is valid (the caller gives limit=100, the validator of the "
                 "bound field allows size <= limit), but building the configuration (%s, %s) raised %s: %s" % (
                     case["how"], case["order"], type(exc).__name__, str(exc)[:150]))
        return
    finally:
        os.environ.pop("VFC14KW_SIZE", None)
    res.count("configurations_built_with_keywords_and_bound_validators")
    if cfg.size != 50 or cfg.limit != 100 or cfg.name != "given":
        res.viol("M-env", "construction-with-keywords-values", "built with limit=100, name='given' and VFC14KW_SIZE=50: size=%r limit=%r name=%r" % (
            cfg.size, cfg.limit, cfg.name))


def run(case, ctx, res):
    if case.get("ctor_kw"):
        return run_ctor_kw(case, ctx, res)
    if case.get("k7"):
        return run_k7(case, ctx, res)
    cc = ctx.cc
    root = copy.deepcopy(case["schema"])
    names = naming(root)
    rounds = [dict(case["environ"])] + ([dict(case["environ2"])] if case.get("environ2") is not None else [])
    if any(n in os.environ for e in rounds for n in e):
        return
    _settings_seen(res, root)
    if any(n and n != n.upper() and not rounds[0].get(n) and rounds[0].get(n.upper()) for _p, _nd, n in names):
        res.count("upper_case_decoys_for_lower_case_names")
    os.environ.update(rounds[0])
    built = spec.build(cc, copy.deepcopy(with_drafts(root)))
    for i, environ in enumerate(rounds):
        if i:
            for n in rounds[i - 1]:
                os.environ.pop(n, None)
            os.environ.update(environ)
            res.count("second_build_after_environment_change")
        if not _round(dict(case, environ=environ), ctx, res, cc, root, names, built, environ, "build %d: " % (i + 1) if i else ""):
            return


def _round(case, ctx, res, cc, root, names, built, environ, label):
    """One configuration built from the (already built) schema under one process environment.  True = go on."""
    env = gen.GEN_ENV
    bound = {}  # path -> (node, name, normal form)
    invalid = []
    crossing = {}
    naming(root, crossing)
    # keys declared twice whose FIRST declaration was bound to a variable that is set now (the final field is not bound to it)
    case["drafted"] = {path for (path, _nd, name), dname in zip(names, draft_names(root)) if dname and dname != name and environ.get(dname)}
    for path, node, name in names:
        if name and environ.get(name):
            ok, norm = model.accepts(node, environ[name], env)
            if ok is True and node.get("params", {}).get("validator"):
                # the field's own validator callback rejects everything (some with an exception that is not a ValueError)
                if "[]" in path or path in crossing:
                    return True
                invalid.append((path, node, name))
                res.count("variables_rejected_by_validator_callback:" + node["params"]["validator"])
            elif ok is True:
                bound[path] = (node, name, norm)
            elif ok is False and "[]" not in path and path not in crossing:
                invalid.append((path, node, name))
            else:
                return True
    try:
        cfg = built.schema()
        err = None
    except Exception as exc:
        cfg, err = None, exc
    if invalid:
        res.count("invalid_variable_rejected")
        if err is None:
            res.viol("M-env", "invalid-variable-accepted", label + "variables %r are invalid for their fields but the schema call returned" % (
                {n: environ[n] for _p, _nd, n in invalid},))
            return False
        if not isinstance(err, cc.ValidationError):
            res.viol("M-env", "invalid-variable-wrong-error", "invalid variable surfaced as %s: %s" % (type(err).__name__, str(err)[:150]))
            return False
        paths = [p for p, _nd, _n in invalid]
        if err.ref_path not in paths or not str(err).startswith(err.ref_path):
            res.viol("M-env", "invalid-variable-wrong-path", "error names %r (%s); the fields with invalid variables are %r" % (
                err.ref_path, str(err)[:100], paths))
            return False
        res.nontrivial(case["schema"], case["environ"], "invalid")
        return True
    if err is not None:
        res.viol("M-env", "construction-raises", label + "schema call raised %s: %s with environment %r" % (type(err).__name__, str(err)[:150], environ))
        return False
    res.count("constructed_ok")
    if not _check_values(res, cfg, names, bound, None, label + "construction", case):
        return False
    # documents loaded afterwards never override a variable; unbound fields are loaded
    tree = case["tree"]
    loaded = _tree_norms(root, tree, env)
    for how in ("load_tree", "loads"):
        try:
            if how == "load_tree":
                cfg.load_tree(copy.deepcopy(tree))
            else:
                from ..trees import in_domain

                if not in_domain(case["fmt"], tree):
                    continue
                cfg.loads(cc.ConfigFormat.get(case["fmt"]).dumps(cfg, tree), case["fmt"])
        except Exception as exc:
            res.count("load_raised_not_judged")
            res.notes.append("load raised %r" % (exc,))
            return True
        if not _check_values(res, cfg, names, bound, loaded, label + how, case):
            return False
        if not _check_lists(res, cfg, root, tree, "", bound, env, label + how, case):
            return False
    # a document that names a nested bound field by a flattened top-level key ("section.option") does not get at it either
    for path, (node, name, norm) in [kv for kv in bound.items() if "." in kv[0] and "[]" not in kv[0]][:2]:
        other = None
        for cand in gen.candidates(ctx.cache.setdefault("rng", __import__("random").Random(5)), node, 12, env):
            ok, n2 = model.accepts(node, cand, env)
            if ok is True and n2 is not None and not _eq(n2, norm) and isinstance(cand, (str, int, float, bool)):
                other = cand
                break
        if other is None:
            continue
        res.count("flattened_keys_for_bound_fields_loaded")
        try:
            cfg.load_tree({path: other})
        except Exception:
            res.count("flattened_keys_rejected")
        if not _check_values(res, cfg, names, bound, loaded, label + "load_tree(flattened key %s)" % path, case):
            return False
    # a document may carry, for a field the environment overrides, a value that cannot even be decoded / validated:
    # it is ignored like any other value for that field
    tree2, spoiled = copy.deepcopy(tree), 0
    BAD = {"int": "not-a-number", "port": "not-a-number", "float": "not-a-number", "bool": "maybe", "ipv4": "999.1.1.1", "url": 5,
           "host": "bad host!", "loglevel": "nolevel", "str": 12345, "bytes": "zz-not-encoded-\u00e9"}
    for path, (node, name, norm) in list(bound.items()):
        if "[]" in path or node["family"] not in BAD or spoiled >= 2:
            continue
        if model.accepts_disk(node, BAD[node["family"]], env)[0] is not False:
            continue
        holder, ok_path = tree2, True
        for seg in path.split(".")[:-1]:
            nxt = holder.get(seg)
            if nxt is None:
                nxt = holder[seg] = {}
            if not isinstance(nxt, dict):
                ok_path = False
                break
            holder = nxt
        if ok_path:
            holder[path.split(".")[-1]] = BAD[node["family"]]
            spoiled += 1
    if spoiled:
        res.count("loads_with_undecodable_values_for_bound_fields")
        try:
            cfg.load_tree(copy.deepcopy(tree2))
        except Exception as exc:
            res.viol("M-env", "load-fails-on-overridden-value", label + "a document whose only bad values belong to fields the environment "
                     "overrides (%r) failed to load: %s: %s" % ({p: environ[b[1]] for p, b in bound.items()}, type(exc).__name__, str(exc)[:150]))
            return False
        if not _check_values(res, cfg, names, bound, loaded, label + "load_tree(bad values for bound fields)", case):
            return False
    # explicit assignment beats both
    for path, (node, name, norm) in [kv for kv in bound.items() if "[]" not in kv[0] and not kv[1][0].get("params", {}).get("validator")][:3]:
        v = None
        for cand in gen.candidates(ctx.cache.setdefault("rng", __import__("random").Random(5)), node, 12, env):
            ok, n2 = model.accepts(node, cand, env)
            if ok is True and n2 is not None and not _eq(n2, norm):
                v = (cand, n2)
                break
        if v is None:
            continue
        try:
            cfg[path] = spec.realize(cc, v[0])
        except Exception as exc:
            res.viol("M-env", "assignment-rejected", "assigning %r to the bound field %s raised %r" % (v[0], path, exc))
            return False
        res.count("assignment_overrides_checked")
        got = plain(cfg[path])
        if model.match(v[1], got):
            res.viol("M-env", "assignment-does-not-override", "%s bound to %s=%r: after assigning %r it reads %r" % (
                path, name, environ[name], v[0], got))
            return False
        # the section that holds the assigned value is handed, as an object, to a second configuration of the schema: what was
        # assigned travels with it (the variable is still set)
        sec = path.rpartition(".")[0]
        if sec:
            try:
                twin = built.schema()
                twin[sec] = cfg[sec]
                moved = plain(twin[path])
            except Exception:
                moved = None
                res.count("section_handover_not_applicable")
            else:
                res.count("assigned_sections_handed_to_a_second_configuration")
                if model.match(v[1], moved):
                    res.viol("M-env", "assignment-lost-when-the-section-is-handed-over", "%s bound to %s=%r was assigned %r; after "
                             "twin[%r] = cfg[%r] the twin reads %r" % (path, name, environ[name], v[0], sec, sec, moved))
                    return False
        # reset_value puts the field back to what the build gave it: the validated variable, not the declared default (a later
        # document still cannot touch it, so the declared default would be neither the variable nor anything that was put in)
        if node["family"] in ("challenge", "secure", "list", "dict"):
            continue
        try:
            cc.reset_value(cfg, path)
            back = plain(cfg[path])
        except Exception as exc:
            res.viol("M-env", "reset-raises", "reset_value(%r) for the field bound to %s=%r raised %r" % (path, name, environ[name], exc))
            return False
        res.count("resets_of_assigned_bound_fields_checked")
        if model.match(norm, back):
            res.viol("M-env", "reset-forgets-the-variable", "%s bound to %s=%r: after an assignment and reset_value it reads %r, the build "
                     "gave %r" % (path, name, environ[name], back, norm))
            return False
    unbound = [p for p, _nd, n in names if p not in bound]
    if bound and unbound:
        res.nontrivial(case["schema"], case["environ"], case["tree"])
    return True


def _draft_note(case, path):
    if path in case.get("drafted", ()):
        return " (the key was declared twice: the variable of the replaced first declaration is set, the final field is not bound to it)"
    return ""


def _eq(a, b):
    from ..common import eqstar

    return eqstar(a, b)


def _tree_norms(root, tree, env, prefix=""):
    """{path: normal form} of the leaves present in a (valid) tree."""
    out = {}
    kids = {ch["key"]: ch for ch in model.fields_of(root)["fields"]}
    for k, v in tree.items():
        ch = kids.get(k)
        p = (prefix + "." if prefix else "") + k
        if ch is None:
            continue
        if ch["kind"] in ("schema", "ctype"):
            if isinstance(v, dict):
                out[p] = "<sub>"
                out.update(_tree_norms(ch, v, env, p))
            continue
        if ch["family"] == "list":
            continue
        ok, n = model.accepts_disk(ch, v, env)
        if ok is True:
            out[p] = n
    return out


def _check_lists(res, cfgobj, schema_node, tdict, tpath, bound, env, stage, case):
    """Lists of configurations loaded from a document: every item is built by the load, so each of its fields holds
    its validated variable when one is set, else the document's value, else its default."""
    for ch in model.fields_of(schema_node)["fields"]:
        key = ch["key"]
        p = (tpath + "." if tpath else "") + key
        if ch["kind"] in ("schema", "ctype"):
            sub = tdict.get(key) if isinstance(tdict, dict) else None
            if not _check_lists(res, getattr(cfgobj, key), ch, sub if isinstance(sub, dict) else {}, p, bound, env, stage, case):
                return False
        elif ch["family"] == "list" and isinstance(tdict, dict) and isinstance(tdict.get(key), list):
            items = getattr(cfgobj, key)
            want = tdict[key]
            if items is None or len(items) != len(want):
                res.viol("M-env", "list-items", "%s: %s was loaded from %d item(s) but holds %r" % (stage, p, len(want), plain(items)))
                return False
            for i, (it, t) in enumerate(zip(items, want)):
                if not _check_item(res, it, ch["item"], t if isinstance(t, dict) else {}, p + "[]", "%s[%d]" % (p, i), bound, env, stage, case):
                    return False
    return True


def _check_item(res, cfgobj, schema_node, tdict, tpath, shown, bound, env, stage, case):
    for ch in model.fields_of(schema_node)["fields"]:
        key = ch["key"]
        p = tpath + "." + key
        where = shown + "." + key
        if ch["kind"] in ("schema", "ctype"):
            sub = tdict.get(key)
            if not _check_item(res, getattr(cfgobj, key), ch, sub if isinstance(sub, dict) else {}, p, where, bound, env, stage, case):
                return False
            continue
        if ch["family"] == "list":
            items = getattr(cfgobj, key)
            want = tdict.get(key)
            if isinstance(want, list):
                if items is None or len(items) != len(want):
                    res.viol("M-env", "list-items", "%s: %s was loaded from %d item(s) but holds %r" % (stage, where, len(want), plain(items)))
                    return False
                for i, (it, t) in enumerate(zip(items, want)):
                    if not _check_item(res, it, ch["item"], t if isinstance(t, dict) else {}, p + "[]", "%s[%d]" % (where, i), bound,
                                       env, stage, case):
                        return False
            continue
        got = plain(getattr(cfgobj, key))
        if p in bound:
            _nd, nm, norm = bound[p]
            res.count("list_item_bound_checked")
            if key in tdict:
                res.count("list_item_document_names_bound_field")
            d = model.match(norm, got)
            if d:
                res.viol("M-env", "item-overridden-by-load" if key in tdict else "item-name", "%s: %s should hold the validated variable "
                         "%s=%r (%r) but reads %r (the document %s)" % (stage, where, nm, case["environ"][nm], norm, got,
                                                                        "gives %r" % (tdict[key],) if key in tdict else "does not name it"))
                return False
        elif key in tdict:
            ok, n = model.accepts_disk(ch, tdict[key], env)
            if ok is True:
                res.count("list_item_loaded_checked")
                if p in case.get("drafted", ()):
                    res.count("redeclared_item_keys_loaded_while_the_variable_of_the_draft_is_set")
                if model.match(n, got):
                    res.viol("M-env", "item-load-dropped", "%s: %s is not bound to a set variable, the document gives %r, but it reads %r%s" % (
                        stage, where, tdict[key], got, _draft_note(case, p)))
                    return False
        else:
            known, dflt = model.default_of(ch, env)
            if known:
                res.count("list_item_default_checked")
                if model.match(dflt, got):
                    res.viol("M-env", "item-default", "%s: %s should hold its default %r but reads %r; environment %r" % (
                        stage, where, dflt, got, case["environ"]))
                    return False
    return True


def _check_values(res, cfg, names, bound, loaded, stage, case):
    for path, node, name in names:
        if "[]" in path:
            continue
        try:
            got = plain(cfg[path])
        except Exception as exc:
            res.viol("M-env", "unreadable", "%s: reading %s raised %r" % (stage, path, exc))
            return False
        if path in bound:
            _nd, nm, norm = bound[path]
            res.count("bound_values_checked")
            if loaded is not None:
                res.count("loads_do_not_override_checked")
            if node["family"] == "challenge":
                res.count("challenge_fields_bound_to_a_set_variable_checked")
            d = model.match(norm, got)
            if d:
                what = "name" if loaded is None else "overridden-by-load"
                res.viol("M-env", what + (":k7" if case.get("k7") else ""), "%s: field %s should hold the validated variable %s=%r (%r) "
                         "but reads %r" % (stage, path, nm, case["environ"][nm], norm, got))
                return False
            continue
        # unbound, unset, empty or opted out: default, or the loaded value when one was loaded
        parent_replaced = loaded is not None and any(path.startswith(p + ".") for p, v in loaded.items() if v == "<sub>")
        if loaded is not None and path in loaded:
            res.count("loads_set_unbound_checked")
            if path in case.get("drafted", ()):
                res.count("redeclared_keys_loaded_while_the_variable_of_the_draft_is_set")
            d = model.match(loaded[path], got)
            if d:
                res.viol("M-env", "load-dropped" + (":k7" if case.get("k7") else ""), "%s: %s is not bound to a set variable, the document "
                         "gives %r, but it reads %r%s" % (stage, path, loaded[path], got, _draft_note(case, path)))
                return False
            continue
        if loaded is None or parent_replaced:
            known, dflt = model.default_of(node, gen.GEN_ENV)
            res.count("unbound_defaults_checked")
            if path in case.get("drafted", ()):
                res.count("redeclared_keys_hold_the_default_while_the_variable_of_the_draft_is_set")
            if known and model.match(dflt, got):
                res.viol("M-env", "default", "%s: %s (variable %s) should hold its default %r but reads %r; environment %r" % (
                    stage, path, name, dflt, got, case["environ"]))
                return False
    return True
