"""Plain-data trees: generator, per-format representable domains, independent deep merge."""
import math
import re

from .common import weighted

FORMATS = ["json", "yaml", "bson", "xml", "pickle"]
OPTIONS = {
    "json": [{}, {"pretty": True}, {"pretty": False}],
    "yaml": [{}, {"root_key": "CONFIG"}, {"root_key": "k0"}],
    "xml": [{}, {"root_tag": "config"}, {"root_tag": "cfg"}, {"root_tag": "k0"}, {"root_tag": "xmlconfig"}, {"root_tag": "XML-settings"}],
    "bson": [{}],
    "pickle": [{}],
}

STRINGS = [
    "", " ", "  lead", "trail  ", "\n", "a\nb", "line\n", "\tt", "true", "false", "1", "0", "null", "~", "yes", "no",
    "on", "1.5", "1e3", ".inf", "nan", "None", "<a>&\"'</a>", "]]>", "<!-- c -->", "&amp;", "a:b", "- x", "{a: 1}", "[1]",
    "#c", "!!str", "2020-01-01", "0x10", "1_000", "\U0001f600", "e\u0301", "\u0085", "\ufeff", "\u2028",
    "\u00e9\u4e2d",
    "x" * 300, "\x00", "\x1f", "\r", "a\r\nb", "\x7f", "\ud7ff", "\ufffd", "=", "<<", "?", "|", ">", "@at", "`bt`", "%p",
    "'", '"', "''", "\\", "\\n", "a b", "k0", "item", "type", "config",
    "http://example.com/index.html", "src/*.py and tests/*/conftest.py", "// not a comment", "/* neither */", "a//b", "# x", "<!--x-->",
    "@@0@@", "@@1@@", "@@2@@", "__0__", "\x000", "{0}", "%s", "caf\udce9.log", "\udc80", "$HOME", "${PATH}", "tok-${HOME}-x", "C:\\ProgramData\\app\\", "ends-with-backslash\\", "^[a-z0-9_,]+$", "{a, b, }", "[1, 2, ]", "First_x0020_Name", "l1_x000A_l2", "_x0041_", "_x000D_", "&#10;", "&#x41;", "\\u0041", "%41", "p1\n\np2", "l1\n  \nl2\n", "\n\n\n", "--", "%YAML 1.2", "---", "...", "&anchor", "*alias", "!!python/object:os.system", "${HOME}", "%(x)s", "{{ x }}",
]
KEYS = ["@@0@@", "k0", "k1", "k2", "item", "type", "config", "a.b", "a-b", "_u", "K", "x9", "CONFIG", "cfg", "key", "value",
        "list", "dict", "str", "none"]
ODD_KEYS = ["ver\uff0e2", "\uff04set", "a\uff0eb", "\uff0e", "k_x0041_", "", "1", "a b", "k\u00e9", "<k>", "a:b", "true", "null", "~", "$x", "a\x00b", "-d", ".d", "\U0001f600"]
INTS = [0, 1, -1, 2, 255, 2573, 3338, 168626701, 2**31 - 1, 2**31, -2**31, -2**31 - 1, 2**32, 2**53 + 1, 2**63 - 1, -2**63, 2**63, -2**63 - 1,
        2**64, 10**30, -10**40]
FLOATS = [0.0, -0.0, 1.0, -1.5, 0.1, 1e300, -1e300, 1e-300, 5e-324, 2.0**53, 1e16, 1.0e-5, 123456789.123456789,
          float("inf"), float("-inf"), float("nan"), 3.0, 1e22, 1e21]


def gen_leaf(rng):
    kind = weighted(rng, [(2, "none"), (3, "bool"), (5, "int"), (5, "float"), (8, "str")])
    if kind == "none":
        return None
    if kind == "bool":
        return rng.random() < 0.5
    if kind == "int":
        return rng.choice(INTS) if rng.random() < 0.6 else rng.randrange(-1000, 1000)
    if kind == "float":
        return rng.choice(FLOATS) if rng.random() < 0.6 else rng.uniform(-1e6, 1e6)
    if rng.random() < 0.75:
        return rng.choice(STRINGS)
    return "".join(rng.choice("abcXYZ09 _-.\n\t<&\u00e9\U0001f600") for _ in range(rng.randrange(1, 12)))


def gen_key(rng, odd=0.15):
    if rng.random() < odd:
        return rng.choice(ODD_KEYS)
    return rng.choice(KEYS) if rng.random() < 0.8 else "k%d" % rng.randrange(100)


def gen_value(rng, depth, budget):
    """budget: mutable [remaining leaves]"""
    if depth <= 0 or budget[0] <= 0 or rng.random() < 0.45:
        budget[0] -= 1
        return gen_leaf(rng)
    if rng.random() < 0.5:
        n = rng.choice([0, 0, 1, 2, 3, 4])
        return [gen_value(rng, depth - 1, budget) for _ in range(n)]
    return gen_map(rng, depth - 1, budget)


def gen_map(rng, depth, budget, odd=0.15, nmin=0):
    n = rng.choice([0, 1, 2, 2, 3, 4, 5]) if nmin == 0 else rng.randrange(nmin, nmin + 5)
    out = {}
    for _ in range(n):
        out[gen_key(rng, odd)] = gen_value(rng, depth, budget)
    return out


def gen_tree(rng, depth=4, leaves=40, odd=0.15):
    return gen_map(rng, depth, [leaves], odd, nmin=1)


# ------------------------------------------------------------------------------------------------
# domains

_XML_NAME = re.compile(r"^[A-Za-z_][A-Za-z0-9_.\-]*\Z")


def _xml_char(c):
    o = ord(c)
    return o in (0x9, 0xA) or 0x20 <= o <= 0xD7FF or 0xE000 <= o <= 0xFFFD or 0x10000 <= o <= 0x10FFFF


def _no_surrogates(s):
    return not any(0xD800 <= ord(c) <= 0xDFFF for c in s)


def in_domain(fmt, value, top=True):
    """Is the plain tree inside the representable domain of the format (as the properties state
    it)?  The common domain: finite plain data, string keys, no lone surrogates, integers of at most
    1000 digits (Python's own int<->str conversion limit is not a format matter)."""
    if value is None or isinstance(value, bool):
        return True
    if fmt in ("yaml", "pickle") and not isinstance(value, (int, float, str, list, dict, tuple, bytes)):
        from .jsonx import py_name

        if py_name(value):
            return True  # the two Python-native formats carry arbitrary Python objects
    if isinstance(value, int):
        if abs(value) >= 10**1000:
            return False
        if fmt == "bson":
            return -2**63 <= value < 2**63
        return True
    if isinstance(value, float):
        return True
    if isinstance(value, str):
        if not _no_surrogates(value) and fmt not in ("json", "yaml", "pickle"):
            return False  # (JSON escapes them, YAML and pickle carry them; BSON and XML cannot)
        if fmt == "xml":
            return all(_xml_char(c) for c in value)  # '\r' is not in _xml_char
        return True
    if isinstance(value, list):
        return all(in_domain(fmt, v, False) for v in value)
    if isinstance(value, dict):
        for k, v in value.items():
            if not isinstance(k, str) or (not _no_surrogates(k) and fmt not in ("json", "yaml", "pickle")):
                return False
            if fmt == "xml" and not _XML_NAME.match(k):
                return False
            if fmt == "bson" and "\x00" in k:
                return False
            if not in_domain(fmt, v, False):
                return False
        return True
    return False


def leaf_kind(v):
    if v is None:
        return "null"
    if isinstance(v, bool):
        return "bool"
    if isinstance(v, int):
        return "int" if abs(v) < 2**31 else ("int64" if -2**63 <= v < 2**63 else "bigint")
    if isinstance(v, float):
        if math.isnan(v):
            return "nan"
        if math.isinf(v):
            return "inf"
        return "float"
    if isinstance(v, str):
        if v == "":
            return "str-empty"
        if v.strip() != v or v.strip() == "":
            return "str-ws"
        if not v.isascii():
            return "str-unicode"
        return "str"
    if isinstance(v, list):
        return "list" if v else "list-empty"
    if isinstance(v, dict):
        return "map" if v else "map-empty"
    return type(v).__name__


def first_difference(a, b, path=""):
    """(path, kind-of-expected, short description) of the first difference, or None."""
    from .common import eqstar

    if eqstar(a, b):
        return None
    if isinstance(a, dict) and isinstance(b, dict) and type(a) is type(b):
        for k in a:
            if k not in b:
                return ("%s.%s" % (path, k), "key-lost", "key %r lost" % (k,))
            d = first_difference(a[k], b[k], "%s.%s" % (path, k))
            if d:
                return d
        for k in b:
            if k not in a:
                return ("%s.%s" % (path, k), "key-added", "key %r appeared" % (k,))
    if isinstance(a, list) and isinstance(b, list) and len(a) == len(b):
        for i, (x, y) in enumerate(zip(a, b)):
            d = first_difference(x, y, "%s[%d]" % (path, i))
            if d:
                return d
    return (path or ".", leaf_kind(a), "%r came back as %r" % (_short(a), _short(b)))


def _short(v):
    r = repr(v)
    return r if len(r) < 80 else r[:77] + "..."


# ------------------------------------------------------------------------------------------------
# independent deep merge (oracle of C18)


def merge(base, child):
    """child wins; maps merge recursively; one-sided keys kept; inputs untouched."""
    out = {}
    for k, v in base.items():
        out[k] = v
    for k, v in child.items():
        if k in out and isinstance(out[k], dict) and isinstance(v, dict):
            out[k] = merge(out[k], v)
        else:
            out[k] = v
    return out
